------------------------------ MODULE MIRCheck ------------------------------
(* Well-formedness of MIR instructions and declarations, transcribed from   *)
(* /repo/MIR.md (NOT from the insn_descs table of mir.c).                    *)
(*                                                                          *)
(*   OpModes[opcode]     per operand position: expected value class and     *)
(*                       output flag (MIR.md "MIR insns" and its tables)    *)
(*   Verdict(fn, insns)  "ok" | "err" (with the set of error codes the      *)
(*                       violated rules allow) | "unspec" (MIR.md is silent *)
(*                       or ambiguous: the binding only records the code's  *)
(*                       behaviour)                                         *)
(*                                                                          *)
(* Where MIR.md is silent or ambiguous the verdict is "unspec" (reasons are  *)
(* named in the row):                                                       *)
(*   ProtoAsValue            a prototype reference used as a value          *)
(*   PropertyOfMemory        prset/prbeq/prbne "variable" given as memory   *)
(*   UnsignedPropertyConst   property constant made by MIR_new_uint_op      *)
(*   VaArgMemoryForm         va_arg type operand: block/undef type, fp base *)
(*   VaOutsideVarargFunc     va_arg/va_block_arg/va_end in a fixed-arg func *)
(*   NarrowAddrOfFpVar       addr8/16/32 of a float/double/long double var  *)
(*   OvfSeparatedByMove, OvfSignedness   bo after `addo; mov`, ubo after mulo *)
(*   CalleeIsNotCode         data/bss/string address as the called address  *)
(*   LabelAsVararg, RblkAsVararg   in the variable tail of a call           *)
(*   JcallWithSignature      jcall through a prototype with args/results    *)
(*   RetJretMix              ret and jret in one function                   *)
(*   InternalOpcode          use / phi / label / invalid-insn via the API   *)
(*   U64Reg, UndocumentedReservedName, VarargWithoutFixedArg, UndefArgType  *)
(*                                                                          *)
(* The module is also the generator of the complete table C15 replays:      *)
(* Init chooses any row of Cases (selected by IOEnv.GRP / PART / NPART) and *)
(* emits it, there is no Next.                                              *)
EXTENDS Integers, Sequences, FiniteSets, TLC, Json, IOUtils, Emit

VARIABLE row

(* ======================= data types (MIR.md "MIR data type") ============ *)
IntTypes == {"i8", "u8", "i16", "u16", "i32", "u32", "i64", "u64", "p"}   \* p: "actually 32-bit or 64-bit integer value"
FpTypes == {"f", "d", "ld"}
ScalarTypes == IntTypes \cup FpTypes
BlkTypes == {"blk0", "blk1", "blk2", "blk3", "blk4"}     \* MIR_T_BLK .. MIR_T_BLK + MIR_BLK_NUM - 1
AllBlkTypes == BlkTypes \cup {"rblk"}
MemTypes == ScalarTypes \cup AllBlkTypes \cup {"undef"}
TClass(t) == IF t \in IntTypes THEN "i" ELSE IF t \in FpTypes THEN t
             ELSE IF t \in AllBlkTypes THEN "blk" ELSE "undef"

(* ======================= operands (MIR.md "MIR insn operands") ========== *)
(* kind: name of the enumeration letter; k: operand constructor;           *)
(* t: reg type | referenced item kind | memory type; b/x: type of the base *)
(* and index register of a memory ("none", "i", "f", "d", "ld", "undecl"); *)
(* d: displacement (= block size for block-type memory)                     *)
Opnd(kind, k, t, b, x, d) == [kind |-> kind, k |-> k, t |-> t, b |-> b, x |-> x, d |-> d]
RegI == Opnd("r_i", "reg", "i64", "none", "none", 0)
RegF == Opnd("r_f", "reg", "f", "none", "none", 0)
RegD == Opnd("r_d", "reg", "d", "none", "none", 0)
RegLD == Opnd("r_ld", "reg", "ld", "none", "none", 0)
RegUndecl == Opnd("r_undecl", "reg", "undecl", "none", "none", 0)
ImmInt == Opnd("int", "int", "-", "none", "none", 0)
ImmUint == Opnd("uint", "uint", "-", "none", "none", 0)
ImmF == Opnd("float", "float", "-", "none", "none", 0)
ImmD == Opnd("double", "double", "-", "none", "none", 0)
ImmLD == Opnd("ldouble", "ldouble", "-", "none", "none", 0)
RefKinds == {"func", "proto", "import", "export", "forward", "data", "bss"}
Ref(it) == Opnd("ref_" \o it, "ref", it, "none", "none", 0)
Str == Opnd("str", "str", "-", "none", "none", 0)
Lab == Opnd("label", "label", "-", "none", "none", 0)
Mem(t) == Opnd("m_" \o t, "mem", t, "i", "none", IF t \in AllBlkTypes THEN 16 ELSE 0)
MemSz(t, sz) == Opnd("m_" \o t, "mem", t, "i", "none", sz)

IsRM(o) == o.k \in {"reg", "mem"}
(* class of the value an operand denotes.  Reference and string operands   *)
(* denote addresses ("the memory address actually presents the string";    *)
(* `call p_printf, printf, format, r` passes a data item as a p argument).  *)
ValClass(o) ==
  CASE o.k = "reg" -> IF o.t = "undecl" THEN "?" ELSE TClass(o.t)
    [] o.k \in {"int", "uint", "ref", "str"} -> "i"
    [] o.k = "float" -> "f"
    [] o.k = "double" -> "d"
    [] o.k = "ldouble" -> "ld"
    [] o.k = "label" -> "label"
    [] o.k = "mem" -> TClass(o.t)

(* ======================= OpModes (MIR.md "MIR insns") =================== *)
(* position descriptor: c = expected class, out = output operand           *)
(*   i f d ld : a value of that class                                       *)
(*   label    : label operand                                               *)
(*   reg      : a variable (register) of any type      (address insns)      *)
(*   pvar     : a variable whose property is set/tested (property insns)    *)
(*   valist   : address of a va_list, "can be memory with undefined type"   *)
(*   vamem    : "any memory operand", only its type is used (va_arg)        *)
(*   const    : integer constant (property value)                           *)
O(c) == [c |-> c, out |-> TRUE]
I(c) == [c |-> c, out |-> FALSE]
Un(co, ci) == <<O(co), I(ci)>>
Bin(c) == <<O(c), I(c), I(c)>>
Cmp(c) == <<O("i"), I(c), I(c)>>      \* "The result of comparison insn is a 64-bit integer value"
Br1 == <<I("label")>>
Br2 == <<I("label"), I("i")>>
Br3(c) == <<I("label"), I(c), I(c)>>

(* --- MIR move insns *)
(* --- MIR integer insns (2 operands, then 3 operands) *)
IntUnOps == {"ext8", "uext8", "ext16", "uext16", "ext32", "uext32", "neg", "negs"}
IntBinOps == {"add", "sub", "adds", "subs", "mul", "div", "udiv", "muls", "divs", "udivs",
              "mod", "umod", "mods", "umods", "and", "or", "ands", "ors", "xor", "xors",
              "lsh", "lshs", "rsh", "rshs", "ursh", "urshs"}
IntCmpOps == {"eq", "ne", "eqs", "nes", "lt", "le", "ult", "ule", "lts", "les", "ults", "ules",
              "gt", "ge", "ugt", "uge", "gts", "ges", "ugts", "uges"}
(* --- MIR integer overflow insns (the table's second `MIR_UMUL` is MIR_UMULO) *)
OvfOps == {"addo", "subo", "addos", "subos", "mulo", "mulos", "umulo", "umulos"}
(* --- MIR floating point insns *)
FpBin(p) == {p \o "add", p \o "sub", p \o "mul", p \o "div"}
FpCmp(p) == {p \o "eq", p \o "ne", p \o "lt", p \o "le", p \o "gt", p \o "ge"}
(* --- MIR address insns *)
AddrOps == {"addr", "addr8", "addr16", "addr32"}
(* --- MIR branch insns, branch on overflow insns *)
OvfBrOps == {"bo", "bno", "ubo", "ubno"}
(* --- MIR integer / floating point comparison and branch insn (the table's second `MIR_UBLES` is MIR_UBGES) *)
IntCmpBrOps == {"beq", "bne", "beqs", "bnes", "blt", "ble", "ublt", "uble", "blts", "bles", "ublts", "ubles",
                "bgt", "bge", "ubgt", "ubge", "bgts", "bges", "ubgts", "ubges"}
FpCmpBr(p) == {p \o "beq", p \o "bne", p \o "blt", p \o "ble", p \o "bgt", p \o "bge"}
VaOps == {"va_start", "va_arg", "va_block_arg", "va_end"}

FixedOps ==
  {"mov", "fmov", "dmov", "ldmov"} \cup IntUnOps \cup IntBinOps \cup IntCmpOps \cup OvfOps
  \cup {"f2i", "d2i", "ld2i", "f2d", "f2ld", "d2f", "d2ld", "ld2f", "ld2d", "i2f", "i2d", "i2ld", "ui2f", "ui2d", "ui2ld",
        "fneg", "dneg", "ldneg"}
  \cup FpBin("f") \cup FpBin("d") \cup FpBin("ld") \cup FpCmp("f") \cup FpCmp("d") \cup FpCmp("ld")
  \cup AddrOps \cup {"jmp", "bt", "bts", "bf", "bfs", "jmpi"} \cup OvfBrOps \cup {"laddr"}
  \cup IntCmpBrOps \cup FpCmpBr("f") \cup FpCmpBr("d") \cup FpCmpBr("ld")
  \cup {"jret", "alloca", "bstart", "bend"} \cup VaOps \cup {"prset", "prbeq", "prbne"}
CallOps == {"call", "inline", "jcall"}
(* variable number of operands: call-like, ret, switch *)
UserOps == FixedOps \cup CallOps \cup {"ret", "switch"}
(* in mir.h but not documented by MIR.md as instructions a user creates:    *)
(* label (created by MIR_new_label), unspec, use, phi, invalid-insn         *)
InternalOps == {"label", "unspec", "use", "phi", "invalid-insn"}

OpModes == [o \in FixedOps |->
  CASE o = "mov" -> Un("i", "i")                 \* move 64-bit integer values
    [] o = "fmov" -> Un("f", "f")
    [] o = "dmov" -> Un("d", "d")
    [] o = "ldmov" -> Un("ld", "ld")
    [] o \in IntUnOps -> Un("i", "i")
    [] o \in IntBinOps \cup OvfOps -> Bin("i")
    [] o \in IntCmpOps -> Cmp("i")
    [] o = "f2i" -> Un("i", "f")
    [] o = "d2i" -> Un("i", "d")
    [] o = "ld2i" -> Un("i", "ld")
    [] o = "f2d" -> Un("d", "f")
    [] o = "f2ld" -> Un("ld", "f")
    [] o = "d2f" -> Un("f", "d")
    [] o = "d2ld" -> Un("ld", "d")
    [] o = "ld2f" -> Un("f", "ld")
    [] o = "ld2d" -> Un("d", "ld")
    [] o \in {"i2f", "ui2f"} -> Un("f", "i")
    [] o \in {"i2d", "ui2d"} -> Un("d", "i")
    [] o \in {"i2ld", "ui2ld"} -> Un("ld", "i")
    [] o = "fneg" -> Un("f", "f")
    [] o = "dneg" -> Un("d", "d")
    [] o = "ldneg" -> Un("ld", "ld")
    [] o \in FpBin("f") -> Bin("f")
    [] o \in FpBin("d") -> Bin("d")
    [] o \in FpBin("ld") -> Bin("ld")
    [] o \in FpCmp("f") -> Cmp("f")
    [] o \in FpCmp("d") -> Cmp("d")
    [] o \in FpCmp("ld") -> Cmp("ld")
    [] o \in AddrOps -> <<O("i"), I("reg")>>    \* "take address of variable as the 2nd operand and put it into the 1st operand"
    [] o = "jmp" -> Br1
    [] o \in {"bt", "bts", "bf", "bfs"} -> Br2
    [] o = "jmpi" -> <<I("i")>>                  \* "jump to address in 64-bit operand"
    [] o \in OvfBrOps -> Br1
    [] o = "laddr" -> <<O("i"), I("label")>>     \* "put it into 64-bit integer register or memory given as the first operand"
    [] o \in IntCmpBrOps -> Br3("i")
    [] o \in FpCmpBr("f") -> Br3("f")
    [] o \in FpCmpBr("d") -> Br3("d")
    [] o \in FpCmpBr("ld") -> Br3("ld")
    [] o = "jret" -> <<I("i")>>                  \* "the return address as 64-bit integer value"
    [] o = "alloca" -> Un("i", "i")              \* "size is given as the 2nd operand and assign the memory address to the 1st operand"
    [] o = "bstart" -> <<O("i")>>                \* "saves the stack pointer in the operand"
    [] o = "bend" -> <<I("i")>>                  \* "restores stack pointer from the operand"
    [] o = "va_start" -> <<I("valist")>>         \* "one input operand, an address of va_list structure"
    [] o = "va_end" -> <<I("valist")>>
    [] o = "va_arg" -> <<O("i"), I("valist"), I("vamem")>>   \* "returns address of the next argument in the 1st insn operand"
    [] o = "va_block_arg" -> <<I("i"), I("valist"), I("i"), I("i")>>  \* "takes result address, va_list address, integer operand (size), and block type (case) number"
    [] o = "prset" -> <<I("pvar"), I("const")>>
    [] o \in {"prbeq", "prbne"} -> <<I("label"), I("pvar"), I("const")>>]

(* ======================= error codes (mir.h MIR_error_type_t) =========== *)
(* MIR.md does not assign codes to rules ("To see all error types, please  *)
(* look at the definition of error type MIR_error_type_t"): a rule allows   *)
(* the codes whose name states the rule's subject.                          *)
RuleCodes(r) ==
  CASE r = "Arity" -> {"ops_num"}
    [] r = "Class" -> {"op_mode"}
    [] r = "Out" -> {"out_op"}
    [] r = "Undeclared" -> {"undeclared_func_reg"}
    [] r = "MemBase" -> {"reg_type"}
    [] r = "MemType" -> {"wrong_type"}
    [] r = "VaStart" -> {"vararg_func"}
    [] r = "OvfPrev" -> {"invalid_insn"}
    [] r = "RetCount" -> {"ret", "ops_num", "vararg_func"}    \* the code reports it as vararg_func (sic)
    [] r = "RetClass" -> {"ret", "op_mode"}
    [] r = "JretRes" -> {"ret", "func", "vararg_func"}
    [] r = "CallArity" -> {"call_op", "ops_num"}
    [] r = "CallProto" -> {"call_op"}
    [] r = "CallBlk" -> {"wrong_type", "call_op"}
    [] r = "RegType" -> {"reg_type", "wrong_type"}
    [] r = "RegReserved" -> {"reserved_name"}
    [] r = "RegRepeated" -> {"repeated_decl"}
    [] r = "HardRegUnknown" -> {"hard_reg"}
    [] r = "ResType" -> {"wrong_type"}
    [] r = "VarargNoArg" -> {"vararg_func"}

(* ======================= operand rules ================================== *)
NoRes == [v |-> {}, u |-> {}]
Join(a, b) == [v |-> a.v \cup b.v, u |-> a.u \cup b.u]
V(s) == [v |-> s, u |-> {}]
U(s) == [v |-> {}, u |-> s]

(* rules that hold for an operand wherever it stands *)
BaseV(o, allowUndefMem, allowBlkMem) ==
  (IF (o.k = "reg" /\ o.t = "undecl") \/ (o.k = "mem" /\ (o.b = "undecl" \/ o.x = "undecl"))
   THEN {"Undeclared"} ELSE {})        \* registers are what MIR_new_func_reg / MIR_reg return
  \cup (IF o.k = "mem" /\ (o.b \in FpTypes \/ o.x \in FpTypes) THEN {"MemBase"} ELSE {})  \* address = disp + base + index * scale
  \cup (IF o.k = "mem" /\ TClass(o.t) = "blk" /\ (~allowBlkMem \/ o.d < 0) THEN {"MemType"} ELSE {})  \* block types: "can be used only for argument of function"
  \cup (IF o.k = "mem" /\ TClass(o.t) = "undef" /\ ~allowUndefMem THEN {"MemType"} ELSE {})  \* not a data type of "MIR data type"

(* the operand's value class against class c \in {i, f, d, ld}; operands    *)
(* already condemned by BaseV have no value class                           *)
ValueV(c, o) ==
  IF (o.k = "reg" /\ o.t = "undecl") \/ (o.k = "mem" /\ TClass(o.t) \in {"blk", "undef"}) THEN {}
  ELSE IF ValClass(o) # c THEN {"Class"} ELSE {}

(* "Only register or memory operand can be insn output (result) operand" *)
OutV(desc, o) == IF desc.out /\ ~IsRM(o) THEN {"Out"} ELSE {}

PosCheck(desc, o) ==
  CASE desc.c \in {"i", "f", "d", "ld"} ->
         [v |-> BaseV(o, FALSE, FALSE) \cup ValueV(desc.c, o) \cup OutV(desc, o),
          u |-> IF o.k = "ref" /\ o.t = "proto" THEN {"ProtoAsValue"} ELSE {}]
    [] desc.c = "valist" ->     \* "va_list operand can be memory with undefined type"
         [v |-> BaseV(o, TRUE, FALSE) \cup (IF o.k = "mem" /\ o.t = "undef" THEN {} ELSE ValueV("i", o)),
          u |-> IF o.k = "ref" /\ o.t = "proto" THEN {"ProtoAsValue"} ELSE {}]
    [] desc.c = "label" ->
         V(BaseV(o, FALSE, FALSE) \cup (IF o.k # "label" THEN {"Class"} ELSE {}))
    [] desc.c = "reg" ->
         V(BaseV(o, FALSE, FALSE) \cup (IF o.k # "reg" THEN {"Class"} ELSE {}))
    [] desc.c = "pvar" ->       \* "the variable given as the 1st / 2nd operand"; memory: not stated
         [v |-> BaseV(o, FALSE, FALSE) \cup (IF ~IsRM(o) THEN {"Class"} ELSE {}),
          u |-> IF o.k = "mem" THEN {"PropertyOfMemory"} ELSE {}]
    [] desc.c = "vamem" ->      \* "any memory operand ... The memory operand type defines the type of the argument"
         [v |-> (IF o.k # "mem" THEN {"Class"} ELSE {}) \cup (BaseV(o, TRUE, TRUE) \cap {"Undeclared"}),
          u |-> IF o.k = "mem" /\ (BaseV(o, FALSE, FALSE) \ {"Undeclared"}) # {} THEN {"VaArgMemoryForm"} ELSE {}]
    [] desc.c = "const" ->      \* "integer constant"
         [v |-> BaseV(o, FALSE, FALSE) \cup (IF o.k \notin {"int", "uint"} THEN {"Class"} ELSE {}),
          u |-> IF o.k = "uint" THEN {"UnsignedPropertyConst"} ELSE {}]

RECURSIVE JoinAll(_, _)
JoinAll(f, n) == IF n = 0 THEN NoRes ELSE Join(JoinAll(f, n - 1), f[n])

(* ======================= function context =============================== *)
(* fn = [res: sequence of result types, vararg: BOOLEAN]                    *)
(* Every test function declares registers ri:i64 rf:f rd:d rld:ld rb:i64,   *)
(* and the module declares func callee, import imp, export/forward of      *)
(* callee, data dat, bss bs and the prototypes of the row.                  *)
Fn(res, va) == [res |-> res, vararg |-> va]
Fn0 == Fn(<<>>, FALSE)
FnVa == Fn(<<>>, TRUE)

(* prototypes: res = result types, args = [t, sz], va = vararg *)
A(t) == [t |-> t, sz |-> 0]
AB(t, sz) == [t |-> t, sz |-> sz]
Proto(res, args, va) == [res |-> res, args |-> args, va |-> va]
Protos == [n \in {"pA", "pB", "pC", "pD", "pE", "pF", "pG", "pH"} |->
  CASE n = "pA" -> Proto(<<>>, <<>>, FALSE)
    [] n = "pB" -> Proto(<<"i64">>, <<A("i64")>>, FALSE)
    [] n = "pC" -> Proto(<<"f", "d">>, <<A("f"), A("d")>>, FALSE)
    [] n = "pD" -> Proto(<<"ld">>, <<A("ld"), A("i32")>>, FALSE)
    [] n = "pE" -> Proto(<<>>, <<AB("blk0", 16), A("i64")>>, FALSE)
    [] n = "pF" -> Proto(<<"u8">>, <<AB("rblk", 16), A("p")>>, FALSE)
    [] n = "pG" -> Proto(<<"i64">>, <<A("i64")>>, TRUE)
    [] n = "pH" -> Proto(<<>>, <<AB("blk2", 8)>>, TRUE)]

(* ======================= instruction rules ============================== *)
(* insn = [op, ops, proto]  (proto: name in Protos for call-like, else "-") *)
Insn(op, ops) == [op |-> op, ops |-> ops, proto |-> "-"]
CallInsn(op, p, ops) == [op |-> op, ops |-> ops, proto |-> p]

FixedCheck(fn, prev, ins) ==
  LET m == OpModes[ins.op]
      n == Len(ins.ops)
  IN IF n # Len(m) THEN V({"Arity"})     \* "All MIR insns (except call or ret) expects fixed number of operands"
     ELSE Join(JoinAll([p \in 1..n |-> PosCheck(m[p], ins.ops[p])], n),
          [v |-> (IF ins.op = "va_start" /\ ~fn.vararg THEN {"VaStart"} ELSE {})   \* "only for variable number arguments functions"
                 \cup (IF ins.op \in OvfBrOps /\ (prev = "-" \/ prev \notin OvfOps \cup {"mov"}) THEN {"OvfPrev"} ELSE {})  \* "The previous insn must be a MIR integer overflow insn"
                 \cup (IF ins.op = "jret" /\ fn.res # <<>> THEN {"JretRes"} ELSE {}),   \* "for functions without args and return values"
           u |-> (IF ins.op \in {"va_arg", "va_block_arg", "va_end"} /\ ~fn.vararg THEN {"VaOutsideVarargFunc"} ELSE {})
                 \cup (IF ins.op \in {"addr8", "addr16", "addr32"} /\ ins.ops[2].k = "reg" /\ ins.ops[2].t \in FpTypes
                       THEN {"NarrowAddrOfFpVar"} ELSE {})     \* "used to address variables keeping integer values of smaller types"
                 \cup (IF ins.op \in OvfBrOps /\ prev = "mov" THEN {"OvfSeparatedByMove"} ELSE {})
                 \cup (IF ins.op \in {"ubo", "ubno"} /\ prev \in {"mulo", "mulos"} THEN {"OvfSignedness"} ELSE {})
                 \cup (IF ins.op \in {"bo", "bno"} /\ prev \in {"umulo", "umulos"} THEN {"OvfSignedness"} ELSE {})])

(* MIR_RET: "Return insn operands should correspond to return types of the function" *)
RetCheck(fn, ins) ==
  LET n == Len(ins.ops)
  IN IF n # Len(fn.res) THEN V({"RetCount"})
     ELSE LET pc(p) == PosCheck(I(TClass(fn.res[p])), ins.ops[p])
              ren(s) == {IF r = "Class" THEN "RetClass" ELSE r : r \in s}
          IN JoinAll([p \in 1..n |-> [v |-> ren(pc(p).v), u |-> pc(p).u]], n)

(* MIR_SWITCH: first operand integer value, "The rest operands should be N labels, where N > 0" *)
SwitchCheck(ins) ==
  LET n == Len(ins.ops)
  IN IF n < 2 THEN V({"Arity"})
     ELSE JoinAll([p \in 1..n |-> PosCheck(IF p = 1 THEN I("i") ELSE I("label"), ins.ops[p])], n)

(* MIR_CALL / MIR_INLINE / MIR_JCALL *)
CallArgCheck(arg, o) ==
  IF arg.t \in AllBlkTypes
  THEN (* "The corresponding argument in call insn should have analogous form blk:<the same size>(...)" *)
       IF o.k = "mem" /\ o.t = arg.t /\ o.d = arg.sz THEN V(BaseV(o, FALSE, TRUE))
       ELSE V({"CallBlk"} \cup (BaseV(o, FALSE, TRUE) \cap {"Undeclared", "MemBase"}))
  ELSE IF o.k = "mem" /\ o.t \in AllBlkTypes
       THEN V({"CallBlk"} \cup (BaseV(o, FALSE, TRUE) \cap {"Undeclared", "MemBase"}))
       ELSE PosCheck(I(TClass(arg.t)), o)     \* "Their types and number and should be the same as in the prototype"
CallResCheck(t, o) ==
  IF o.k = "mem" /\ o.t \in AllBlkTypes THEN V({"CallBlk"} \cup (BaseV(o, FALSE, TRUE) \cap {"Undeclared", "MemBase"}))
  ELSE PosCheck(O(TClass(t)), o)              \* "the next N operands are output operands"
CallTailCheck(o) ==      \* arguments beyond the fixed ones of a vararg prototype
  [v |-> BaseV(o, FALSE, TRUE),
   u |-> (IF o.k = "label" THEN {"LabelAsVararg"} ELSE {})
         \cup (IF o.k = "mem" /\ o.t = "rblk" THEN {"RblkAsVararg"} ELSE {})
         \cup (IF o.k = "ref" /\ o.t = "proto" THEN {"ProtoAsValue"} ELSE {})]
CallCheck(fn, ins) ==
  LET P == Protos[ins.proto]
      n == Len(ins.ops)
      nr == Len(P.res)
      na == Len(P.args)
      need == 2 + nr + na
      pos(p) == IF p = 1 THEN NoRes
                ELSE IF p = 2 THEN     \* "The second operand is a called function address"
                       Join(PosCheck(I("i"), ins.ops[2]),
                            U(IF (ins.ops[2].k = "ref" /\ ins.ops[2].t \in {"data", "bss"}) \/ ins.ops[2].k = "str"
                              THEN {"CalleeIsNotCode"} ELSE {}))
                ELSE IF p <= 2 + nr THEN CallResCheck(P.res[p - 2], ins.ops[p])
                ELSE IF p <= need THEN CallArgCheck(P.args[p - 2 - nr], ins.ops[p])
                ELSE CallTailCheck(ins.ops[p])
  IN IF n < 2 THEN V({"CallArity"})
     ELSE IF ~(ins.ops[1].k = "ref" /\ ins.ops[1].t = "proto")       \* "The first operand is a prototype reference operand"
          THEN V({"CallProto"} \cup (BaseV(ins.ops[1], FALSE, FALSE) \cap {"Undeclared"}))
     ELSE IF n < need \/ (n # need /\ ~P.va) THEN V({"CallArity"})
     ELSE Join(JoinAll([p \in 1..n |-> pos(p)], n),
               U(IF ins.op = "jcall" /\ need # 2 THEN {"JcallWithSignature"} ELSE {}))   \* "for functions without args and return values"

InsnCheck(fn, prev, ins) ==
  CASE ins.op \in FixedOps -> FixedCheck(fn, prev, ins)
    [] ins.op = "ret" -> RetCheck(fn, ins)
    [] ins.op = "switch" -> SwitchCheck(ins)
    [] ins.op \in CallOps -> CallCheck(fn, ins)
    [] OTHER -> U({"InternalOpcode"})

(* a function body: every insn, plus the ret/jret pairing remark *)
BodyCheck(fn, insns) ==
  LET n == Len(insns)
      ops == {insns[i].op : i \in 1..n}
  IN Join(JoinAll([i \in 1..n |-> InsnCheck(fn, IF i = 1 THEN "-" ELSE insns[i - 1].op, insns[i])], n),
          U(IF {"ret", "jret"} \subseteq ops THEN {"RetJretMix"} ELSE {}))

UNION2(S) == UNION S
Verdict(fn, insns) ==
  LET c == BodyCheck(fn, insns)
  IN IF c.v # {} THEN [exp |-> "err", rules |-> c.v, unspec |-> c.u,
                       codes |-> UNION2({RuleCodes(r) : r \in c.v}), anycode |-> c.u # {}]
     ELSE IF c.u # {} THEN [exp |-> "unspec", rules |-> {}, unspec |-> c.u, codes |-> {}, anycode |-> TRUE]
     ELSE [exp |-> "ok", rules |-> {}, unspec |-> {}, codes |-> {}, anycode |-> FALSE]

WellFormed(fn, insns) == Verdict(fn, insns).exp = "ok"

(* ======================= declarations =================================== *)
(* MIR_new_func_reg: "The only permitted integer type for the variable is   *)
(* MIR_T_I64 (or MIR_T_U64???)"; "A variable should have an unique name in  *)
(* the function"; "Names in form hr<number> and names starting with .lc can  *)
(* not be used" (t<number> may be declared by the user).                    *)
RegNames == {"x", "y", "t1", "t27", "t", "tx", "t1x", "hr1", "hr", "hrx", ".lc1"}
DocReserved == {"hr1", ".lc1"}
(* "hr" without a number: MIR.md is silent *)
UndocReserved == {"hr"}
RegDeclCheck(declared, name, t) ==
  [v |-> (IF t \notin {"i64", "u64", "f", "d", "ld"} THEN {"RegType"} ELSE {})
         \cup (IF name \in DocReserved THEN {"RegReserved"} ELSE {})
         \cup (IF name \in declared THEN {"RegRepeated"} ELSE {}),
   u |-> (IF t = "u64" THEN {"U64Reg"} ELSE {})
         \cup (IF name \in UndocReserved THEN {"UndocumentedReservedName"} ELSE {})]
(* MIR_new_func: "Argument variables can be any type"; result types are data *)
(* types other than block ones ("can be used only for argument of function") *)
FuncDeclCheck(res, args, va) ==
  [v |-> (IF \E i \in 1..Len(res) : res[i] \notin ScalarTypes THEN {"ResType"} ELSE {})
         \cup (IF \E i, j \in 1..Len(args) : i # j /\ args[i].n = args[j].n THEN {"RegRepeated"} ELSE {})
         \cup (IF \E i \in 1..Len(args) : args[i].n \in DocReserved THEN {"RegReserved"} ELSE {}),
   u |-> (IF va /\ args = <<>> THEN {"VarargWithoutFixedArg"} ELSE {})
         \cup (IF \E i \in 1..Len(args) : args[i].t = "undef" THEN {"UndefArgType"} ELSE {})
         \cup (IF \E i \in 1..Len(args) : args[i].n \in UndocReserved THEN {"UndocumentedReservedName"} ELSE {})]
(* MIR_new_global_func_reg ("MIR function": "Global variables are variables which always bound to      *)
(* specific hard register ... Here are the permitted hard register names: x86_64: rax ... st1").        *)
(* A declaration step is [n: name, t: type, hr: hard register name or "-" for MIR_new_func_reg].        *)
(* The name rules are those of every variable ("A variable should have an unique name in the function", *)
(* whatever kind of variable declared it first).  MIR.md does not say which types a hard register can   *)
(* hold: the pairing general register-i64, xmm-f/d, st-ld is taken as what "permitted" promises, every  *)
(* other pairing is unspec; so is tying a second name to a hard register already tied (the code lets    *)
(* both names share one register).                                                                      *)
GprNames == {"rax", "rcx", "rdx", "rbx", "rsp", "rbp", "rsi", "rdi", "r8", "r9", "r10", "r11", "r12", "r13", "r14", "r15"}
XmmNames == {"xmm0", "xmm1", "xmm2", "xmm3", "xmm4", "xmm5", "xmm6", "xmm7", "xmm8", "xmm9", "xmm10", "xmm11", "xmm12",
             "xmm13", "xmm14", "xmm15"}
StNames == {"st0", "st1"}
HardRegNames == GprNames \cup XmmNames \cup StNames        \* the x86_64 list of MIR.md
NotHardRegNames == {"foo", "r16", "xmm16", "st2", "eax", "R12", "hr12", "r0", "sp"}   \* r0, sp: other targets' names
(* MIR.md (corrected): "general registers can keep only MIR_T_I64 variables, xmm registers only MIR_T_F or MIR_T_D ones;  *)
(* rsp, rbp, r10, r11, xmm8, xmm9, st0 and st1 are reserved for the generator and can not be tied to a variable"      *)
ReservedHardRegs == {"rsp", "rbp", "r10", "r11", "xmm8", "xmm9", "st0", "st1"}
NaturalPair(hr, t) == hr \notin ReservedHardRegs /\ ((hr \in GprNames /\ t = "i64") \/ (hr \in XmmNames /\ t \in {"f", "d"}))
DStep(n, t, hr) == [n |-> n, t |-> t, hr |-> hr]
GDeclCheck(prev, st) ==
  LET declared == {"a1"} \cup {prev[i].n : i \in 1..Len(prev)}
  IN [v |-> (IF st.t \notin {"i64", "u64", "f", "d", "ld"} THEN {"RegType"} ELSE {})
            \cup (IF st.n \in DocReserved THEN {"RegReserved"} ELSE {})
            \cup (IF st.n \in declared THEN {"RegRepeated"} ELSE {})
            \cup (IF st.hr # "-" /\ (st.hr \notin HardRegNames \/ st.hr \in ReservedHardRegs) THEN {"HardRegUnknown"} ELSE {}),
      u |-> (IF st.t = "u64" THEN {"U64Reg"} ELSE {})
            \cup (IF st.n \in UndocReserved THEN {"UndocumentedReservedName"} ELSE {})
            \cup (IF st.hr \in HardRegNames \ ReservedHardRegs /\ ~NaturalPair(st.hr, st.t) THEN {"HardRegTypePairing"} ELSE {})
            \cup (IF st.hr # "-" /\ \E i \in 1..Len(prev) : prev[i].hr = st.hr /\ prev[i].n # st.n
                   THEN {"TwoNamesOneHardReg"} ELSE {})]
MkVerdict(c) ==
  IF c.v # {} THEN [exp |-> "err", rules |-> c.v, unspec |-> c.u,
                    codes |-> UNION2({RuleCodes(r) : r \in c.v}), anycode |-> c.u # {}]
  ELSE IF c.u # {} THEN [exp |-> "unspec", rules |-> {}, unspec |-> c.u, codes |-> {}, anycode |-> TRUE]
  ELSE [exp |-> "ok", rules |-> {}, unspec |-> {}, codes |-> {}, anycode |-> FALSE]

(* ======================= the table ====================================== *)
Dflt(desc) ==
  CASE desc.c = "i" -> RegI [] desc.c = "f" -> RegF [] desc.c = "d" -> RegD [] desc.c = "ld" -> RegLD
    [] desc.c = "label" -> Lab [] desc.c = "reg" -> RegI [] desc.c = "pvar" -> RegI
    [] desc.c = "vamem" -> Mem("i64") [] desc.c = "valist" -> RegI [] desc.c = "const" -> ImmInt
DfltOps(m) == [p \in 1..Len(m) |-> Dflt(m[p])]

(* the operand alphabet; memory with a bad base/index takes the type the   *)
(* position expects so that the register is the only thing wrong            *)
PosMemType(desc) == IF desc.c \in FpTypes THEN desc.c ELSE "i64"
BadRegs == {"f", "d", "ld", "undecl"}
Kinds(desc) ==
  {RegI, RegF, RegD, RegLD, RegUndecl, ImmInt, ImmUint, ImmF, ImmD, ImmLD, Str, Lab}
  \cup {Ref(it) : it \in RefKinds}
  \cup {Mem(t) : t \in MemTypes}
  \cup {Opnd("mb_" \o r, "mem", PosMemType(desc), r, "none", 0) : r \in BadRegs}
  \cup {Opnd("mx_" \o r, "mem", PosMemType(desc), "i", r, 0) : r \in BadRegs}
CallKinds(desc) == Kinds(desc) \cup {Opnd("m_blk0_s8", "mem", "blk0", "i", "none", 8),
                                     Opnd("m_blk2_s8", "mem", "blk2", "i", "none", 8),
                                     Opnd("m_blk0_neg", "mem", "blk0", "i", "none", -8),
                                     Opnd("m_rblk_s8", "mem", "rblk", "i", "none", 8)}

(* not executed by the binding: control transfer, calls, va_list users,    *)
(* stack restore, alloca of an amount that is not a small constant         *)
NoExecOps == {"jmp", "bt", "bts", "bf", "bfs", "jmpi", "switch", "jret", "bend", "prbeq", "prbne"}
             \cup OvfBrOps \cup IntCmpBrOps \cup FpCmpBr("f") \cup FpCmpBr("d") \cup FpCmpBr("ld")
             \cup VaOps \cup CallOps \cup InternalOps
Exec(insns) == \A i \in 1..Len(insns) :
                 /\ insns[i].op \notin NoExecOps
                 /\ ~(insns[i].op = "alloca" /\ Len(insns[i].ops) = 2 /\ insns[i].ops[2].k \notin {"reg", "int", "uint"})

RowProtos(insns) == LET ps == {insns[i].proto : i \in 1..Len(insns)} \ {"-"}
                    IN IF ps = {} THEN "pA" ELSE CHOOSE p \in ps : TRUE
(* fkey: stem of the finding key of a row; operand kinds that differ only in a parameter the rules do not look at *)
(* (which item a reference names, which block case / size a block memory has) share a stem                       *)
KClass(o) == IF o.k = "ref" THEN "ref" ELSE IF o.k = "mem" /\ TClass(o.t) = "blk" THEN "m_blk" ELSE o.kind
MkRowF(grp, key, fkey, fn, insns) ==
  LET vd == Verdict(fn, insns)
      pn == RowProtos(insns)
  IN [grp |-> grp, key |-> key, fkey |-> fkey, fn |-> fn, proto |-> Protos[pn], insns |-> insns,
      exp |-> vd.exp, rules |-> vd.rules, unspec |-> vd.unspec, codes |-> vd.codes, anycode |-> vd.anycode,
      exec |-> Exec(insns)]

MkRow(grp, key, fn, insns) == MkRowF(grp, key, key, fn, insns)

ToS(n) == ToString(n)
FnFor(op) == IF op \in VaOps THEN FnVa ELSE Fn0
AddO == Insn("addo", <<RegI, RegI, RegI>>)
PreFor(op) == IF op \in OvfBrOps THEN <<AddO>> ELSE <<>>

(* --- group kind: every fixed-arity opcode x position x operand kind, plus switch *)
SwitchDesc(p) == IF p = 1 THEN I("i") ELSE I("label")
SwitchRows ==
  {MkRowF("kind", "switch:" \o ToS(p) \o ":" \o k.kind, "switch:" \o ToS(p) \o ":" \o KClass(k), Fn0,
          <<Insn("switch", [[q \in 1..3 |-> Dflt(SwitchDesc(q))] EXCEPT ![p] = k])>>)
     : p \in 1..3, k \in Kinds(SwitchDesc(1))}
KindCasesOf(op) == UNION {
  LET m == OpModes[op]
  IN {MkRowF("kind", op \o ":" \o ToS(p) \o ":" \o k.kind, op \o ":" \o ToS(p) \o ":" \o KClass(k), FnFor(op),
             PreFor(op) \o <<Insn(op, [DfltOps(m) EXCEPT ![p] = k])>>) : k \in Kinds(m[p])}
  : p \in 1..Len(OpModes[op])}

(* --- group arity: -1 / +1 / 0 operands for every opcode *)
ArityRowsOf(op) ==
  LET m == OpModes[op]
      d == DfltOps(m)
      n == Len(m)
  IN {MkRow("arity", op \o ":n" \o ToS(k), FnFor(op), PreFor(op) \o <<Insn(op, IF k <= n THEN SubSeq(d, 1, k) ELSE d \o <<RegI>>)>>)
        : k \in {0, n - 1, n, n + 1} \cap Nat}
SwitchArityRows == {MkRow("arity", "switch:n" \o ToS(k), Fn0, <<Insn("switch", [q \in 1..k |-> Dflt(SwitchDesc(q))])>>) : k \in 0..4}

(* --- group ret: result types x ret operand lists *)
RetResLists == {<<>>, <<"i64">>, <<"i8">>, <<"u32">>, <<"p">>, <<"f">>, <<"d">>, <<"ld">>, <<"i64", "f">>, <<"d", "ld">>, <<"i32", "u64">>}
RetKinds == {RegI, RegF, RegD, RegLD, ImmInt, ImmF, ImmD, ImmLD, Mem("i32"), Mem("f"), Lab, RegUndecl, Mem("blk0"), Ref("data")}
RetOpLists == {<<>>} \cup {<<a>> : a \in RetKinds} \cup {<<a, b>> : a \in RetKinds, b \in RetKinds} \cup {<<RegI, RegI, RegI>>, <<RegI, RegF, RegI>>}
SeqKey(s) == IF Len(s) = 0 THEN "-" ELSE IF Len(s) = 1 THEN s[1].kind
             ELSE IF Len(s) = 2 THEN s[1].kind \o "," \o s[2].kind ELSE s[1].kind \o "," \o s[2].kind \o "," \o s[3].kind
TSeqKey(s) == IF Len(s) = 0 THEN "-" ELSE IF Len(s) = 1 THEN s[1] ELSE s[1] \o "," \o s[2]
RetRows == {MkRowF("ret", "ret:" \o TSeqKey(r) \o ":" \o SeqKey(o),
                   IF Len(r) # Len(o) THEN "ret:operand_count" ELSE "ret:" \o TSeqKey(r) \o ":" \o SeqKey(o),
                   Fn(r, FALSE), <<Insn("ret", o)>>) : r \in RetResLists, o \in RetOpLists}

(* --- group call: prototypes x positions x kinds, arity, vararg tail *)
CallDfltArg(a) == IF a.t \in AllBlkTypes THEN MemSz(a.t, a.sz) ELSE Dflt(I(TClass(a.t)))
CallDfltOps(pn) ==
  LET P == Protos[pn]
  IN <<Ref("proto"), Ref("import")>> \o [i \in 1..Len(P.res) |-> Dflt(O(TClass(P.res[i])))]
     \o [j \in 1..Len(P.args) |-> CallDfltArg(P.args[j])]
CallPosDesc(pn, p) ==
  LET P == Protos[pn]
      nr == Len(P.res)
  IN IF p <= 2 \/ p > 2 + nr + Len(P.args) THEN I("i")
     ELSE IF p <= 2 + nr THEN O(TClass(P.res[p - 2]))
     ELSE IF P.args[p - 2 - nr].t \in AllBlkTypes THEN I("i") ELSE I(TClass(P.args[p - 2 - nr].t))
CallSweepPositions(pn) ==
  LET P == Protos[pn]
      need == 2 + Len(P.res) + Len(P.args)
  IN ({1} \cup (IF pn = "pA" THEN {2} ELSE {}) \cup 3..need) \cup (IF P.va THEN {need + 1} ELSE {})
CallRowsOf(op, pn) ==
  LET d == CallDfltOps(pn)
  IN UNION {{MkRowF("call", op \o ":" \o pn \o ":" \o ToS(p) \o ":" \o k.kind, op \o ":" \o pn \o ":" \o ToS(p) \o ":" \o KClass(k), Fn0,
                    <<CallInsn(op, pn, IF p <= Len(d) THEN [d EXCEPT ![p] = k] ELSE d \o <<k>>)>>)
              : k \in CallKinds(CallPosDesc(pn, p))} : p \in CallSweepPositions(pn)}
CallArityRowsOf(op, pn) ==
  LET d == CallDfltOps(pn)
      n == Len(d)
  IN {MkRow("call", op \o ":" \o pn \o ":n" \o ToS(k), Fn0,
            <<CallInsn(op, pn, IF k <= n THEN SubSeq(d, 1, k) ELSE d \o [q \in 1..(k - n) |-> RegI])>>)
        : k \in {0, 1, n - 1, n, n + 1, n + 2} \cap Nat}
CallCases == UNION {CallRowsOf(op, pn) \cup CallArityRowsOf(op, pn) : op \in {"call", "inline"}, pn \in DOMAIN Protos}
             \cup CallRowsOf("jcall", "pA") \cup CallArityRowsOf("jcall", "pA")
             \cup CallArityRowsOf("jcall", "pB") \cup CallArityRowsOf("jcall", "pG")

(* --- group ctx: context rules (overflow branches, va_start, jret, ret/jret, internal opcodes) *)
Mov == Insn("mov", <<RegI, RegI>>)
OvfPrevs == {<<>>, <<Insn("add", <<RegI, RegI, RegI>>)>>, <<Mov>>, <<Insn("jmp", <<Lab>>)>>}
            \cup {<<Insn(o, <<RegI, RegI, RegI>>)>> : o \in OvfOps}
            \cup {<<Insn(o, <<RegI, RegI, RegI>>), Mov>> : o \in OvfOps}
            \cup {<<Insn("addo", <<RegI, RegI, RegI>>), Insn("mov", <<Mem("i64"), RegI>>)>>,
                  <<Insn("addo", <<RegI, RegI, RegI>>), Insn("add", <<RegI, RegI, RegI>>)>>}
PrevKey(s) == IF Len(s) = 0 THEN "-" ELSE IF Len(s) = 1 THEN s[1].op ELSE s[1].op \o "," \o s[2].op \o (IF s[2].ops[1].k = "mem" THEN "m" ELSE "")
(* a store between is judged like a reg move only by its opcode: prev = "mov" *)
CtxCases ==
  {MkRow("ctx", b \o ":after:" \o PrevKey(s), Fn0, s \o <<Insn(b, <<Lab>>)>>) : b \in OvfBrOps, s \in OvfPrevs}
  \cup {MkRow("ctx", op \o ":nonvararg", Fn0, <<Insn(op, DfltOps(OpModes[op]))>>) : op \in VaOps}
  \cup {MkRow("ctx", "jret:res:" \o TSeqKey(r), Fn(r, FALSE), <<Insn("jret", <<RegI>>)>>) : r \in {<<>>, <<"i64">>, <<"f">>}}
  \cup {MkRow("ctx", "ret+jret", Fn0, <<Insn("ret", <<>>), Insn("jret", <<RegI>>)>>),
        MkRow("ctx", "jret+ret", Fn0, <<Insn("jret", <<RegI>>), Insn("ret", <<>>)>>)}
  \cup {MkRow("ctx", o \o ":internal:n" \o ToS(k), Fn0, <<Insn(o, [q \in 1..k |-> RegI])>>) : o \in {"use", "phi", "label", "invalid-insn"}, k \in {0, 1, 3}}

(* --- group decl: register and function declarations *)
DeclTypes == MemTypes
RegDeclCases ==
  {[grp |-> "decl", key |-> "reg:" \o t \o ":" \o n, what |-> "reg", pre |-> <<>>, name |-> n, t |-> t]
     @@ MkVerdict(RegDeclCheck({}, n, t)) : t \in DeclTypes, n \in {"x"}}
  \cup {[grp |-> "decl", key |-> "reg:i64:" \o n, what |-> "reg", pre |-> <<>>, name |-> n, t |-> "i64"]
          @@ MkVerdict(RegDeclCheck({}, n, "i64")) : n \in RegNames}
  \cup {[grp |-> "decl", key |-> "reg:again:" \o t1 \o ":" \o t2, what |-> "reg", pre |-> <<[n |-> "x", t |-> t1]>>, name |-> "x", t |-> t2]
          @@ MkVerdict(RegDeclCheck({"x"}, "x", t2)) : t1 \in {"i64", "f"}, t2 \in {"i64", "f", "d", "ld"}}
  \cup {[grp |-> "decl", key |-> "reg:second:" \o t2, what |-> "reg", pre |-> <<[n |-> "x", t |-> "i64"]>>, name |-> "y", t |-> t2]
          @@ MkVerdict(RegDeclCheck({"x"}, "y", t2)) : t2 \in {"i64", "f", "d", "ld"}}
  \cup {[grp |-> "decl", key |-> "reg:arg:" \o t2, what |-> "reg", pre |-> <<>>, name |-> "a1", t |-> t2]
          @@ MkVerdict(RegDeclCheck({"a1"}, "a1", t2)) : t2 \in {"i64", "f"}}   \* a1 is the test function's argument
Arg(n, t) == [n |-> n, t |-> t, sz |-> IF t \in AllBlkTypes THEN 16 ELSE 0]
FuncDeclCases ==
  {[grp |-> "decl", key |-> "func:arg:" \o t, what |-> "func", res |-> <<>>, args |-> <<Arg("a", t)>>, va |-> FALSE]
     @@ MkVerdict(FuncDeclCheck(<<>>, <<Arg("a", t)>>, FALSE)) : t \in MemTypes}
  \cup {[grp |-> "decl", key |-> "func:res:" \o t, what |-> "func", res |-> <<t>>, args |-> <<>>, va |-> FALSE]
          @@ MkVerdict(FuncDeclCheck(<<t>>, <<>>, FALSE)) : t \in MemTypes}
  \cup {[grp |-> "decl", key |-> "func:args:" \o n1 \o "," \o n2 \o (IF va THEN ",..." ELSE ""), fkey |-> "func:argname:" \o n1, what |-> "func", res |-> <<>>, args |-> <<Arg(n1, "i64"), Arg(n2, "f")>>, va |-> va]
          @@ MkVerdict(FuncDeclCheck(<<>>, <<Arg(n1, "i64"), Arg(n2, "f")>>, va)) : n1 \in {"a", "b", "t1", "hr1"}, n2 \in {"a", "b"}, va \in BOOLEAN}
  \cup {[grp |-> "decl", key |-> "func:vararg:noargs", what |-> "func", res |-> <<>>, args |-> <<>>, va |-> TRUE]
          @@ MkVerdict(FuncDeclCheck(<<>>, <<>>, TRUE))}
(* global variable declarations: every hard register name x register type, names that are not hard       *)
(* registers, and every declaration sequence of length <= 3 over a small alphabet of steps whose earlier  *)
(* steps are not errors (the binding stops at an earlier unspec step the code rejects)                    *)
(* stem of the finding key: what the last step is, who declared its name before, is its hard register tied *)
NameOrigin(prev, st) ==
  IF st.n = "a1" THEN "arg"
  ELSE IF ~\E i \in 1..Len(prev) : prev[i].n = st.n THEN "new"
  ELSE LET i == CHOOSE k \in 1..Len(prev) : prev[k].n = st.n /\ \A j \in 1..k - 1 : prev[j].n # st.n
       IN IF prev[i].hr = "-" THEN "local"
          ELSE IF \E j \in 1..i - 1 : prev[j].hr = prev[i].hr THEN "alias" ELSE "global"
GFkey(key, prev, st) ==
  IF prev = <<>> THEN key
  ELSE "gseq:" \o (IF st.hr = "-" THEN "local" ELSE "global") \o ":name_" \o NameOrigin(prev, st) \o ":hr_"
       \o (IF st.hr = "-" THEN "none" ELSE IF \E i \in 1..Len(prev) : prev[i].hr = st.hr THEN "tied" ELSE "free")
GRow(key, prev, st) ==
  [grp |-> "decl", key |-> key, fkey |-> GFkey(key, prev, st), what |-> "greg", pre |-> prev, step |-> st,
   preexp |-> [i \in 1..Len(prev) |-> MkVerdict(GDeclCheck(SubSeq(prev, 1, i - 1), prev[i])).exp]]
  @@ MkVerdict(GDeclCheck(prev, st))
StepKey(st) == st.n \o (IF st.t = "i64" THEN "" ELSE "." \o st.t) \o (IF st.hr = "-" THEN "" ELSE ":" \o st.hr)
RECURSIVE StepsKey(_)
StepsKey(q) == IF Len(q) = 0 THEN "" ELSE StepKey(q[1]) \o (IF Len(q) = 1 THEN "" ELSE ",") \o StepsKey(Tail(q))
GStepAlphabet == {DStep("x", "i64", "-"), DStep("h", "i64", "-"), DStep("g", "i64", "r12"), DStep("g", "i64", "r13"),
                  DStep("h", "i64", "r12"), DStep("h", "i64", "r13"), DStep("x", "i64", "r12"), DStep("a1", "i64", "r12"),
                  DStep("gf", "f", "xmm0"), DStep("hf", "f", "xmm0"), DStep("hf", "d", "xmm0")}
GSeqs == UNION {[1..k -> GStepAlphabet] : k \in 1..3}
PrefixNotErr(q) == \A i \in 1..Len(q) - 1 : MkVerdict(GDeclCheck(SubSeq(q, 1, i - 1), q[i])).exp # "err"
GRegCases ==
  {GRow("greg:" \o t \o ":" \o hr, <<>>, DStep("g", t, hr)) : t \in {"i64", "f", "d", "ld"}, hr \in HardRegNames \cup NotHardRegNames}
  \cup {GRow("greg:" \o t \o ":r12", <<>>, DStep("g", t, "r12")) : t \in MemTypes \ {"i64", "f", "d", "ld"}}
  \cup {GRow("greg:name:" \o n, <<>>, DStep(n, "i64", "r12")) : n \in RegNames}
  \cup {GRow("gseq:" \o StepsKey(q), SubSeq(q, 1, Len(q) - 1), q[Len(q)]) : q \in {r \in GSeqs : PrefixNotErr(r)}}
(* functions whose declarations tie several global variables to ONE hard register (the names share a     *)
(* register), followed by locals of every type: every declared variable must stay usable with exactly its *)
(* declared type, and a register number nobody declared (the next free one, a far one) must stay          *)
(* undeclared, as register operand, memory base and memory index.  Operands name the variable they mean    *)
(* (kind "v:<name>", memories "m:<base>:<index>"); the rules only see its declared type.                   *)
GG(n) == DStep(n, "i64", "r12")
GFnPrefixes == {<<>>, <<GG("g1")>>, <<GG("g1"), GG("g2")>>, <<GG("g1"), GG("g2"), GG("g3")>>,
                <<DStep("gf", "f", "xmm0"), DStep("hf", "f", "xmm0")>>,
                <<DStep("x", "i64", "-"), GG("g1"), GG("g2")>>,
                <<GG("g1"), DStep("h", "i64", "r13"), GG("g2"), DStep("h2", "i64", "r13")>>}
GFnLocals == {<<DStep("li", "i64", "-"), DStep("lf", "f", "-"), DStep("ldb", "d", "-"), DStep("lld", "ld", "-")>>,
              <<DStep("lld", "ld", "-"), DStep("ldb", "d", "-"), DStep("lf", "f", "-"), DStep("li", "i64", "-")>>}
VCls(t) == IF t = "i64" THEN "i" ELSE t
VReg(v) == Opnd("v:" \o v.n, "reg", v.t, "none", "none", 0)
URegK(u) == Opnd("r_" \o u, "reg", "undecl", "none", "none", 0)           \* u: "next" (last declared + 1) or "far"
VMem(t, bn, bc, xn, xc) == Opnd("m:" \o bn \o ":" \o xn, "mem", t, bc, xc, 0)
ImmOf(t) == CASE t = "i64" -> ImmInt [] t = "f" -> ImmF [] t = "d" -> ImmD [] t = "ld" -> ImmLD
MovOf(t) == CASE t = "i64" -> "mov" [] t = "f" -> "fmov" [] t = "d" -> "dmov" [] t = "ld" -> "ldmov"
AddOf(t) == CASE t = "i64" -> "add" [] t = "f" -> "fadd" [] t = "d" -> "dadd" [] t = "ld" -> "ldadd"
A1Var == [n |-> "a1", t |-> "i64", hr |-> "-"]
GFnRow(decls, what, exec, insns) ==
  [MkRowF("decl", "gfn:" \o StepsKey(decls) \o ":" \o what, "gfn:" \o what, Fn0, insns) EXCEPT !.exec = exec]
  @@ [what |-> "gfn", decls |-> decls,
      preexp |-> [i \in 1..Len(decls) |-> MkVerdict(GDeclCheck(SubSeq(decls, 1, i - 1), decls[i])).exp]]
GFnRowsOf(decls) ==
  LET vars == {A1Var} \cup {decls[i] : i \in 1..Len(decls)}
  IN (* (a) every variable with every move: accepted exactly for its declared type; run when accepted *)
     {GFnRow(decls, MovOf(t) \o ":" \o v.n, TRUE, <<Insn(MovOf(t), <<VReg(v), ImmOf(t)>>)>>) : v \in vars, t \in {"i64", "f", "d", "ld"}}
     \cup {GFnRow(decls, "defuse:" \o v.n, TRUE,
                  <<Insn(MovOf(v.t), <<VReg(v), ImmOf(v.t)>>), Insn(AddOf(v.t), <<VReg(v), VReg(v), VReg(v)>>)>>) : v \in vars}
     \cup {GFnRow(decls, "base:" \o v.n, FALSE, <<Insn("mov", <<VMem("i64", v.n, VCls(v.t), "none", "none"), ImmInt>>)>>) : v \in vars}
     \cup {GFnRow(decls, "index:" \o v.n, FALSE, <<Insn("mov", <<VMem("i64", "a1", "i", v.n, VCls(v.t)), ImmInt>>)>>) : v \in vars}
     (* (b) a register number that was never declared *)
     \cup UNION {{GFnRow(decls, "undecl:dst:" \o u, FALSE, <<Insn("mov", <<URegK(u), ImmInt>>)>>),
                  GFnRow(decls, "undecl:src:" \o u, FALSE, <<Insn("mov", <<VReg(A1Var), URegK(u)>>)>>),
                  GFnRow(decls, "undecl:dsrc:" \o u, FALSE, <<Insn("dmov", <<URegK(u), ImmD>>)>>),
                  GFnRow(decls, "undecl:base:" \o u, FALSE, <<Insn("mov", <<VMem("i64", u, "undecl", "none", "none"), ImmInt>>)>>),
                  GFnRow(decls, "undecl:index:" \o u, FALSE, <<Insn("mov", <<VMem("i64", "a1", "i", u, "undecl"), ImmInt>>)>>),
                  GFnRow(decls, "undecl:dbase:" \o u, FALSE, <<Insn("dmov", <<VMem("d", u, "undecl", "none", "none"), ImmD>>)>>)}
                 : u \in {"next", "far"}}
GFnCases == UNION {GFnRowsOf(p \o l) : p \in GFnPrefixes, l \in GFnLocals}
DeclCases == RegDeclCases \cup FuncDeclCases \cup GRegCases \cup GFnCases

(* ======================= case selection ================================= *)
GRP == IF "GRP" \in DOMAIN IOEnv THEN IOEnv.GRP ELSE "kind"
PART == IF "PART" \in DOMAIN IOEnv THEN atoi(IOEnv.PART) ELSE 9   \* 0..3: one quarter of the opcodes; else all
(* the kind group is split over JVMs by documentation section *)
PartOpsOf(pt) ==
  CASE pt = 0 -> {"mov", "fmov", "dmov", "ldmov"} \cup IntUnOps \cup IntBinOps
    [] pt = 1 -> IntCmpOps \cup OvfOps \cup AddrOps \cup {"jmp", "bt", "bts", "bf", "bfs", "jmpi", "laddr"} \cup OvfBrOps
                   \cup {"jret", "alloca", "bstart", "bend"} \cup VaOps \cup {"prset", "prbeq", "prbne"}
    [] pt = 2 -> {"f2i", "d2i", "ld2i", "f2d", "f2ld", "d2f", "d2ld", "ld2f", "ld2d", "i2f", "i2d", "i2ld", "ui2f", "ui2d", "ui2ld",
                    "fneg", "dneg", "ldneg"} \cup FpBin("f") \cup FpBin("d") \cup FpBin("ld") \cup FpCmp("f") \cup FpCmp("d") \cup FpCmp("ld")
    [] pt = 3 -> IntCmpBrOps \cup FpCmpBr("f") \cup FpCmpBr("d") \cup FpCmpBr("ld")
    [] OTHER -> FixedOps
PartOps == PartOpsOf(PART)
ASSUME UNION {PartOpsOf(pt) : pt \in 0..3} = FixedOps
Cases ==
  CASE GRP = "kind" -> UNION {KindCasesOf(op) : op \in PartOps} \cup (IF PART \in {0, 9} THEN SwitchRows ELSE {})
    [] GRP = "arity" -> UNION {ArityRowsOf(op) : op \in FixedOps} \cup SwitchArityRows
    [] GRP = "ret" -> RetRows
    [] GRP = "call" -> CallCases
    [] GRP = "ctx" -> CtxCases
    [] GRP = "decl" -> DeclCases
    [] GRP = "meta" -> {[grp |-> "meta", documented |-> UserOps, internal |-> InternalOps]}

Init == row \in Cases /\ EmitJ(row)
Next == UNCHANGED row
=============================================================================
