CONSTANTS
  NSlots = 26
  Lean = FALSE
  Vocab = "all"
INIT Init
NEXT Next
ACTION_CONSTRAINT EmitCase
INVARIANTS TypeOK RegsTyped
