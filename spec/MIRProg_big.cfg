CONSTANTS
  NSlots = 26
  Vocab = "all"
INIT Init
NEXT Next
ACTION_CONSTRAINT EmitCase
INVARIANTS TypeOK RegsTyped
