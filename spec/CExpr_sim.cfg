CONSTANTS
  LeafTypes = {"B", "c", "sc", "uc", "s", "us", "i", "u", "l", "ul", "ll", "ull"}
  GridSel = "full"
  UnOps = {"+", "-", "~", "!"}
  CastTypes = {"B", "c", "sc", "uc", "s", "us", "i", "u", "l", "ul", "ll", "ull"}
  BinOps = {"+", "-", "*", "/", "%", "<<", ">>", "&", "|", "^", "<", "<=", ">", ">=", "==", "!=", "&&", "||", ","}
  UseCond = TRUE
  LvTypes = {}
  AsgOps = {}
  IncOps = {}
  UseEnum = TRUE
  UseLit = TRUE
  BfWidths = {}
  MaxDepth = 3
  MaxLeaves = 5
  MaxStack = 3
  MinParen = TRUE
  TwoPhase = TRUE
  Rnd = TRUE
  PtrLv = FALSE
INIT Init
NEXT Next
INVARIANT EmitInv
