CONSTANTS
  Fam = "if"
  NM = 1
  KindSet = {"obj", "f0", "f1", "f2", "fv", "f1v"}
  MaxBody = 3
  MaxInv = 6
  BodyAlpha = {"x", "y", "V", "#x", "#y", "#V", "#", "##", "f", "a", "1"}
  InvAlpha = {"f", "a", "(", ")", ","}
  VarWs = FALSE
  InvHead = TRUE
  InvBal = TRUE
  NameScheme = 1
  MaxLines = 1
  MaxNest = 1
  CondSet = {"0"}
  LineSet = {"endif"}
  MaxD = 1
  AtomSet = {"0", "1", "2", "m1", "m2", "3", "31", "32", "63", "64", "imax", "imaxx", "imin", "imin1", "umax", "umaxx", "p31", "p31m", "mp31", "p32", "p32m", "p63x", "p63u", "0u", "1u", "2u", "63u", "64u", "p31u", "p32u", "imaxu", "defD", "defU", "U", "D", "E"}
  GapSet = {"sp"}
  OpSet = {"u-", "u~", "u!", "u+", "*", "/", "%", "+", "-", "<<", ">>", "<", "<=", ">", ">=", "==", "!=", "&", "^", "|", "&&", "||", "?:"}
INIT Init
NEXT Next
INVARIANT EmitInv
