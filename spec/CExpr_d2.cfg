CONSTANTS
  LeafTypes = {"uc", "i", "ul"}
  GridSel = "g2"
  UnOps = {"-"}
  CastTypes = {"sc", "us"}
  BinOps = {"+", "/", ">>", "<", "&&"}
  UseCond = FALSE
  LvTypes = {}
  AsgOps = {}
  IncOps = {}
  UseEnum = FALSE
  UseLit = FALSE
  BfWidths = {}
  MaxDepth = 2
  MaxLeaves = 3
  MaxStack = 2
  MinParen = TRUE
  TwoPhase = FALSE
  Rnd = FALSE
  PtrLv = FALSE
INIT Init
NEXT Next
INVARIANT EmitInv
