CONSTANTS
  LeafTypes = {"i", "u", "l", "uc"}
  GridSel = "g2"
  UnOps = {"+", "-", "~", "!"}
  CastTypes = {"B", "sc", "us", "u", "l"}
  BinOps = {"+", "/", "<<", ">>", "&", "<", "&&"}
  UseCond = FALSE
  LvTypes = {}
  AsgOps = {"=", "+=", "-=", "*=", "/=", "%=", "<<=", ">>=", "&=", "|=", "^="}
  IncOps = {}
  UseEnum = FALSE
  UseLit = FALSE
  BfWidths = {1, 7, 32}
  MaxDepth = 1
  MaxLeaves = 2
  MaxStack = 2
  MinParen = FALSE
  TwoPhase = FALSE
  Rnd = FALSE
  PtrLv = FALSE
INIT Init
NEXT Next
INVARIANT EmitInv
