------------------------------- MODULE MIRRun -------------------------------
(* Executes GIVEN programs on the abstract machine: the cases (Case records as emitted by MIRProg.tla, possibly edited,   *)
(* or program records of a parametric family written by a harness) are the lines of the file named by the environment      *)
(* variable MIRRUN_CASE; every line is one initial state.  Used (1) to re-decide a program after it was changed: program   *)
(* reduction keeps only candidates the specification still calls defined (tools/reduce2.py, never a verdict), and (2) to     *)
(* give the expected observations of parametric program families (py/c01.py sweep pass): the harness writes the SYNTAX of    *)
(* the programs, every expected value still comes from MIRSem.                                                              *)
EXTENDS MIRProg

CasesIn == ndJsonDeserialize(IOEnv.MIRRUN_CASE)
(* buf0 arrives as cell records (the caller turns byte numbers into [k |-> "b", v |-> n]); tag identifies the case *)
RInit ==
  \E n \in 1..Len(CasesIn) :
    LET C == CasesIn[n] IN
    /\ phase = "run" /\ slot = n /\ cur = NoCur /\ body = <<>> /\ slotpc = <<>> /\ inputs = C.inputs /\ haveA = FALSE
    /\ prog = C.prog
    /\ mem = InitMem([i \in 1..BufSize |-> C.buf0[i]], C.prog.funcs[1].lrefs)
    /\ frames = <<[f |-> 1, id |-> 0, va |-> <<>>, pc |-> 1,
                   regs |-> [r \in 1..Len(C.prog.funcs[1].regty) |-> IF r = 1 THEN PtrV(1, 0) ELSE UndefV], base |-> 7, ovf |-> NoOvf]>>
    /\ log = <<>> /\ status = "run" /\ why = "" /\ result = <<>> /\ steps = 0
RNext == Run \/ Finish
(* the case number travels in `slot` (unused while running) *)
RCase == [n |-> slot, status |-> (IF status = "done" /\ ~Observable THEN "undef" ELSE status),
          why |-> (IF status = "done" /\ ~Observable THEN "address-dependent observation" ELSE why),
          result |-> result, buf |-> [i \in 1..BufSize |-> CellOut(mem[1].cells[i])], log |-> log, steps |-> steps]
REmit == (phase' = "end") => EmitJ(RCase)
=============================================================================
