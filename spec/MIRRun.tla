------------------------------- MODULE MIRRun -------------------------------
(* Executes ONE given program on the abstract machine: the case (a Case record as emitted by MIRProg.tla, possibly edited)  *)
(* is read from the file named by the environment variable MIRRUN_CASE.  Used to re-decide a program after it was changed   *)
(* (program reduction keeps only candidates the specification still calls defined), never to produce verdicts.               *)
EXTENDS MIRProg

CaseIn == ndJsonDeserialize(IOEnv.MIRRUN_CASE)[1]
(* buf0 arrives as cell records (the caller turns byte numbers into [k |-> "b", v |-> n]) *)
RInit ==
  /\ phase = "run" /\ slot = 0 /\ cur = NoCur /\ body = <<>> /\ slotpc = <<>> /\ inputs = CaseIn.inputs /\ haveA = FALSE
  /\ prog = CaseIn.prog
  /\ mem = InitMem([i \in 1..BufSize |-> CaseIn.buf0[i]], CaseIn.prog.funcs[1].lrefs)
  /\ frames = InitFrames
  /\ log = <<>> /\ status = "run" /\ why = "" /\ result = <<>> /\ steps = 0
RNext == Run \/ Finish
=============================================================================
