CONSTANTS
  MaxM = 1
  MaxInner = 2
  MaxDepth = 0
  MaxNested = 0
  Atoms <- AtomsEnumX
  InnerAtoms <- AtomsTiny
  NestKinds <- NestPlain
INIT Init
NEXT Next
ACTION_CONSTRAINT Emit
INVARIANT Sane
