CONSTANTS
  Places = {"loc", "glob", "par", "mem"}
INIT Init
NEXT Next
INVARIANT EmitInv
