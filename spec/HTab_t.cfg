CONSTANTS
  NK = 4
  NV = 2
  HashVals = {0, 5, 2053}
  MinSize = 3
  MaxSize = 16
  Depth = 5
INIT Init
NEXT Next
VIEW View
CONSTRAINT Bound
ACTION_CONSTRAINT Emit
INVARIANTS Refines Reachable Shape
