------------------------------ MODULE C02Table ------------------------------
(* The C02 instruction table: every integer opcode x boundary grid, evaluated *)
(* by TLC with MIRInsn.  Three levels (opcode, a, b) so that TLC's workers   *)
(* share the rows; each complete row is emitted once.                        *)
EXTENDS MIRInsn, TLC, Json, Emit, IOUtils
VARIABLES lvl, op, a, b

K == <<7, 8, 15, 16, 31, 32, 62, 63>>
P2W(k) == Shl64(One64, k)
GridFull ==
  {Zero64, One64, Ones64, FromNat(2), FromNat(3), MinS64, MaxS64,
   <<0, 32768, 65535, 65535>>, <<65535, 32767, 0, 0>>, <<0, 32768, 0, 0>>, <<65535, 65535, 0, 0>>,
   <<21845, 21845, 21845, 21845>>, <<43690, 43690, 43690, 43690>>, FromNat(64), FromNat(65), FromNat(33), FromNat(10),
   Neg64(FromNat(2)), Neg64(FromNat(10)), <<4660, 22136, 39612, 57072>>}
  \cup {P2W(K[i]) : i \in 1..8} \cup {Sub64(P2W(K[i]), One64) : i \in 1..8} \cup {Add64(P2W(K[i]), One64) : i \in 1..8}
GridQuick ==
  {Zero64, One64, Ones64, FromNat(2), MinS64, MaxS64, <<0, 32768, 65535, 65535>>, <<65535, 32767, 0, 0>>,
   <<0, 32768, 0, 0>>, <<65535, 65535, 0, 0>>, FromNat(31), FromNat(63), FromNat(32), Neg64(FromNat(3)),
   <<4660, 22136, 39612, 57072>>, <<255, 0, 0, 0>>, <<128, 0, 0, 0>>, <<32768, 0, 0, 0>>}
Grid == IF IOEnv.C02_GRID = "full" THEN GridFull ELSE GridQuick

(* ---- floating-point grid: exact dyadic values, restricted per format to representable ones *)
FpGridAll ==
  {NaN, Inf(0), Inf(1), FZero(0), FZero(1), Fin(0, 1, 0), Fin(1, 1, 0), Fin(0, 3, -1), Fin(1, 3, -1), Fin(0, 1, 1),
   Fin(0, 1, -1), Fin(0, 3, 0), Fin(1, 7, 0), Fin(0, 3, -2), Fin(0, 100, 0), Fin(0, 1, 24), Fin(0, 16777217, 0),
   Fin(0, 1, 53), Fin(0, 1, 63), Fin(1, 1, 63), Fin(0, 1, 64), Fin(0, 1, 62), Fin(0, 1, 31), Fin(1, 1, 31), Fin(0, 1, 32),
   Fin(0, 1, -149), Fin(0, 1, -126), Fin(0, 1, 127), Fin(0, 1, -1074), Fin(0, 1, 1023), Fin(0, 1, -1022),
   Fin(0, 1, 16383), Fin(0, 1, -16445), Fin(0, 1073741823, 0), Fin(1, 1073741823, -30), Fin(0, 5, -3)}
FpGridQuick ==
  {NaN, Inf(0), Inf(1), FZero(0), FZero(1), Fin(0, 1, 0), Fin(1, 3, -1), Fin(0, 1, 24), Fin(0, 16777217, 0),
   Fin(0, 1, 63), Fin(1, 1, 63), Fin(0, 1, -149), Fin(0, 1, 127), Fin(0, 1, -1074), Fin(0, 1, 1023), Fin(0, 5, -3)}
FpGrid(fmt) == {x \in (IF IOEnv.C02_GRID = "full" THEN FpGridAll ELSE FpGridQuick) : InFmt(x, fmt)}
Fmts == {"f", "d", "ld"}

LdTypes == {"i8", "u8", "i16", "u16", "i32", "u32", "i64"}
LoadSem(ty, w) == CASE ty = "i8" -> Ext8(w) [] ty = "u8" -> UExt8(w) [] ty = "i16" -> Ext16(w) [] ty = "u16" -> UExt16(w)
                    [] ty = "i32" -> Ext32(w) [] ty = "u32" -> UExt32(w) [] ty = "i64" -> w
(* a store writes the low bytes of the value and leaves the other bytes of the slot (old) alone *)
StoreSem(ty, old, w) ==
  CASE ty \in {"i8", "u8"} -> <<(old[1] - (old[1] % 256)) + (w[1] % 256), old[2], old[3], old[4]>>
    [] ty \in {"i16", "u16"} -> <<w[1], old[2], old[3], old[4]>>
    [] ty \in {"i32", "u32"} -> <<w[1], w[2], old[3], old[4]>>
    [] ty = "i64" -> w
OldSlot == <<52719, 43981, 4660, 22136>>

IntConv == {"i2f", "i2d", "i2ld", "ui2f", "ui2d", "ui2ld"}
FpToInt == {"f2i", "d2i", "ld2i"}
FpConvOps == {"f2d", "f2ld", "d2f", "d2ld", "ld2f", "ld2d"}
SrcFmt(o) == IF SubSeq(o, 1, 2) = "ld" THEN "ld" ELSE SubSeq(o, 1, 1)
DstFmt(o) == IF SubSeq(o, Len(o) - 1, Len(o)) = "ld" THEN "ld" ELSE SubSeq(o, Len(o), Len(o))

(* kinds of rows: one TLC level per choice so that workers share the table *)
Kinds == {"u", "uu", "b", "br1", "br2", "ld", "st", "f2", "fc", "f1", "i2fp", "fp2i", "fcv"}
(* "uu": two extension insns in a row (the optimiser combines such chains) *)
ExtOps == {"ext8", "ext16", "ext32", "uext8", "uext16", "uext32"}
UUOps == {[n |-> o1 \o ">" \o o2, o1 |-> o1, o2 |-> o2] : o1 \in ExtOps, o2 \in ExtOps}
VARIABLES kind, fmt, x, y
allvars == <<lvl, kind, op, fmt, a, b, x, y>>
OpsOf(k) ==
  CASE k = "u" -> IntUnary [] k = "uu" -> {q.n : q \in UUOps} [] k = "b" -> IntBinary [] k = "br1" -> {"bt", "bf", "bts", "bfs"} [] k = "br2" -> IntBranch
    [] k = "ld" -> LdTypes [] k = "st" -> LdTypes [] k = "f2" -> FpArith [] k = "fc" -> FpCmp [] k = "f1" -> {"neg"}
    [] k = "i2fp" -> IntConv [] k = "fp2i" -> FpToInt [] k = "fcv" -> FpConvOps
NeedsFmt(k) == k \in {"f2", "fc", "f1"}
IntArgs(k) == CASE k \in {"u", "uu", "br1", "ld", "st", "i2fp"} -> 1 [] k \in {"b", "br2"} -> 2 [] OTHER -> 0
FpArgs(k) == CASE k \in {"f1", "fp2i", "fcv"} -> 1 [] k \in {"f2", "fc"} -> 2 [] OTHER -> 0
InFmtOf == IF kind \in {"fp2i", "fcv"} THEN SrcFmt(op) ELSE fmt

Init == lvl = 0 /\ kind = "" /\ op = "" /\ fmt = "" /\ a = Zero64 /\ b = Zero64 /\ x = NaN /\ y = NaN
Next ==
  \/ lvl = 0 /\ lvl' = 1 /\ kind' \in Kinds /\ UNCHANGED <<op, fmt, a, b, x, y>>
  \/ lvl = 1 /\ lvl' = 2 /\ op' \in OpsOf(kind) /\ fmt' \in (IF NeedsFmt(kind) THEN Fmts ELSE {""}) /\ UNCHANGED <<kind, a, b, x, y>>
  \/ lvl = 2 /\ lvl' = 3 /\ UNCHANGED <<kind, op, fmt, b, y>>
       /\ IF IntArgs(kind) >= 1 THEN a' \in Grid /\ x' = x ELSE a' = a /\ x' \in FpGrid(InFmtOf)
  \/ lvl = 3 /\ lvl' = 4 /\ UNCHANGED <<kind, op, fmt, a, x>>
       /\ IF IntArgs(kind) = 2 THEN b' \in Grid /\ y' = y
          ELSE IF FpArgs(kind) = 2 THEN b' = b /\ y' \in FpGrid(fmt) ELSE b' = b /\ y' = y
Complete == lvl = 4

Row ==
  CASE kind = "u" -> [k |-> kind, op |-> op, a |-> a, r |-> Sem1(op, a)]
    [] kind = "uu" -> LET q == CHOOSE z \in UUOps : z.n = op IN
                      [k |-> kind, op |-> op, o1 |-> q.o1, o2 |-> q.o2, a |-> a, r |-> Sem1(q.o2, Sem1(q.o1, a).v)]
    [] kind = "b" -> IF op \in IntOvf THEN [k |-> kind, op |-> op, a |-> a, b |-> b, r |-> Sem2(op, a, b),
                                           fs |-> OvfFlags(op, a, b).s, fu |-> OvfFlags(op, a, b).u]
                    ELSE [k |-> kind, op |-> op, a |-> a, b |-> b, r |-> Sem2(op, a, b)]
    [] kind = "br1" -> [k |-> kind, op |-> op, a |-> a, t |-> Taken1(op, a)]
    [] kind = "br2" -> [k |-> kind, op |-> op, a |-> a, b |-> b, t |-> Taken2(op, a, b)]
    [] kind = "ld" -> [k |-> kind, op |-> op, a |-> a, r |-> Def(LoadSem(op, a))]
    [] kind = "st" -> [k |-> kind, op |-> op, a |-> a, old |-> OldSlot, r |-> Def(StoreSem(op, OldSlot, a))]
    [] kind = "f2" -> [k |-> kind, op |-> op, fmt |-> fmt, x |-> x, y |-> y, fr |-> FSem2(fmt, op, x, y)]
    [] kind = "fc" -> [k |-> kind, op |-> op, fmt |-> fmt, x |-> x, y |-> y, t |-> FCmp(op, x, y)]
    [] kind = "f1" -> [k |-> kind, op |-> op, fmt |-> fmt, x |-> x, fr |-> FNeg(x)]
    [] kind = "i2fp" -> [k |-> kind, op |-> op, a |-> a,
                         fr |-> IF SubSeq(op, 1, 1) = "u" THEN UI2Fp(a, DstFmt(op)) ELSE I2Fp(a, DstFmt(op))]
    [] kind = "fp2i" -> [k |-> kind, op |-> op, x |-> x, r |-> Fp2I(x)]
    [] kind = "fcv" -> [k |-> kind, op |-> op, x |-> x, fr |-> FpConv(x, DstFmt(op))]
EmitRow == Complete => EmitJ(Row)
=============================================================================
