------------------------------- MODULE CCond -------------------------------
(* The conditional operator with arithmetic operands of mixed integer and   *)
(* floating type (C11 6.5.15p5, 6.3.1.8, 6.3.1.4): the result has the type  *)
(* the usual arithmetic conversions give for the second and third operand   *)
(* (long double > double > float > integer rules) whichever arm is selected, *)
(* and the selected arm's value is converted to it.  The condition is a      *)
(* constant expression (folded by the compiler) or a run-time value; each    *)
(* arm is a constant or a volatile object.  All values are small multiples   *)
(* of 1/2, exactly representable in every type involved, so every            *)
(* conversion is exact; integer operands are non-negative.  Values are       *)
(* carried as twice their value (v2).                                        *)
(* Observed: type (_Generic) and size of the expression, its value as an     *)
(* operand of a call, as the initialiser of an automatic object of the       *)
(* result type and - when everything is constant - of a static object.       *)
EXTENDS Integers, Sequences, FiniteSets, TLC, Json, Emit, IOUtils
VARIABLES lvl, cnd, a, b
vars == <<lvl, cnd, a, b>>
Part == IF "PART" \in DOMAIN IOEnv THEN atoi(IOEnv.PART) ELSE 0
NParts == IF "NPARTS" \in DOMAIN IOEnv THEN atoi(IOEnv.NPARTS) ELSE 1

IntTypes == {"sc", "us", "i", "u", "l", "ul", "ll", "ull"}
FpTypes == {"f", "d", "ld"}
Rank(t) == CASE t = "sc" -> 1 [] t = "us" -> 2 [] t \in {"i", "u"} -> 3 [] t \in {"l", "ul"} -> 4 [] t \in {"ll", "ull"} -> 5
Signed(t) == t \in {"sc", "i", "l", "ll"}
Width(t) == CASE t = "sc" -> 8 [] t = "us" -> 16 [] t \in {"i", "u"} -> 32 [] OTHER -> 64
ToUnsigned(t) == CASE t = "i" -> "u" [] t = "l" -> "ul" [] t = "ll" -> "ull" [] OTHER -> t
Promote(t) == IF Rank(t) < 3 THEN "i" ELSE t
UACi(x, y) ==
  IF x = y THEN x
  ELSE IF Signed(x) = Signed(y) THEN (IF Rank(x) > Rank(y) THEN x ELSE y)
  ELSE LET u == IF Signed(x) THEN y ELSE x  s == IF Signed(x) THEN x ELSE y
       IN IF Rank(u) >= Rank(s) THEN u ELSE IF Width(s) > Width(u) THEN s ELSE ToUnsigned(s)
UAC(x, y) == IF "ld" \in {x, y} THEN "ld" ELSE IF "d" \in {x, y} THEN "d" ELSE IF "f" \in {x, y} THEN "f" ELSE UACi(Promote(x), Promote(y))
SizeOf(t) == CASE t = "f" -> 4 [] t = "d" -> 8 [] t = "ld" -> 16 [] OTHER -> Width(t) \div 8
CName(t) == CASE t = "sc" -> "signed char" [] t = "us" -> "unsigned short" [] t = "i" -> "int" [] t = "u" -> "unsigned" [] t = "l" -> "long"
              [] t = "ul" -> "unsigned long" [] t = "ll" -> "long long" [] t = "ull" -> "unsigned long long" [] t = "f" -> "float"
              [] t = "d" -> "double" [] t = "ld" -> "long double"
(* constants: <<type, twice the value, spelling>> *)
Consts == {<<"sc", 10, "(signed char)5">>, <<"us", 16, "(unsigned short)8">>, <<"i", 6, "3">>, <<"u", 8, "4U">>, <<"l", 14, "7L">>,
           <<"ul", 18, "9UL">>, <<"ll", 10, "5LL">>, <<"ull", 12, "6ULL">>, <<"f", 3, "1.5f">>, <<"d", 5, "2.5">>, <<"ld", -1, "-0.5L">>,
           <<"d", 8, "4.0">>}
(* conditions: <<spelling, truth, constant>> *)
Conds == {<<"1", TRUE, TRUE>>, <<"0", FALSE, TRUE>>, <<"2.5", TRUE, TRUE>>, <<"0.0", FALSE, TRUE>>, <<"sizeof (int) == 4", TRUE, TRUE>>,
          <<"-1 < 0u", FALSE, TRUE>>, <<"q1_@", TRUE, FALSE>>, <<"q0_@", FALSE, FALSE>>}
Arm(c, rt) == [ty |-> c[1], v2 |-> c[2], lit |-> c[3], rt |-> rt]
Arms == {Arm(c, rt) : c \in Consts, rt \in BOOLEAN}
Abs(n) == IF n < 0 THEN -n ELSE n
ValStr(v2) == (IF v2 < 0 THEN "-" ELSE "") \o ToString(Abs(v2) \div 2) \o (IF Abs(v2) % 2 = 1 THEN ".5" ELSE "")
ArmText(x, nm) == IF x.rt THEN nm \o "_@" ELSE x.lit
Row ==
  LET t == UAC(a.ty, b.ty)
      sel == IF cnd[2] THEN a ELSE b
      e == "(" \o cnd[1] \o " ? " \o ArmText(a, "xa") \o " : " \o ArmText(b, "xb") \o ")"
      allconst == cnd[3] /\ ~a.rt /\ ~b.rt
      fp == t \in FpTypes
      show(x) == IF fp THEN <<" %Lg", "(long double)" \o x>> ELSE <<" %llu", "(unsigned long long)" \o x>>
  IN [fam |-> "cond",
      glob |-> <<"static volatile int q1_@ = 1, q0_@ = 0;">>
               \o (IF a.rt THEN <<"static volatile " \o CName(a.ty) \o " xa_@ = " \o a.lit \o ";">> ELSE <<>>)
               \o (IF b.rt THEN <<"static volatile " \o CName(b.ty) \o " xb_@ = " \o b.lit \o ";">> ELSE <<>>)
               \o (IF allconst THEN <<"static " \o CName(t) \o " st_@ = " \o e \o ";">> ELSE <<>>),
      body |-> <<CName(t) \o " loc = " \o e \o ";">>,
      pr |-> <<<<" %s", "TN(" \o e \o ")">>, <<" %d", "(int)sizeof " \o e>>, show(e), show("loc")>> \o (IF allconst THEN <<show("st_@")>> ELSE <<>>),
      exp |-> <<t, ToString(SizeOf(t)), ValStr(sel.v2), ValStr(sel.v2)>> \o (IF allconst THEN <<ValStr(sel.v2)>> ELSE <<>>),
      desc |-> e \o (IF a.rt THEN "  with " \o CName(a.ty) \o " xa = " \o a.lit ELSE "") \o (IF b.rt THEN "  with " \o CName(b.ty) \o " xb = " \o b.lit ELSE ""),
      sig |-> (IF cnd[3] THEN "const_cond" ELSE "rt_cond") \o ":" \o (IF sel.rt THEN "rt" ELSE "const") \o "_" \o sel.ty \o "_selected:other_"
              \o (IF cnd[2] THEN b.ty ELSE a.ty), d |-> 1]
Init == lvl = 0 /\ cnd = <<"", FALSE, FALSE>> /\ a = Arm(<<"i", 0, "">>, FALSE) /\ b = Arm(<<"i", 0, "">>, FALSE)
Next == lvl = 0 /\ lvl' = 1 /\ cnd' \in Conds /\ a' \in Arms /\ b' \in Arms /\ (((a'.v2 + b'.v2) % NParts) = Part \/ NParts = 1)
EmitInv == lvl = 1 => EmitJ(Row)
=============================================================================
