CONSTANTS
  BufLen = 8
  StartLen = 4
  MaxSymLen = 5
  Fixed = TRUE
  Mode = "enum"
  MaxCost = 1000000000
  NE = 0
  TagSymF = {0, 1, 2, 4, 7}
  TagRefF = {0, 1, 2, 5, 31}
  DataBytes = {97, 98}
  UintLead = {128, 129, 130, 132, 133, 136, 137, 64, 16, 15, 3}
  UintCont = {0, 4, 253, 255}
  ElemSet <- ElemsTiny
  SubstVals = {0}
INIT Init
NEXT Next
VIEW ViewD
INVARIANTS MemorySafe NoAssert
