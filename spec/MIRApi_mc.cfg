CONSTANTS
  Names = {"a", "b"}
  RegNames = {"x"}
  MaxMods = 2
  Depth = 5
INIT Init
NEXT Next
VIEW View
CONSTRAINT Bound
ACTION_CONSTRAINT Emit
INVARIANTS PrefixAccepted
