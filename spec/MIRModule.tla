----------------------------- MODULE MIRModule -----------------------------
(* Abstract syntax of MIR modules (MIR.md "MIR module", "MIR function",    *)
(* "MIR insn operands", "MIR insns") and a nondeterministic CONSTRUCTOR of  *)
(* modules that covers the whole vocabulary of items, instructions and      *)
(* operand forms.                                                           *)
(*                                                                          *)
(* Abstract module  = [name, items]; a context holds a sequence of modules. *)
(* item    = import/export/forward [k, name]                                *)
(*         | proto [k, name, va, res, args]      args: [t, name, size]      *)
(*         | func  [k, name, va, res, args, locals, globals, insns]         *)
(*         | bss [k, name, len] | data [k, name, t, via, els]               *)
(*         | ref [k, name, ref, disp] | lref [k, name, l1, l2, disp]        *)
(*         | expr [k, name, func]          (name = "" : anonymous item)     *)
(* insn    = [op |-> "label", n] | [op, ops]                                *)
(* operand = reg(name) | int(w) | uint(w) | f(w) | d(w) | ld(w) | ref(name) *)
(*         | str(b) | lab(n) | mem(t, disp, base, index, scale, alias,      *)
(*           nonalias)                                                      *)
(* 64-bit quantities are tuples of 16-bit limbs, least significant first    *)
(* (f: 2 limbs, d: 4, ld: 5 = the 80 value bits of the x87 format); labels  *)
(* are ordinals of the label insns of their function; lref labels are       *)
(* <<function name, ordinal>>.                                              *)
(*                                                                          *)
(* The constructor fills one hole per step (as MIRProg.tla does), so TLC's  *)
(* simulator samples the vocabulary uniformly hole by hole and breadth-     *)
(* first search enumerates tiny bounds exhaustively.  Everything it builds  *)
(* is accepted by the API (operand classes follow MIR.md's instruction      *)
(* tables; names are unique; references point at declared items).           *)
EXTENDS Integers, Sequences, FiniteSets, TLC, Json, Emit, IOUtils, MIRSyntax

CONSTANTS MaxMods,      \* modules per context
          MaxItems,     \* free items per module
          MaxInsns,     \* free instructions per function (labels and the final return come on top)
          Grid,         \* "tiny" | "full" : size of the value grids and of the signature / register lists
          Preamble,     \* TRUE: every module starts with an import, a vararg prototype and a data item (targets for references)
          Header,       \* "free" | "fixed" | "none": "fixed" = one canonical function header (exhaustive enumeration of single
                        \* instructions), "none" = no function items besides the preamble's (exhaustive enumeration of items)
          OneFree,      \* TRUE: one operand position of an instruction ranges over every form, the others take a default
          MinItems,     \* sampling aid: a module is not closed before it has this many items (0 = any size)
          MinInsns,     \* sampling aid: a function is not closed before it has this many free instructions
          NonFinite     \* TRUE: infinities, NaN payloads, unnormal long doubles among FP immediates (C11)

(* ------------------------------------------------------------------ values *)
(* just below / above each byte-length boundary of the binary format, both signs *)
I64Full == {Zero, W(1), Ones, W(2), W(127), W(128), W(255), W(256), W(32767), W(32768), W(65535), W(65536),
            <<65535, 255, 0, 0>>, <<0, 256, 0, 0>>, <<65535, 32767, 0, 0>>, <<0, 32768, 0, 0>>, <<65535, 65535, 0, 0>>, <<0, 0, 1, 0>>,
            <<65535, 65535, 255, 0>>, <<0, 0, 256, 0>>, <<65535, 65535, 65535, 0>>, <<0, 0, 0, 1>>,
            <<65535, 65535, 65535, 255>>, <<0, 0, 0, 256>>, <<65535, 65535, 65535, 32767>>, <<0, 0, 0, 32768>>,
            <<65534, 65535, 65535, 65535>>, <<65408, 65535, 65535, 65535>>, <<52719, 35243, 17767, 291>>}
I64Small == {Ones, W(128)}
I64G == IF Grid = "full" THEN I64Full ELSE I64Small
DispG == IF Grid = "full" THEN {Zero, W(1), W(8), Ones, <<65520, 65535, 65535, 65535>>, W(128), W(65536), <<0, 0, 0, 32768>>, <<65535, 65535, 65535, 32767>>}
         ELSE {Zero, Ones}
(* binary32: +0 -0 1.0 -1.5 1/3 min denormal, min normal, max finite *)
FFinite == {<<0, 0>>, <<0, 32768>>, <<0, 16256>>, <<0, 49088>>, <<43691, 16042>>, <<1, 0>>, <<0, 128>>, <<65535, 32639>>}
FNonFin == {<<0, 32640>>, <<0, 65408>>, <<0, 32704>>, <<1, 32640>>, <<4660, 65477>>}     \* +inf -inf qNaN sNaN(payload 1) -NaN(payload)
FG == IF Grid = "full" THEN FFinite \cup (IF NonFinite THEN FNonFin ELSE {}) ELSE {<<0, 49088>>} \cup (IF NonFinite THEN {<<1, 32640>>} ELSE {})
DFinite == {Zero, <<0, 0, 0, 32768>>, <<0, 0, 0, 16368>>, <<0, 0, 0, 49144>>, <<21845, 21845, 21845, 16341>>, <<1, 0, 0, 0>>, <<0, 0, 0, 16>>,
            <<65535, 65535, 65535, 32751>>}
DNonFin == {<<0, 0, 0, 32752>>, <<0, 0, 0, 65520>>, <<0, 0, 0, 32760>>, <<1, 0, 0, 32752>>, <<4660, 22136, 39612, 65533>>}
DG == IF Grid = "full" THEN DFinite \cup (IF NonFinite THEN DNonFin ELSE {}) ELSE {<<0, 0, 0, 49144>>} \cup (IF NonFinite THEN {<<1, 0, 0, 32752>>} ELSE {})
(* x87 80-bit: +0 -0 1.0 -1.5 1/3 min denormal, min normal, max finite *)
LFinite == {<<0, 0, 0, 0, 0>>, <<0, 0, 0, 0, 32768>>, <<0, 0, 0, 32768, 16383>>, <<0, 0, 0, 49152, 49151>>, <<43691, 43690, 43690, 43690, 16381>>,
            <<1, 0, 0, 0, 0>>, <<0, 0, 0, 32768, 1>>, <<65535, 65535, 65535, 65535, 32766>>}
LNonFin == {<<0, 0, 0, 32768, 32767>>, <<0, 0, 0, 32768, 65535>>, <<0, 0, 0, 49152, 32767>>, <<1, 0, 0, 32768, 32767>>, <<4660, 22136, 39612, 57005, 65535>>,
            <<0, 0, 0, 0, 16383>>}                                                       \* the last one: unnormal (integer bit clear)
LG == IF Grid = "full" THEN LFinite \cup (IF NonFinite THEN LNonFin ELSE {}) ELSE {<<0, 0, 0, 49152, 49151>>} \cup (IF NonFinite THEN {<<1, 0, 0, 32768, 32767>>} ELSE {})
(* strings: empty, NUL only, plain, no terminating NUL, embedded NULs, every escape, bytes >= 128, all 256 byte values *)
AllBytes == [i \in 1..256 |-> i - 1] \o <<0>>
(* an escape followed by a character that could continue it: NUL, byte 1, byte 8 (backspace), byte 255 followed by an  *)
(* octal digit / hexadecimal digit ("v" NUL "7" LF must not read back as v BEL LF), a backslash followed by n, x, 0     *)
StrFull == {<<>>, <<0>>, <<65, 0>>, <<65, 66>>, <<65, 0, 66, 0>>, <<0, 0>>, <<7, 8, 9, 10, 11, 12, 13, 27, 34, 39, 92, 63, 0>>, <<128, 255, 127, 0>>,
            <<92, 48, 49, 50, 0>>, <<1, 49, 0>>, AllBytes,
            <<118, 0, 55, 10, 0>>, <<0, 48, 0, 49, 50, 0>>, <<1, 50, 2, 55, 55, 0>>, <<8, 56, 255, 51, 27, 102, 0>>, <<92, 110, 92, 120, 52, 49, 92, 0>>, <<0, 55>>}
StrG == IF Grid = "full" THEN StrFull ELSE {<<34, 0, 55, 255, 49, 0>>}
SizeG == IF Grid = "full" THEN {Zero, W(1), W(8), W(24), W(127), W(128), W(65536), <<65535, 65535, 0, 0>>} ELSE {W(128)}
(* bss lengths stay below 2^63: nothing that large can be allocated, and the text reader takes the literal as signed *)
LenG == IF Grid = "full" THEN {Zero, W(1), W(127), W(128), W(255), W(256), W(65536), <<0, 0, 1, 0>>, <<65535, 65535, 65535, 32767>>} ELSE {Zero, W(300)}

(* data elements: limb tuples of the element's width *)
Bits(t) == CASE t \in {"i8", "u8"} -> 8 [] t \in {"i16", "u16"} -> 16 [] t \in {"i32", "u32", "f"} -> 32 [] t = "ld" -> 80 [] OTHER -> 64
ElG(t) ==
  CASE t \in {"i8", "u8"} -> {<<0>>, <<1>>, <<127>>, <<128>>, <<255>>}
    [] t \in {"i16", "u16"} -> {<<0>>, <<128>>, <<32767>>, <<32768>>, <<65535>>}
    [] t \in {"i32", "u32"} -> {<<0, 0>>, <<65535, 32767>>, <<0, 32768>>, <<65535, 65535>>, <<0, 1>>}
    [] t = "f" -> FG [] t = "d" -> DG [] t = "ld" -> LG
    [] OTHER -> (IF Grid = "full" THEN {Zero, W(127), W(128), Ones, <<0, 0, 0, 32768>>, <<65535, 65535, 65535, 32767>>, <<0, 0, 1, 0>>} ELSE {W(5), Ones})

(* ------------------------------------------------------------------ names *)
(* item names, register names and alias names come from disjoint pools: in MIR text an operand name is a register *)
(* of the function if one has that name, otherwise an item                                                       *)
ItemPool == <<"a", "b1", "_c", "d.e", "f$", "g_2", "%h", "Long_item_name_0123456789_abcdefghijklmnopqrstuvwxyz", "k9", "l.l", "m_", "n0", "o", "pq", "r_", "s5">>
ArgPool == <<"p1", "p2", "p3", "p4">>
LocPool == <<"x", "y2", "_z", "t1", "w.v", "u$">>
GlobPool == <<"G1", "G2">>
AliasG == IF Grid = "full" THEN {"", "al", "b.c"} ELSE {"", "al"}
ModNames == <<"m", "mod_2", "m3", "m4">>
HardReg(t) == CASE t = "i64" -> {"rbx", "r12"} [] t \in {"f", "d"} -> {"xmm5", "xmm14"} [] OTHER -> {}

(* groups: the simulator first picks a group, then an opcode of the group *)
Groups == {"imov", "intun", "intbin", "intcmp", "ovf", "fpmov", "conv", "fpar", "fpcmp", "addr", "jump", "br3", "fbr3", "laddr", "call",
           "switch", "ret", "alloca", "block", "va", "prop", "label"}
GroupOps(g) ==
  CASE g = "imov" -> {"mov"} [] g = "intun" -> IntUn \ {"mov"} [] g = "intbin" -> IntBin [] g = "intcmp" -> IntCmp [] g = "ovf" -> Ovf
    [] g = "fpmov" -> {"fmov", "dmov", "ldmov", "fneg", "dneg", "ldneg"} [] g = "conv" -> Conv
    [] g = "fpar" -> FpAr("f") \cup FpAr("d") \cup FpAr("ld") [] g = "fpcmp" -> FpCm("f") \cup FpCm("d") \cup FpCm("ld")
    [] g = "addr" -> {"addr", "addr8", "addr16", "addr32"}
    [] g = "jump" -> {"jmp", "bt", "bts", "bf", "bfs", "jmpi"} [] g = "br3" -> IntBr3 [] g = "fbr3" -> FpBr("f") \cup FpBr("d") \cup FpBr("ld")
    [] g = "laddr" -> {"laddr"} [] g = "call" -> {"call", "inline", "jcall"} [] g = "switch" -> {"switch"} [] g = "ret" -> {"ret"}
    [] g = "alloca" -> {"alloca"} [] g = "block" -> {"bstart", "bend"} [] g = "va" -> {"va_start", "va_arg", "va_block_arg", "va_end"}
    [] g = "prop" -> {"prset", "prbeq", "prbne"} [] g = "label" -> {"label"}

MaxRes == IF Grid = "full" THEN 2 ELSE 1
MaxArgs == IF Grid = "full" THEN 3 ELSE 1
MaxLoc == IF Grid = "full" THEN 3 ELSE 1
MaxEl == IF Grid = "full" THEN 3 ELSE 2
TinyTypes == {"i8", "u64", "p", "f", "ld", "blk1", "rblk", "i64"}
TSel(S) == IF Grid = "full" THEN S ELSE S \cap TinyTypes
(* the canonical header of Header = "fixed":  i64 f (i64 p1, d p2) with locals i64 x, f y2, ld _z and one label *)
Fixed == Header = "fixed"
PreambleItems ==
  <<[k |-> "import", name |-> ItemPool[1]],
    [k |-> "proto", name |-> ItemPool[2], va |-> TRUE, res |-> <<"i64">>, args |-> <<[t |-> "i64", name |-> ArgPool[1], size |-> Zero], [t |-> "blk1", name |-> ArgPool[2], size |-> W(16)]>>],
    [k |-> "data", name |-> ItemPool[3], t |-> "u8", via |-> "data", els |-> <<<<65>>, <<0>>>>],
    [k |-> "func", name |-> ItemPool[4], va |-> FALSE, res |-> <<"i64">>, args |-> <<>>, locals |-> <<>>, globals |-> <<>>,
     insns |-> <<[op |-> "label", n |-> 1], [op |-> "ret", ops |-> <<[k |-> "int", w |-> W(3)]>>]>>]>>
Items0 == IF Preamble THEN PreambleItems ELSE <<>>

(* ------------------------------------------------------------------ constructor state *)
VARIABLES mods,     \* finished modules
          items,    \* finished items of the module under construction
          ci,       \* item builder      [kind, vals]
          fn,       \* function under construction (header, insns so far) or NoFn
          cn,       \* instruction builder [op, sig, ops, proto, grp]
          co,       \* operand builder   [form, vals]
          owed,     \* <<[name, nl]>> : an lref already refers to labels of a function still to be defined
          phase     \* "mod" | "done"
cvars == <<mods, items, ci, fn, cn, co, owed, phase>>

NoCur == [kind |-> "", vals |-> <<>>]
NoFn == [name |-> ""]
NoInsn == [op |-> "", grp |-> "", sig |-> <<>>, ops |-> <<>>, proto |-> "", fp |-> 0, trail |-> FALSE]
NoOp == [form |-> "", vals |-> <<>>]

ItemName(it) == it.name
DefKinds == {"func", "proto", "import", "data", "bss", "ref", "lref", "expr"}
Named(k) == {items[i].name : i \in {j \in 1..Len(items) : items[j].k \in k}} \ {""}
AllNames == Named(DefKinds \cup {"export", "forward"}) \cup {owed[i].name : i \in 1..Len(owed)}
Fresh == ItemPool[CHOOSE i \in 1..Len(ItemPool) : ItemPool[i] \notin AllNames /\ \A j \in 1..(i - 1) : ItemPool[j] \in AllNames]
(* temporary item names: ".lc<N>" is what _MIR_get_temp_item_name hands out (c2m uses them for string literals, the     *)
(* simplifier for string / floating point operands when a module is loaded).  A module carries the counter tmp = the   *)
(* largest N in use; every reader has to restore it, or the next load creates an item that exists already.             *)
TempPool == <<".lc1", ".lc2", ".lc3", ".lc4", ".lc5", ".lc6">>
NTemp(its) == Cardinality({k \in 1..Len(TempPool) : \E i \in 1..Len(its) : its[i].name = TempPool[k]})
(* "entropy": a data item of N pseudo-random elements: its binary form has no repeated 4-byte sequence to speak of, so the  *)
(* compression layer has to carry it as literal runs of the maximal length (2047 bytes) and around it                      *)
EntTypes == IF Grid = "full" THEN {"u8", "i64", "u64", "d"} ELSE {"i64"}
EntropyN(t) == IF Grid # "full" THEN {260} ELSE IF t = "u8" THEN {2030, 2040, 2046, 2047, 2048, 2049, 2056, 4100} ELSE {230, 256, 300}
ESq(i, p) == ((i % p) * (i % p)) % p
R16(j) == ((5 * ESq(j, 46337)) + (3 * ESq(j, 46327)) + ESq(j, 40009)) % 65536
EntEl(t, n, i) ==
  LET j == (4 * i) + (7 * n) IN
  CASE t = "u8" -> <<R16(j) % 128>>                                                   \* one byte per token
    [] t = "d" -> <<R16(j), R16(j + 1), R16(j + 2), 16384 + (R16(j + 3) % 16000)>>      \* finite doubles
    [] OTHER -> <<R16(j), R16(j + 1), R16(j + 2), 32768 + (R16(j + 3) % 32768)>>        \* high bit set: 8-byte tokens
HaveFresh == \E i \in 1..Len(ItemPool) : ItemPool[i] \notin AllNames
Declared == Named({"export", "forward"}) \ Named(DefKinds)          \* declared, not defined yet
Funcs == {items[i] : i \in {j \in 1..Len(items) : items[j].k = "func"}}
NLabels(f) == Cardinality({i \in 1..Len(f.insns) : f.insns[i].op = "label"})
ExprFuncs == {f.name : f \in {g \in Funcs : ~g.va /\ Len(g.args) = 0 /\ Len(g.res) = 1}}
LabFuncs == {f.name : f \in {g \in Funcs : NLabels(g) >= 1}}
FuncByName(n) == CHOOSE f \in Funcs : f.name = n
RefTargets == Named(DefKinds \ {"proto"}) \cup Named({"forward", "export"})     \* what `ref` data and REF operands may name
Protos == {items[i] : i \in {j \in 1..Len(items) : items[j].k = "proto"}}
ProtoByName(n) == CHOOSE p \in Protos : p.name = n
Callees == Named({"func", "import", "forward", "export"}) \cup (IF fn.name # "" THEN {fn.name} ELSE {})

(* registers of the function under construction, by value class *)
RegT(t) == IF t \in FpTypes THEN t ELSE "i"
FnRegs(c) ==
  {fn.args[i].name : i \in {j \in 1..Len(fn.args) : RegT(fn.args[j].t) = c}}
  \cup {fn.locals[i].name : i \in {j \in 1..Len(fn.locals) : RegT(fn.locals[j].t) = c}}
  \cup {fn.globals[i].name : i \in {j \in 1..Len(fn.globals) : RegT(fn.globals[j].t) = c}}
AnyRegs == FnRegs("i") \cup FnRegs("f") \cup FnRegs("d") \cup FnRegs("ld")

(* ------------------------------------------------------------------ item builder *)
(* next hole of an item given the values filled so far; "" = complete *)
IsBlk(t) == t \in BlkTypes \cup {"rblk"}
RECURSIVE SkipArgs(_, _, _)
(* position after k complete argument descriptions starting at position p (an argument takes 1 value, 2 if a block type) *)
SkipArgs(v, p, k) == IF k = 0 THEN p ELSE SkipArgs(v, p + (IF IsBlk(v[p]) THEN 2 ELSE 1), k - 1)
RECURSIVE ArgsAt(_, _, _, _)
ArgsAt(v, p, k, n) == IF k = 0 THEN <<>>
                      ELSE <<[t |-> v[p], name |-> ArgPool[n], size |-> IF IsBlk(v[p]) THEN v[p + 1] ELSE Zero]>>
                           \o ArgsAt(v, p + (IF IsBlk(v[p]) THEN 2 ELSE 1), k - 1, n + 1)
RECURSIVE ArgHole(_, _, _)
(* the hole at position Len(v)+1 when k arguments remain from position p on; "" when the signature is complete *)
ArgHole(v, p, k) ==
  IF p > Len(v) THEN (IF k = 0 THEN "va" ELSE "atype")
  ELSE IF k = 0 THEN ""
  ELSE IF IsBlk(v[p]) THEN (IF p + 1 > Len(v) THEN "bsize" ELSE ArgHole(v, p + 2, k - 1))
  ELSE ArgHole(v, p + 1, k - 1)

(* signature values shared by proto and func: [1] name, [2] nres, res types, nargs, {type [size]}, va *)
SigHole(v) ==
  LET n == Len(v) IN
  IF n = 0 THEN "name" ELSE IF n = 1 THEN "nres"
  ELSE IF n < 2 + v[2] THEN "rtype"
  ELSE IF n = 2 + v[2] THEN "nargs"
  ELSE ArgHole(v, 4 + v[2], v[3 + v[2]])
SigEnd(v) == SkipArgs(v, 4 + v[2], v[3 + v[2]])            \* index of the va hole
SigRes(v) == [i \in 1..v[2] |-> v[2 + i]]
SigArgs(v) == ArgsAt(v, 4 + v[2], v[3 + v[2]], 1)

ItemHole(kind, v) ==
  LET n == Len(v) IN
  CASE kind \in {"import", "export", "forward"} -> IF n = 0 THEN "xname" ELSE ""
    [] kind = "proto" -> SigHole(v)
    [] kind = "bss" -> IF n = 0 THEN "named" ELSE IF n = 1 THEN "len" ELSE ""
    [] kind = "data" -> IF n = 0 THEN "named" ELSE IF n = 1 THEN "dtype" ELSE IF n = 2 THEN "via" ELSE IF n = 3 THEN "nel"
                        ELSE IF n < 4 + v[4] /\ v[3] # "entropy" THEN "el" ELSE ""
    [] kind = "ref" -> IF n = 0 THEN "named" ELSE IF n = 1 THEN "target" ELSE IF n = 2 THEN "sdisp" ELSE ""
    [] kind = "lref" -> IF n = 0 THEN "named" ELSE IF n = 1 THEN "lfunc" ELSE IF n = 2 THEN "l1" ELSE IF n = 3 THEN "l2" ELSE IF n = 4 THEN "sdisp" ELSE ""
    [] kind = "expr" -> IF n = 0 THEN "named" ELSE IF n = 1 THEN "efunc" ELSE ""
    [] kind = "func" -> IF SigHole(v) # "" THEN SigHole(v)
                        ELSE LET e == SigEnd(v) IN
                             IF n = e THEN "nloc" ELSE IF n < e + 1 + v[e + 1] THEN "ltype"
                             ELSE IF n = e + 1 + v[e + 1] THEN "gtype" ELSE IF n = e + 2 + v[e + 1] THEN "nlab" ELSE IF n = e + 3 + v[e + 1] THEN "style" ELSE ""

FutureFunc == "F_later"
LrefFuncs == LabFuncs \cup (IF Len(owed) = 0 /\ FutureFunc \notin AllNames THEN {FutureFunc} ELSE {owed[i].name : i \in 1..Len(owed)})
LrefNL(f) == IF f \in LabFuncs THEN NLabels(FuncByName(f)) ELSE 2
ItemDom(kind, h, v) ==
  CASE h = "xname" -> (IF kind = "import" THEN {Fresh}
                       ELSE IF kind = "export" THEN {Fresh} \cup (Named({"func", "data", "bss"}) \ Named({"export"}))
                       ELSE {Fresh})
    [] h = "name" -> (IF kind = "func" THEN (IF Len(owed) > 0 THEN {owed[1].name} ELSE {Fresh} \cup Declared) ELSE {Fresh})
    [] h = "nres" -> (IF Fixed /\ kind = "func" THEN {1} ELSE 0..MaxRes)
    [] h = "rtype" -> (IF Fixed /\ kind = "func" THEN {"i64"} ELSE TSel(ScalarTypes))
    [] h = "nargs" -> (IF Fixed /\ kind = "func" THEN {2} ELSE 0..MaxArgs)
    [] h = "atype" -> (IF Fixed /\ kind = "func" THEN (IF Len(v) = 3 + v[2] THEN {"i64"} ELSE {"d"}) ELSE TSel(ArgTypes))
    [] h = "bsize" -> SizeG
    [] h = "va" -> (IF kind = "func" /\ (v[3 + v[2]] = 0 \/ Fixed) THEN {FALSE} ELSE BOOLEAN)    \* a vararg function needs a fixed argument
    [] h = "named" -> {"anon", "name"} \cup (IF NTemp(items) < Len(TempPool) THEN {"temp"} ELSE {})
    [] h = "len" -> LenG
    [] h = "dtype" -> TSel(ScalarTypes)
    [] h = "via" -> (IF v[2] = "u8" THEN {"data", "string"} ELSE {"data"}) \cup (IF v[2] \in EntTypes THEN {"entropy"} ELSE {})
    [] h = "nel" -> (IF v[3] = "entropy" THEN EntropyN(v[2]) ELSE 0..MaxEl)
    [] h = "el" -> ElG(v[2])
    [] h = "target" -> RefTargets
    [] h = "sdisp" -> DispG
    [] h = "lfunc" -> LrefFuncs
    [] h = "l1" -> 1..LrefNL(v[2])
    [] h = "l2" -> 0..LrefNL(v[2])
    [] h = "efunc" -> ExprFuncs
    [] h = "nloc" -> (IF Fixed THEN {3} ELSE 0..MaxLoc)
    [] h = "ltype" -> (IF Fixed THEN {<<"i64", "f", "ld">>[Len(v) - SigEnd(v)]} ELSE LocalTypes)
    [] h = "gtype" -> (IF Fixed THEN {""} ELSE {"", "i64", "d"})
    [] h = "nlab" -> (IF Fixed THEN {1} ELSE IF Len(owed) > 0 THEN owed[1].nl..2 ELSE 0..2)
    [] h = "style" -> (IF v[2] = 0 THEN {"ret", "jret"} ELSE {"ret"})

NameOrAnon(x) == CASE x = "anon" -> "" [] x = "name" -> Fresh [] x = "temp" -> TempPool[NTemp(items) + 1]
MkItem(kind, v) ==
  CASE kind \in {"import", "export", "forward"} -> [k |-> kind, name |-> v[1]]
    [] kind = "proto" -> [k |-> "proto", name |-> v[1], va |-> v[SigEnd(v)], res |-> SigRes(v), args |-> SigArgs(v)]
    [] kind = "bss" -> [k |-> "bss", name |-> NameOrAnon(v[1]), len |-> v[2]]
    [] kind = "data" -> [k |-> "data", name |-> NameOrAnon(v[1]), t |-> v[2], via |-> v[3],
                         els |-> (IF v[3] = "entropy" THEN [i \in 1..v[4] |-> EntEl(v[2], v[4], i)] ELSE [i \in 1..v[4] |-> v[4 + i]])]
    [] kind = "ref" -> [k |-> "ref", name |-> NameOrAnon(v[1]), ref |-> v[2], disp |-> v[3]]
    [] kind = "lref" -> [k |-> "lref", name |-> NameOrAnon(v[1]), l1 |-> <<v[2], v[3]>>, l2 |-> (IF v[4] = 0 THEN <<>> ELSE <<v[2], v[4]>>), disp |-> v[5]]
    [] kind = "expr" -> [k |-> "expr", name |-> NameOrAnon(v[1]), func |-> v[2]]

ItemKinds == IF Fixed THEN {"func"} ELSE IF Header = "none" THEN {"import", "export", "forward", "proto", "bss", "data", "ref", "lref", "expr"} ELSE {"import", "export", "forward", "proto", "bss", "data", "ref", "lref", "expr", "func"}
KindEnabled(k) ==
  /\ HaveFresh
  /\ k = "ref" => RefTargets # {}
  /\ k = "lref" => LrefFuncs # {}
  /\ k = "expr" => ExprFuncs # {}
  /\ (Len(owed) > 0 /\ Len(items) + 1 >= MaxItems + Len(Items0)) => k = "func"      \* the promised function must still fit

FnHeader(v) ==
  LET e == SigEnd(v)  nl == v[e + 1]  gt == v[e + 2 + nl] IN
  [name |-> v[1], va |-> v[e], res |-> SigRes(v), args |-> SigArgs(v),
   locals |-> [i \in 1..nl |-> [t |-> v[e + 1 + i], name |-> LocPool[i]]],
   globals |-> (IF gt = "" THEN <<>> ELSE <<[t |-> gt, name |-> GlobPool[1], hr |-> CHOOSE r \in HardReg(gt) : TRUE]>>),
   nlab |-> v[e + 3 + nl], placed |-> 0, style |-> v[e + 4 + nl], insns |-> <<>>, free |-> 0]

(* ------------------------------------------------------------------ operand builder *)
Default(D) == {CHOOSE x \in D : TRUE}
MemTypes(c) == CASE c = "i" -> TSel(IntTypes) [] c \in FpTypes -> {c} [] c = "pvar" -> {"i64", "u8"} [] c = "valist" -> {"i64"} [] c = "vamem" -> TSel(ScalarTypes)
Forms(cl) ==
  LET c == cl.c IN
  CASE c = "i" /\ ~cl.out -> (IF FnRegs("i") # {} THEN {"reg"} ELSE {}) \cup {"int", "uint", "mem", "str"} \cup (IF RefTargets # {} THEN {"ref"} ELSE {})
    [] c = "i" /\ cl.out -> (IF FnRegs("i") # {} THEN {"reg"} ELSE {}) \cup {"mem"}
    [] c \in FpTypes /\ ~cl.out -> (IF FnRegs(c) # {} THEN {"reg"} ELSE {}) \cup {"imm", "mem"}
    [] c \in FpTypes /\ cl.out -> (IF FnRegs(c) # {} THEN {"reg"} ELSE {}) \cup {"mem"}
    [] c = "lab" -> {"lab"}
    [] c \in {"anyreg", "ireg"} -> {"reg"}
    [] c = "pvar" -> (IF FnRegs("i") # {} THEN {"reg"} ELSE {}) \cup {"mem"}
    [] c = "const" -> {"int"}
    [] c = "valist" -> (IF FnRegs("i") # {} THEN {"reg", "memundef"} ELSE {}) \cup {"mem"}
    [] c = "vamem" -> {"mem"}
    [] c = "blk" -> {"blkmem"}
    [] c = "proto" -> {"protoref"}
    [] c = "callee" -> (IF FnRegs("i") # {} THEN {"reg"} ELSE {}) \cup (IF Callees # {} THEN {"ref"} ELSE {})
    [] c = "vaextra" -> {"int", "str", "imm"}
OpFields(form) ==
  CASE form = "reg" -> <<"reg">> [] form \in {"int", "uint"} -> <<"w">> [] form = "imm" -> <<"fp">>
    [] form = "mem" -> <<"mty", "disp", "base", "index", "scale", "alias", "nonalias">>
    [] form = "memundef" -> <<"disp", "base1">> [] form = "blkmem" -> <<"base">>
    [] form = "ref" -> <<"refname">> [] form = "protoref" -> <<>> [] form = "str" -> <<"bytes">> [] form = "lab" -> <<"labn">>
AddrRegs == IF Grid = "full" \/ FnRegs("i") = {} THEN FnRegs("i") ELSE Default(FnRegs("i"))      \* registers used in addresses
RegClass(cl) == IF cl.c \in FpTypes THEN FnRegs(cl.c) ELSE IF cl.c = "anyreg" THEN AnyRegs ELSE FnRegs("i")
OpDom(cl, form, f, v) ==
  CASE f = "reg" -> RegClass(cl)
    [] f = "w" -> (IF cl.c = "const" THEN {Zero, W(3), Ones} ELSE I64G)
    [] f = "fp" -> (IF cl.c = "f" THEN FG ELSE IF cl.c = "ld" THEN LG ELSE DG)
    [] f = "mty" -> MemTypes(cl.c)
    [] f = "disp" -> DispG
    [] f = "base" -> {""} \cup AddrRegs
    [] f = "base1" -> AddrRegs
    [] f = "index" -> {""} \cup AddrRegs
    [] f = "scale" -> (IF v[4] = "" THEN {1} ELSE IF Grid = "full" THEN {1, 2, 4, 8} ELSE {1, 8})
    [] f = "alias" -> AliasG
    [] f = "nonalias" -> AliasG
    [] f = "refname" -> (IF cl.c = "callee" THEN Callees ELSE RefTargets)
    [] f = "bytes" -> StrG
    [] f = "labn" -> 1..fn.nlab
MkOp(cl, form, v) ==
  CASE form = "reg" -> [k |-> "reg", name |-> v[1]]
    [] form = "int" -> [k |-> "int", w |-> v[1]]
    [] form = "uint" -> [k |-> "uint", w |-> v[1]]
    [] form = "imm" -> [k |-> (IF cl.c \in FpTypes THEN cl.c ELSE "d"), w |-> v[1]]
    [] form = "mem" -> [k |-> "mem", t |-> v[1], disp |-> v[2], base |-> v[3], index |-> v[4], scale |-> v[5], alias |-> v[6], nonalias |-> v[7]]
    [] form = "memundef" -> [k |-> "mem", t |-> "undef", disp |-> v[1], base |-> v[2], index |-> "", scale |-> 1, alias |-> "", nonalias |-> ""]
    [] form = "blkmem" -> [k |-> "mem", t |-> cl.t, disp |-> cl.sz, base |-> v[1], index |-> "", scale |-> 1, alias |-> "", nonalias |-> ""]
    [] form = "ref" -> [k |-> "ref", name |-> v[1]]
    [] form = "protoref" -> [k |-> "ref", name |-> cn.proto]
    [] form = "str" -> [k |-> "str", b |-> v[1]]
    [] form = "lab" -> [k |-> "lab", n |-> v[1]]

(* ------------------------------------------------------------------ instruction builder *)
LastOp == IF Len(fn.insns) = 0 THEN "" ELSE fn.insns[Len(fn.insns)].op
OvfBrOK(b) == /\ LastOp \in Ovf
              /\ (b \in {"ubo", "ubno"} => LastOp \notin {"mulo", "mulos"})
              /\ (b \in {"bo", "bno"} => LastOp \notin {"umulo", "umulos"})
NeedsLabel(g) == g \in {"jump", "br3", "fbr3", "laddr", "switch"}
NeedsIntReg(g) == g \in {"addr"}
GroupEnabled(g) ==
  /\ g = "label" => fn.placed < fn.nlab
  /\ g # "label" => fn.free < MaxInsns
  /\ g = "switch" => fn.nlab >= 1
  /\ g = "call" => Protos # {} /\ (Callees # {} \/ FnRegs("i") # {})
  /\ g = "va" => fn.va
  /\ g = "addr" => AnyRegs # {}
  /\ g = "ret" => fn.style = "ret"
OpEnabled(op) ==
  /\ (\E p \in 1..Len(Sig(op)) : Sig(op)[p].c = "lab") => fn.nlab >= 1
  /\ op \in {"addr8", "addr16", "addr32"} => FnRegs("i") # {}
GroupOpsNow(g) ==
  IF g = "jump" THEN {o \in GroupOps(g) \cup (IF LastOp \in Ovf THEN {b \in OvfBr : OvfBrOK(b)} ELSE {}) : o = "jmpi" \/ fn.nlab >= 1}
  ELSE IF g \in {"call", "switch", "ret", "label"} THEN GroupOps(g)
  ELSE {o \in GroupOps(g) : OpEnabled(o)}

ArgClass(a) == IF IsBlk(a.t) THEN [c |-> "blk", out |-> FALSE, t |-> a.t, sz |-> a.size] ELSE I(TClass(a.t))
CallSig(p, nx) == <<I("proto"), I("callee")>> \o [i \in 1..Len(p.res) |-> O(TClass(p.res[i]))] \o [i \in 1..Len(p.args) |-> ArgClass(p.args[i])]
                  \o [i \in 1..nx |-> I("vaextra")]
RetSig == [i \in 1..Len(fn.res) |-> I(TClass(fn.res[i]))]

FreePos(sig) == IF OneFree /\ Len(sig) > 0 THEN 1..Len(sig) ELSE {0}

(* ------------------------------------------------------------------ actions *)
Init ==
  /\ mods = <<>> /\ items = Items0 /\ ci = NoCur /\ fn = NoFn /\ cn = NoInsn /\ co = NoOp /\ owed = <<>> /\ phase = "mod"

InFunc == fn.name # ""
ChooseItemKind ==
  /\ phase = "mod" /\ ~InFunc /\ ci.kind = "" /\ (Len(items) < MaxItems + Len(Items0) \/ Len(owed) > 0)
  /\ \E k \in ItemKinds : KindEnabled(k) /\ ci' = [kind |-> k, vals |-> <<>>]
  /\ UNCHANGED <<mods, items, fn, cn, co, owed, phase>>
FillItem ==
  /\ phase = "mod" /\ ~InFunc /\ ci.kind # "" /\ ItemHole(ci.kind, ci.vals) # ""
  /\ \E x \in ItemDom(ci.kind, ItemHole(ci.kind, ci.vals), ci.vals) : ci' = [ci EXCEPT !.vals = Append(@, x)]
  /\ UNCHANGED <<mods, items, fn, cn, co, owed, phase>>
CloseItem ==
  /\ phase = "mod" /\ ~InFunc /\ ci.kind \notin {"", "func"} /\ ItemHole(ci.kind, ci.vals) = ""
  /\ items' = Append(items, MkItem(ci.kind, ci.vals))
  /\ owed' = (IF ci.kind = "lref" /\ ci.vals[2] \notin LabFuncs
              THEN LET m == IF ci.vals[3] > ci.vals[4] THEN ci.vals[3] ELSE ci.vals[4]
                       o == IF Len(owed) > 0 /\ owed[1].nl > m THEN owed[1].nl ELSE m
                   IN <<[name |-> ci.vals[2], nl |-> o]>>
              ELSE owed)
  /\ ci' = NoCur
  /\ UNCHANGED <<mods, fn, cn, co, phase>>
OpenFunc ==
  /\ phase = "mod" /\ ~InFunc /\ ci.kind = "func" /\ ItemHole("func", ci.vals) = ""
  /\ fn' = FnHeader(ci.vals)
  /\ owed' = (IF Len(owed) > 0 THEN Tail(owed) ELSE owed)
  /\ ci' = NoCur
  /\ UNCHANGED <<mods, items, cn, co, phase>>

ChooseGroup ==
  /\ InFunc /\ cn.op = "" /\ cn.grp = ""
  /\ \E g \in Groups : GroupEnabled(g) /\ GroupOpsNow(g) # {} /\ cn' = [NoInsn EXCEPT !.grp = g]
  /\ UNCHANGED <<mods, items, ci, fn, co, owed, phase>>
ChooseOpcode ==
  /\ InFunc /\ cn.grp \notin {"", "label", "call", "switch", "ret"} /\ cn.op = ""
  /\ \E o \in GroupOpsNow(cn.grp) : \E fp \in FreePos(Sig(o)) : cn' = [cn EXCEPT !.op = o, !.sig = Sig(o), !.fp = fp]
  /\ UNCHANGED <<mods, items, ci, fn, co, owed, phase>>
PlaceLabel ==
  /\ InFunc /\ cn.grp = "label"
  /\ fn' = [fn EXCEPT !.insns = Append(@, [op |-> "label", n |-> fn.placed + 1]), !.placed = @ + 1]
  /\ cn' = NoInsn
  /\ UNCHANGED <<mods, items, ci, co, owed, phase>>
ChooseCall ==
  /\ InFunc /\ cn.grp = "call" /\ cn.op = ""
  /\ \E o \in GroupOps("call"), p \in Protos, nx \in 0..2 :
       /\ (nx > 0 => p.va)
       /\ \E fp \in FreePos(CallSig(p, nx)) : cn' = [cn EXCEPT !.op = o, !.proto = p.name, !.sig = CallSig(p, nx), !.fp = fp]
  /\ UNCHANGED <<mods, items, ci, fn, co, owed, phase>>
ChooseSwitch ==
  /\ InFunc /\ cn.grp = "switch" /\ cn.op = "" /\ fn.nlab >= 1
  /\ \E n \in 1..3, fp \in 0..(IF OneFree THEN 1 ELSE 0) : cn' = [cn EXCEPT !.op = "switch", !.sig = <<I("i")>> \o [i \in 1..n |-> I("lab")], !.fp = fp]
  /\ UNCHANGED <<mods, items, ci, fn, co, owed, phase>>
ChooseRet ==
  /\ InFunc /\ cn.grp = "ret" /\ cn.op = ""
  /\ \E fp \in FreePos(RetSig) : cn' = [cn EXCEPT !.op = "ret", !.sig = RetSig, !.fp = fp]
  /\ UNCHANGED <<mods, items, ci, fn, co, owed, phase>>

CurClass == cn.sig[Len(cn.ops) + 1]
(* with OneFree only position cn.fp is free; the final return of a function always takes defaults then *)
Narrow(D) == IF OneFree /\ Len(cn.ops) + 1 # cn.fp THEN Default(D) ELSE D
ChooseForm ==
  /\ InFunc /\ cn.op # "" /\ Len(cn.ops) < Len(cn.sig) /\ co.form = ""
  /\ \E f \in Narrow(Forms(CurClass)) : co' = [form |-> f, vals |-> <<>>]
  /\ UNCHANGED <<mods, items, ci, fn, cn, owed, phase>>
FillOp ==
  /\ InFunc /\ co.form # "" /\ Len(co.vals) < Len(OpFields(co.form))
  /\ \E x \in Narrow(OpDom(CurClass, co.form, OpFields(co.form)[Len(co.vals) + 1], co.vals)) : co' = [co EXCEPT !.vals = Append(@, x)]
  /\ UNCHANGED <<mods, items, ci, fn, cn, owed, phase>>
CloseOp ==
  /\ InFunc /\ co.form # "" /\ Len(co.vals) = Len(OpFields(co.form))
  /\ cn' = [cn EXCEPT !.ops = Append(@, MkOp(CurClass, co.form, co.vals))]
  /\ co' = NoOp
  /\ UNCHANGED <<mods, items, ci, fn, owed, phase>>
CloseInsn ==
  /\ InFunc /\ cn.op # "" /\ Len(cn.ops) = Len(cn.sig) /\ co.form = ""
  /\ fn' = [fn EXCEPT !.insns = Append(@, [op |-> cn.op, ops |-> cn.ops]), !.free = @ + 1]
  /\ cn' = NoInsn
  /\ UNCHANGED <<mods, items, ci, co, owed, phase>>

(* closing a function: labels not placed yet, then the final return (ret with one operand per result / jret) *)
FinalPending == fn.placed < fn.nlab
StartFinal ==
  /\ InFunc /\ cn.op = "" /\ cn.grp = "" /\ fn.free >= MinInsns
  \* the last label may also come after the final return: a function may end with a label
  /\ \E tr \in BOOLEAN : /\ (IF tr THEN fn.placed + 1 = fn.nlab ELSE ~FinalPending)
                         /\ cn' = [NoInsn EXCEPT !.grp = "final", !.op = fn.style, !.trail = tr, !.sig = (IF fn.style = "ret" THEN RetSig ELSE <<I("i")>>)]
  /\ UNCHANGED <<mods, items, ci, fn, co, owed, phase>>
CloseFunc ==
  /\ InFunc /\ cn.grp = "final" /\ Len(cn.ops) = Len(cn.sig) /\ co.form = ""
  /\ items' = Append(items, [k |-> "func", name |-> fn.name, va |-> fn.va, res |-> fn.res, args |-> fn.args, locals |-> fn.locals,
                             globals |-> fn.globals,
                             insns |-> Append(fn.insns, [op |-> cn.op, ops |-> cn.ops]) \o (IF cn.trail THEN <<[op |-> "label", n |-> fn.nlab]>> ELSE <<>>)])
  /\ fn' = NoFn /\ cn' = NoInsn
  /\ UNCHANGED <<mods, ci, co, owed, phase>>

CloseModule ==
  /\ phase = "mod" /\ ~InFunc /\ ci.kind = "" /\ Len(owed) = 0 /\ Len(items) >= MinItems + Len(Items0)
  /\ mods' = Append(mods, [name |-> ModNames[Len(mods) + 1], items |-> items, tmp |-> NTemp(items)])
  /\ items' = Items0
  /\ phase' = (IF Len(mods) + 1 >= MaxMods THEN "done" ELSE "mod")
  /\ UNCHANGED <<ci, fn, cn, co, owed>>
(* a context may also hold fewer modules than MaxMods *)
Stop ==
  /\ phase = "mod" /\ ~InFunc /\ ci.kind = "" /\ items = Items0 /\ Len(owed) = 0 /\ Len(mods) < MaxMods
  /\ (MinItems = 0 \/ Len(mods) >= 1)
  /\ phase' = "done"
  /\ UNCHANGED <<mods, items, ci, fn, cn, co, owed>>

(* CloseInsn of a "final" instruction is CloseFunc *)
Next ==
  \/ ChooseItemKind \/ FillItem \/ CloseItem \/ OpenFunc
  \/ (cn.grp # "final" /\ (ChooseGroup \/ ChooseOpcode \/ PlaceLabel \/ ChooseCall \/ ChooseSwitch \/ ChooseRet))
  \/ ChooseForm \/ FillOp \/ CloseOp
  \/ (cn.grp # "final" /\ CloseInsn)
  \/ StartFinal \/ CloseFunc
  \/ CloseModule \/ Stop
Term == phase = "done" /\ UNCHANGED cvars          \* NextT: termination is not a deadlock (used to look for stuck builders)
NextT == Next \/ Term
Spec == Init /\ [][Next]_cvars

(* ------------------------------------------------------------------ big modules (C11: several compression buffers) *)
(* one data item of n elements, chosen through the environment: C11_BIGN<i> (elements), C11_BIGP<i> (pattern: *)
(* "low" = values below 128 (one byte per token), "rand" / "rand7" = incompressible, "rep" = period 7, "mix"), C11_BIGT<i> *)
EnvOr(k, d) == IF k \in DOMAIN IOEnv THEN IOEnv[k] ELSE d
BigIdx == {i \in 1..12 : ("C11_BIGN" \o ToString(i)) \in DOMAIN IOEnv}
BigRand(i) == ((((i % 4093) * (i % 4099)) % 65521) * 31 + ((i % 65536) * 17)) % 256
(* "mix": MixHead incompressible one-byte tokens (more literal symbols than the compressor's 2^16-element pool holds in one  *)
(* 2^18-byte buffer) followed by periodic two-byte tokens in the same buffer (references to symbols numbered after that) *)
MixHead == 120000
Sq(i, p) == ((i % p) * (i % p)) % p                       \* p < 46341: the square stays below 2^31
BigRand7(i) == (Sq(i, 46337) + (3 * Sq(i, 46327)) + (7 * Sq(i, 40009))) % 128       \* close to 7 bits of entropy per value
BigVal(pat, i) == CASE pat = "low" -> (i * 7) % 128 [] pat = "rep" -> 200 + (i % 7) [] pat = "rand7" -> BigRand7(i)
                    [] pat = "mix" -> (IF i <= MixHead THEN BigRand7(i) ELSE 200 + (i % 7)) [] OTHER -> BigRand(i)
BigEl(t, pat, i) ==
  CASE t = "u8" -> <<BigVal(pat, i)>>
    [] t = "i64" -> <<BigVal(pat, i), 65535, 65535, 32768 + BigVal(pat, i + 1)>>            \* negative: 8-byte tokens
    [] t = "ld" -> <<BigVal(pat, i), BigVal(pat, i + 1), 0, 32768 + BigVal(pat, i + 2), 16383>>
BigModule(j) ==
  LET n == atoi(IOEnv["C11_BIGN" \o ToString(j)])  pat == EnvOr("C11_BIGP" \o ToString(j), "rand")  t == EnvOr("C11_BIGT" \o ToString(j), "u8") IN
  <<[name |-> "big", tmp |-> 0, items |-> <<[k |-> "import", name |-> "a"],
                                 [k |-> "data", name |-> "b1", t |-> t, via |-> "data", els |-> [i \in 1..n |-> BigEl(t, pat, i)]],
                                 [k |-> "bss", name |-> "", len |-> W(8)]>>]>>
BigInit == /\ \E j \in BigIdx : mods = BigModule(j)
           /\ items = <<>> /\ ci = NoCur /\ fn = NoFn /\ cn = NoInsn /\ co = NoOp /\ owed = <<>> /\ phase = "big"
BigNext == phase = "big" /\ phase' = "done" /\ UNCHANGED <<mods, items, ci, fn, cn, co, owed>>

(* ------------------------------------------------------------------ normal form of the text format *)
(* MIR text has a single integer literal ("represented the same way as C integer numbers"): an unsigned immediate *)
(* reads back as a signed immediate with the same 64 bits.  Everything else of the abstract module survives.      *)
NFOp(o) == IF o.k = "uint" THEN [k |-> "int", w |-> o.w] ELSE o
NFInsn(ins) == IF ins.op = "label" THEN ins ELSE [ins EXCEPT !.ops = [p \in 1..Len(@) |-> NFOp(@[p])]]
NFItem(it) == IF it.k = "func" THEN [it EXCEPT !.insns = [i \in 1..Len(@) |-> NFInsn(@[i])]] ELSE it
TextNF(ms) == [m \in 1..Len(ms) |-> [ms[m] EXCEPT !.items = [i \in 1..Len(@) |-> NFItem(@[i])]]]
NFIdempotent == phase = "done" => TextNF(TextNF(mods)) = TextNF(mods)

(* ------------------------------------------------------------------ emission and sanity *)
Context == mods
EmitModule == (phase # "done" /\ phase' = "done") => EmitJ([mods |-> mods', textnf |-> TextNF(mods')])

(* well-formedness of what has been built (checked on every state): unique definitions, resolvable references *)
RECURSIVE SeqToSet(_)
SeqToSet(s) == IF s = <<>> THEN {} ELSE {Head(s)} \cup SeqToSet(Tail(s))
DefNames(its) == [i \in 1..Len(its) |-> IF its[i].k \in DefKinds THEN its[i].name ELSE ""]
UniqueDefs(its) == \A i, j \in 1..Len(its) : (i # j /\ DefNames(its)[i] # "" ) => DefNames(its)[i] # DefNames(its)[j]
LabelsOK(f) == \A i \in 1..Len(f.insns) : f.insns[i].op # "label" =>
                 \A p \in 1..Len(f.insns[i].ops) : f.insns[i].ops[p].k = "lab" => f.insns[i].ops[p].n \in 1..NLabels(f)
WellFormed ==
  /\ UniqueDefs(items)
  /\ \A f \in Funcs : LabelsOK(f)
  /\ \A i \in 1..Len(items) : items[i].k = "expr" => items[i].func \in ExprFuncs
=============================================================================
