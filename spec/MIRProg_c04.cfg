CONSTANTS
  NSlots = 12
  Vocab = "link"
INIT Init
NEXT Next
ACTION_CONSTRAINT EmitCase
INVARIANTS TypeOK RegsTyped
