CONSTANTS
  PageSize = 2
  TrackFreed = TRUE
  MaxId = 3
  Sizes = {0, 1, 2}
  MaxRegion = 2
  Lens = {2, 4}
INIT Init
NEXT Next
INVARIANTS TypeOK LedgerInv
PROPERTIES NoDoubleFree WriteNeedsWindow
