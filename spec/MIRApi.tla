------------------------------- MODULE MIRApi -------------------------------
(* Protocol of the MIR construction calls (MIR.md "MIR module", "MIR        *)
(* function"): which call is legal in which state and which error it must   *)
(* raise otherwise.                                                         *)
(*   "You can create only one module at any given time"                     *)
(*   "You can create only one MIR function at any given time"               *)
(*   "Function is an module item" (items are created inside a module)       *)
(*   "Names of MIR functions, imports, and prototypes should be unique in a *)
(*    module"                                                               *)
(*   "A variable should have an unique name in the function"                *)
(*   "You can create function variables even after finishing the function   *)
(*    creation.  This can be used to modify function insns"                 *)
(* One action per API call.  A call that must raise an error, or whose      *)
(* outcome MIR.md does not determine ("unspec"), ends the behaviour: after   *)
(* an error the context is abandoned.  The history h is hidden by VIEW, so  *)
(* TLC's BFS emits every transition of the state graph once, with a         *)
(* shortest path leading to it.                                             *)
EXTENDS Integers, Sequences, FiniteSets, TLC, Json, Emit

CONSTANTS Names,      \* item names
          RegNames,   \* names of non-argument variables ("a1" is the argument of every function)
          MaxMods,    \* modules created per behaviour
          Depth       \* number of calls

VARIABLES mod,        \* "none" | "open"
          nmods,      \* modules created so far
          defs,       \* current module: name -> "none" | "func" | "proto" | "import" | "data" | "bss"
          decls,      \* current module: set of <<name, "export" | "forward">>
          cur,        \* name of the function under construction or "none"
          last,       \* most recently created function (open or finished) or "none"
          regs,       \* variables of `last` (argument included)
          done,       \* MIR_finish was called / an error was raised
          h           \* history: sequence of [act, n, exp, codes]

vars == <<mod, nmods, defs, decls, cur, last, regs, done, h>>
View == <<mod, nmods, defs, decls, cur, last, regs, done>>

Init == /\ mod = "none" /\ nmods = 0 /\ defs = [n \in Names |-> "none"] /\ decls = {}
        /\ cur = "none" /\ last = "none" /\ regs = {} /\ done = FALSE /\ h = <<>>

UNION2(S) == UNION S
RuleCodes(r) ==
  CASE r = "NestedModule" -> {"nested_module"}
    [] r = "NoModule" -> {"no_module"}
    [] r = "NestedFunc" -> {"nested_func"}
    [] r = "NoFunc" -> {"no_func"}
    [] r = "NameNotUnique" -> {"repeated_decl", "import_export"}
    [] r = "RegRepeated" -> {"repeated_decl"}
Outcome(v, u) ==
  IF v # {} THEN [exp |-> "err", rules |-> v, unspec |-> u, codes |-> UNION2({RuleCodes(r) : r \in v}), anycode |-> u # {}]
  ELSE IF u # {} THEN [exp |-> "unspec", rules |-> {}, unspec |-> u, codes |-> {}, anycode |-> TRUE]
  ELSE [exp |-> "ok", rules |-> {}, unspec |-> {}, codes |-> {}, anycode |-> FALSE]

Step(act, n, out) ==
  /\ ~done
  /\ h' = Append(h, [act |-> act, n |-> n] @@ out)
  /\ done' = (out.exp # "ok" \/ act = "finish")

Keep(vs) == UNCHANGED vs

Unique == {"func", "proto", "import"}    \* kinds whose names "should be unique in a module"
NoMod == IF mod = "none" THEN {"NoModule"} ELSE {}
Exported(n) == \E d \in decls : d[1] = n

NewModule ==
  LET out == Outcome(IF mod = "open" THEN {"NestedModule"} ELSE {}, {})
  IN /\ nmods < MaxMods \/ mod = "open"
     /\ Step("new_module", "-", out)
     /\ IF out.exp = "ok" THEN mod' = "open" /\ nmods' = nmods + 1 /\ defs' = [n \in Names |-> "none"] /\ decls' = {}
        ELSE Keep(<<mod, nmods, defs, decls>>)
     /\ Keep(<<cur, last, regs>>)

FinishModule ==
  LET out == Outcome(NoMod, IF mod = "open" /\ cur # "none" THEN {"FinishModuleInsideFunc"} ELSE {})
  IN /\ Step("finish_module", "-", out)
     /\ mod' = IF out.exp = "ok" THEN "none" ELSE mod
     /\ Keep(<<nmods, defs, decls, cur, last, regs>>)

(* definition of an item named n of kind k \in {func, proto, import, data, bss} *)
DefOutcome(k, n) ==
  Outcome(NoMod
          \cup (IF k = "func" /\ cur # "none" THEN {"NestedFunc"} ELSE {})
          \cup (IF mod = "open" /\ defs[n] # "none" /\ (defs[n] \in Unique \/ k \in Unique)
                   /\ ~(k = "import" /\ defs[n] = "import") THEN {"NameNotUnique"} ELSE {}),
          (IF mod = "open" /\ defs[n] \in {"data", "bss"} /\ k \in {"data", "bss"} THEN {"DataNameReused"} ELSE {})
          \cup (IF mod = "open" /\ k = "import" /\ defs[n] = "import" THEN {"ImportTwice"} ELSE {})
          \cup (IF mod = "open" /\ k \in {"import", "proto"} /\ Exported(n) THEN {"ExportedNameAsImportOrProto"} ELSE {}))
Define(k, n) ==
  LET out == DefOutcome(k, n)
  IN /\ Step("new_" \o k, n, out)
     /\ IF out.exp = "ok"
        THEN /\ defs' = [defs EXCEPT ![n] = k]
             /\ IF k = "func" THEN cur' = n /\ last' = n /\ regs' = {"a1"} ELSE Keep(<<cur, last, regs>>)
        ELSE Keep(<<defs, cur, last, regs>>)
     /\ Keep(<<mod, nmods, decls>>)

(* export / forward declaration of name n *)
Declare(k, n) ==
  LET out == Outcome(NoMod,
                     (IF mod = "open" /\ defs[n] \in {"import", "proto"} THEN {"ExportOfImportOrProto"} ELSE {})
                     \cup (IF mod = "open" /\ Exported(n) THEN {"DeclaredTwice"} ELSE {}))
  IN /\ Step("new_" \o k, n, out)
     /\ decls' = IF out.exp = "ok" THEN decls \cup {<<n, k>>} ELSE decls
     /\ Keep(<<mod, nmods, defs, cur, last, regs>>)

NewReg(r) ==
  LET out == Outcome(IF r \in regs THEN {"RegRepeated"} ELSE {}, {})
  IN /\ last # "none"
     /\ Step("new_func_reg", r, out)
     /\ regs' = IF out.exp = "ok" THEN regs \cup {r} ELSE regs
     /\ Keep(<<mod, nmods, defs, decls, cur, last>>)

AppendInsn ==      \* a well-formed `mov a1, 1` appended to the most recent function
  /\ last # "none"
  /\ Step("append_insn", "-", Outcome({}, {}))
  /\ Keep(<<mod, nmods, defs, decls, cur, last, regs>>)

FinishFunc ==
  LET out == Outcome(IF cur = "none" THEN {"NoFunc"} ELSE {}, {})
  IN /\ Step("finish_func", "-", out)
     /\ cur' = IF out.exp = "ok" THEN "none" ELSE cur
     /\ Keep(<<mod, nmods, defs, decls, last, regs>>)

Finish ==          \* MIR_finish "should be called last"
  /\ Step("finish", "-", Outcome({}, IF mod = "open" \/ cur # "none" THEN {"FinishWithOpenModuleOrFunc"} ELSE {}))
  /\ Keep(<<mod, nmods, defs, decls, cur, last, regs>>)

Next ==
  \/ NewModule \/ FinishModule \/ FinishFunc \/ AppendInsn \/ Finish
  \/ \E n \in Names : \E k \in {"func", "proto", "import", "data", "bss"} : Define(k, n)
  \/ \E n \in Names : \E k \in {"export", "forward"} : Declare(k, n)
  \/ \E r \in RegNames \cup {"a1"} : NewReg(r)

Spec == Init /\ [][Next]_vars

Bound == Len(h) <= Depth
Emit == EmitJ([h |-> h'])

(* model-level sanity: a function is under construction only inside ... a  *)
(* history whose earlier steps were all accepted                            *)
PrefixAccepted == \A i \in 1..Len(h) - 1 : h[i].exp = "ok"
=============================================================================
