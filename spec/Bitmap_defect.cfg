CONSTANTS
  U = {0, 63, 64}
  MaxLen = 2
  Ranges <- RangesQuick
  TailChecked = FALSE
INIT Init
NEXT Next
ACTION_CONSTRAINT Emit
INVARIANTS Canon
PROPERTIES ChangedExact SourcesIntact
