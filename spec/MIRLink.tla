------------------------------- MODULE MIRLink -------------------------------
(* Loading and linking of MIR modules (MIR.md "MIR_load_module", "MIR_load_external",   *)
(* "MIR_link"; property C13).                                                             *)
(*                                                                                        *)
(* Two layers in one module:                                                              *)
(*  - an implementation-shaped machine: an environment table  name -> definition, the    *)
(*    queue of modules loaded since the last link, the bindings of the modules linked so  *)
(*    far, the redefinition permission and counters;                                      *)
(*  - an independent record of what happened: defHist, the sequence of <<name, def>> in   *)
(*    the order the definitions were made visible, plus per linked module the length of   *)
(*    defHist and the resolver when its link step started.  The property (BindLatest,     *)
(*    RedefRejected, UndefinedReported, LocalBinding, OldBindingsStable) is phrased over  *)
(*    these only and TLC checks that the machine satisfies it in every reachable state.   *)
(*                                                                                        *)
(* Behaviours are emitted (history h hidden by VIEW) and replayed on mir.c by             *)
(* harness/c13_link.c.                                                                    *)
(*                                                                                        *)
(* Named deviations = behaviour of mir.c the documentation does not state; the machine    *)
(* follows the code, the property tolerates exactly the named extra behaviour:            *)
(*  DevRedefAnyEntry      an exported *function* is rejected (without permission) when    *)
(*                        the name has ANY earlier visible definition (data export,       *)
(*                        external address, resolver answer), not only a function.        *)
(*  DevResolverRegisters  an address returned by the import resolver is registered like   *)
(*                        MIR_load_external: later imports of the name do not consult the *)
(*                        resolver again and a later exported function of that name is a  *)
(*                        redefinition.                                                   *)
(*  DevDupDeclMerged      repeated import/export/forward declarations of one name in a    *)
(*                        module are merged silently (MIR.md: "names of ... imports ...   *)
(*                        should be unique in a module").                                 *)
(*  DevDanglingAccepted   an export or forward declaration of a name the module does not  *)
(*                        define is accepted silently by load and link (mir.c has the     *)
(*                        errors "export/forward of undefined item" but its lookup finds  *)
(*                        the declaration itself, so they cannot be raised; MIR.md says   *)
(*                        nothing).  Such a name gets no binding; the harness does not    *)
(*                        reference it (a reference makes MIR_link loop forever).         *)
EXTENDS Integers, Sequences, SequencesExt, FiniteSets, TLC, Json, Emit, IOUtils

CONSTANTS Names,      \* global names, e.g. {"a","b","c"}
          ShapeIds,   \* enabled module shapes: indexes into AllShapes
          ExtNames,   \* names MIR_load_external is called with
          MaxMods,    \* module instances created per behaviour
          MaxExt,     \* MIR_load_external calls per behaviour
          MaxToggle,  \* MIR_set_func_redef_permission calls per behaviour
          IllMaxStep, \* modules whose construction fails (history independent) are tried only in the first IllMaxStep steps
          AvoidErrors,\* simulation only: do not take steps that end in an error (long successful histories)
          Depth       \* length of the behaviour

VARIABLES env,        \* [Names -> Def]   the table of visible definitions ("environment module")
          toLink,     \* sequence of module instances loaded since the last link
          linked,     \* sequence of module instances linked so far
          bound,      \* [<<s, v, n>> -> Def] for every import/forward n of a linked instance <<s, v>>
          permit,     \* MIR_set_func_redef_permission
          nver,       \* [ShapeIds -> Nat] instances created per shape (instance = [s, v])
          nx,         \* number of MIR_load_external calls so far (each uses a fresh address id)
          ntog,
          err,        \* "" or the error that ended the behaviour (the context is abandoned then)
          \* ---- history variables: what the property talks about; not part of the VIEW
          defHist,    \* sequence of [n, d] in the order definitions were made visible
          linkInfo,   \* [instance -> [len, useRes, R]]  defHist length / resolver at the start of its link step
          ev,         \* description of the last step
          h           \* emitted behaviour

vars == <<env, toLink, linked, bound, permit, nver, nx, ntog, err, defHist, linkInfo, ev, h>>
View == <<env, toLink, linked, bound, permit, nver, nx, ntog, err>>

(* ------------------------------ definitions ----------------------------------------- *)
NoDef == [t |-> "none", s |-> 0, v |-> 0, k |-> ""]
MirDef(s, v, k) == [t |-> "mir", s |-> s, v |-> v, k |-> k]      \* item of kind k ("func"/"data") of instance <<s, v>>
ExtDef(id) == [t |-> "ext", s |-> id, v |-> 0, k |-> "func"]     \* address number id given to MIR_load_external
ResDef == [t |-> "res", s |-> 0, v |-> 0, k |-> "func"]          \* the address the resolver returns for the name

(* ------------------------------ module shapes ---------------------------------------- *)
(* A shape is the sequence of declarations of a module, in order:                        *)
(*   f = function, d = data item, i = import, e = export, w = forward,                   *)
(*   s = data section: a named data item followed by anonymous data items (an array or   *)
(*       struct); the name denotes the first item, i.e. the start of the whole block.    *)
(*   g / G = function that CALLS the import c and adds its own constant to the result    *)
(*       (g: a few insns, inlined into its callers at their link step; G: too big for    *)
(*       the inlining of a plain call).  The value a call of it yields is defined         *)
(*       through the binding its OWN module got for c at its own link step (Val below).   *)
D(k, n) == [k |-> k, n |-> n, c |-> ""]
DC(k, n, c) == [k |-> k, n |-> n, c |-> c]
AllShapes == <<
  (* 1 P *) <<D("w", "a"), D("e", "a"), D("f", "a"), D("i", "b")>>,                       \* forward, export, definition
  (* 2 Q *) <<D("i", "a"), D("e", "b"), D("f", "b"), D("s", "c"), D("e", "c")>>,          \* export, definition; definition, export
  (* 3 R *) <<D("w", "a"), D("i", "c"), D("f", "a")>>,
  (* 4 T *) <<D("f", "c"), D("e", "c"), D("i", "a"), D("i", "b"), D("i", "a")>>,
  (* 5 U *) <<D("d", "a"), D("e", "a"), D("e", "b"), D("w", "b"), D("s", "b")>>,          \* export, forward, definition
  (* 6   *) <<D("i", "a"), D("f", "a")>>,                    \* import then definition: import_export
  (* 7   *) <<D("f", "b"), D("e", "b"), D("i", "b")>>,       \* import of a local definition: import_export
  (* 8   *) <<D("e", "c"), D("i", "c")>>,                    \* import of an exported name: import_export
  (* 9   *) <<D("f", "a"), D("d", "a")>>,                    \* two definitions: repeated_decl
  (* 10  *) <<D("e", "b"), D("i", "a")>>,                    \* export without definition (DevDanglingAccepted)
  (* 11  *) <<D("i", "c"), D("w", "b")>>,                    \* forward without definition (DevDanglingAccepted)
  (* 12  *) <<D("i", "a"), D("e", "b"), DC("g", "b", "a")>>, \* b calls the import a (small)
  (* 13  *) <<D("i", "a"), DC("G", "b", "a"), D("e", "b")>>, \* b calls the import a (big)
  (* 14  *) <<D("e", "a"), D("F", "a")>>                     \* a big plain function a (a plain call of it is not inlined)
>>

NoEntry == [def |-> "", imp |-> FALSE, exp |-> FALSE, fwd |-> FALSE]
Kind(k) == IF k \in {"f", "F", "g", "G"} THEN "func" ELSE "data"

(* Construction of a module through MIR_new_import/export/forward/func/data.             *)
(* Rules: a name is either imported or declared locally, never both (import_export);     *)
(* at most one definition per name (repeated_decl); DevDupDeclMerged.                    *)
RECURSIVE ConsR(_, _, _)
ConsR(decls, i, tab) ==
  IF i > Len(decls) THEN [err |-> "", tab |-> tab]
  ELSE LET k == decls[i].k  n == decls[i].n  e == tab[n] IN
    IF k = "i" THEN
      IF e.def # "" \/ e.exp \/ e.fwd THEN [err |-> "import_export", tab |-> tab]
      ELSE ConsR(decls, i + 1, [tab EXCEPT ![n].imp = TRUE])
    ELSE IF e.imp THEN [err |-> "import_export", tab |-> tab]
    ELSE IF k = "e" THEN ConsR(decls, i + 1, [tab EXCEPT ![n].exp = TRUE])
    ELSE IF k = "w" THEN ConsR(decls, i + 1, [tab EXCEPT ![n].fwd = TRUE])
    ELSE IF e.def # "" THEN [err |-> "repeated_decl", tab |-> tab]
    ELSE ConsR(decls, i + 1, [tab EXCEPT ![n].def = Kind(k)])

Construct(s) == ConsR(AllShapes[s], 1, [n \in Names |-> NoEntry])
Tab(s) == Construct(s).tab
ImportsOf(s) == {n \in Names : Tab(s)[n].imp}
ForwardsOf(s) == {n \in Names : Tab(s)[n].fwd}                 \* declared forward
ExportDeclsOf(s) == {n \in Names : Tab(s)[n].exp}
DefsOf(s) == {n \in Names : Tab(s)[n].def # ""}
ExportedOf(s) == ExportDeclsOf(s) \cap DefsOf(s)
ExportedFuncsOf(s) == {n \in ExportedOf(s) : Tab(s)[n].def = "func"}
Dangling(s) == (ExportDeclsOf(s) \cup ForwardsOf(s)) \ DefsOf(s)   \* export/forward of an undefined item
RefsOf(s) == ImportsOf(s) \cup (ForwardsOf(s) \cap DefsOf(s))   \* names whose binding the entry function observes

Inst(s, v) == [s |-> s, v |-> v]
SeqRange(q) == {q[i] : i \in 1..Len(q)}
NumInst == Len(toLink) + Len(linked)

(* ---- history helpers ---- *)
RECURSIVE LastDefR(_, _, _)
LastDefR(hist, i, n) == IF i = 0 THEN NoDef ELSE IF hist[i].n = n THEN hist[i].d ELSE LastDefR(hist, i - 1, n)
LastDef(hist, n) == LastDefR(hist, Len(hist), n)
HasFuncDef(hist, n) == \E i \in 1..Len(hist) : hist[i].n = n /\ hist[i].d.t = "mir" /\ hist[i].d.k = "func"
HasAnyDef(hist, n) == \E i \in 1..Len(hist) : hist[i].n = n

(* ------------------------------ the machine ------------------------------------------ *)
Init ==
  /\ env = [n \in Names |-> NoDef]
  /\ toLink = <<>> /\ linked = <<>> /\ bound = <<>>
  /\ permit = FALSE
  /\ nver = [s \in ShapeIds |-> 0]
  /\ nx = 0 /\ ntog = 0 /\ err = ""
  /\ defHist = <<>> /\ linkInfo = <<>>
  /\ ev = [a |-> "init", s |-> 0, len |-> 0, permit |-> FALSE, useRes |-> FALSE, R |-> {}, batch |-> <<>>]
  /\ h = <<>>

ShapeStr(s) == [i \in 1..Len(AllShapes[s]) |-> AllShapes[s][i].k \o AllShapes[s][i].n \o AllShapes[s][i].c]

(* ---- the value a call yields (the observable the harness compares) ---- *)
NameIdx(n) == IF n = "a" THEN 0 ELSE IF n = "b" THEN 1 ELSE 2
BaseK(n, s, v) == 10000 * (NameIdx(n) + 1) + 100 * s + v        \* the constant of definition n of instance <<s, v>>
CalleeOf(s, n) == LET I == {i \in 1..Len(AllShapes[s]) : AllShapes[s][i].n = n /\ AllShapes[s][i].c # ""}
                  IN IF I = {} THEN "" ELSE AllShapes[s][CHOOSE i \in I : TRUE].c
(* Val(b, d, n): result of calling definition d of name n, given the bindings b of the linked modules; -1: not a     *)
(* function all the way down (nothing is called then).  A calling function goes through the binding of ITS module.   *)
RECURSIVE Val(_, _, _)
Val(b, d, n) ==
  IF d.t = "ext" THEN 500000 + d.s
  ELSE IF d.t = "res" THEN 700000 + NameIdx(n)
  ELSE IF d.t # "mir" \/ d.k # "func" THEN -1
  ELSE LET c == CalleeOf(d.s, n) IN
       IF c = "" THEN BaseK(n, d.s, d.v)
       ELSE IF <<d.s, d.v, c>> \notin DOMAIN b THEN -1
       ELSE LET cv == Val(b, b[<<d.s, d.v, c>>], c) IN IF cv < 0 THEN -1 ELSE BaseK(n, d.s, d.v) + cv
DefT(d) == <<d.t, d.s, d.v, d.k>>

(* MIR_load_module: the exported definitions become visible in declaration order.        *)
RECURSIVE LoadDecls(_, _, _, _, _, _)
LoadDecls(decls, i, s, v, e, hist) ==
  IF i > Len(decls) THEN [err |-> "", env |-> e, hist |-> hist]
  ELSE LET k == decls[i].k  n == decls[i].n IN
    IF k \in {"f", "F", "g", "G", "d", "s"} /\ Tab(s)[n].exp
    THEN IF Kind(k) = "func" /\ ~permit /\ e[n] # NoDef          \* DevRedefAnyEntry: any visible entry, not only a function
         THEN [err |-> "repeated_decl", env |-> e, hist |-> hist]
         ELSE LoadDecls(decls, i + 1, s, v, [e EXCEPT ![n] = MirDef(s, v, Kind(k))],
                        Append(hist, [n |-> n, d |-> MirDef(s, v, Kind(k))]))
    ELSE LoadDecls(decls, i + 1, s, v, e, hist)

Load(s) ==
  /\ err = "" /\ NumInst < MaxMods
  /\ (Construct(s).err # "" => Len(h) < IllMaxStep)
  /\ LET v == nver[s] + 1
         c == Construct(s)
         r == LoadDecls(AllShapes[s], 1, s, v, env, defHist)
         e == IF c.err # "" THEN c.err ELSE r.err
     IN /\ nver' = [nver EXCEPT ![s] = v]
        /\ err' = e
        /\ IF e = "" THEN env' = r.env /\ defHist' = r.hist /\ toLink' = Append(toLink, Inst(s, v))
           ELSE UNCHANGED <<env, defHist, toLink>>
        /\ ev' = [a |-> "load", s |-> s, len |-> Len(defHist), permit |-> permit, useRes |-> FALSE, R |-> {},
                  batch |-> <<>>]
        /\ h' = Append(h, [a |-> "load", s |-> s, v |-> v, d |-> ShapeStr(s),
                           cerr |-> c.err, err |-> e])
  /\ UNCHANGED <<linked, bound, permit, nx, ntog, linkInfo>>

LoadExternal(n) ==
  /\ err = "" /\ nx < MaxExt
  /\ nx' = nx + 1
  /\ env' = [env EXCEPT ![n] = ExtDef(nx')]
  /\ defHist' = Append(defHist, [n |-> n, d |-> ExtDef(nx')])
  /\ ev' = [a |-> "ext", s |-> 0, len |-> Len(defHist), permit |-> permit, useRes |-> FALSE, R |-> {}, batch |-> <<>>]
  /\ h' = Append(h, [a |-> "ext", n |-> n, id |-> nx'])
  /\ UNCHANGED <<toLink, linked, bound, permit, nver, ntog, err, linkInfo>>

SetPermit(b) ==
  /\ err = "" /\ ntog < MaxToggle /\ b # permit
  /\ permit' = b /\ ntog' = ntog + 1
  /\ ev' = [a |-> "permit", s |-> 0, len |-> Len(defHist), permit |-> permit, useRes |-> FALSE, R |-> {}, batch |-> <<>>]
  /\ h' = Append(h, [a |-> "permit", b |-> b])
  /\ UNCHANGED <<env, toLink, linked, bound, nver, nx, err, defHist, linkInfo>>

(* MIR_link: modules of the queue in order, declarations in order.  acc = [err, env,     *)
(* hist, calls (names the resolver was asked for), b (new bindings)].                     *)
RECURSIVE LinkDecls(_, _, _, _, _, _)
LinkDecls(decls, i, m, useRes, R, acc) ==
  IF i > Len(decls) \/ acc.err # "" THEN acc
  ELSE LET k == decls[i].k  n == decls[i].n  key == <<m.s, m.v, n>> IN
    IF k = "i" THEN
      IF key \in DOMAIN acc.b THEN LinkDecls(decls, i + 1, m, useRes, R, acc)           \* merged duplicate
      ELSE IF acc.env[n] # NoDef
        THEN LinkDecls(decls, i + 1, m, useRes, R, [acc EXCEPT !.b = (key :> acc.env[n]) @@ @])
      ELSE IF ~useRes THEN [acc EXCEPT !.err = "undeclared_op_ref"]
      ELSE IF n \notin R THEN [acc EXCEPT !.err = "undeclared_op_ref", !.calls = Append(@, n)]
      ELSE LinkDecls(decls, i + 1, m, useRes, R,                                        \* DevResolverRegisters
                     [acc EXCEPT !.calls = Append(@, n), !.env = [@ EXCEPT ![n] = ResDef],
                                 !.hist = Append(@, [n |-> n, d |-> ResDef]), !.b = (key :> ResDef) @@ @])
    ELSE IF k \in {"e", "w"} THEN
      IF Tab(m.s)[n].def = "" THEN LinkDecls(decls, i + 1, m, useRes, R, acc)            \* DevDanglingAccepted
      ELSE IF k = "w" THEN LinkDecls(decls, i + 1, m, useRes, R,
                                     [acc EXCEPT !.b = (key :> MirDef(m.s, m.v, Tab(m.s)[n].def)) @@ @])
      ELSE LinkDecls(decls, i + 1, m, useRes, R, acc)
    ELSE LinkDecls(decls, i + 1, m, useRes, R, acc)

RECURSIVE LinkMods(_, _, _, _, _)
LinkMods(q, i, useRes, R, acc) ==
  IF i > Len(q) \/ acc.err # "" THEN acc
  ELSE LinkMods(q, i + 1, useRes, R, LinkDecls(AllShapes[q[i].s], 1, q[i], useRes, R, acc))

Undefined == {n \in Names : env[n] = NoDef /\ \E i \in 1..Len(toLink) : n \in ImportsOf(toLink[i].s)}

BoundSeq(b, insts) ==   \* bindings of the given instances as a flat sequence for emission
  LET keys == {k \in DOMAIN b : Inst(k[1], k[2]) \in SeqRange(insts)}
      sq == SetToSeq(keys)
  IN [i \in 1..Len(sq) |-> <<sq[i][1], sq[i][2], sq[i][3]>> \o DefT(b[sq[i]]) \o <<Val(b, b[sq[i]], sq[i][3])>>]

Link(useRes, R) ==
  /\ err = ""
  /\ LET r == LinkMods(toLink, 1, useRes, R,
                       [err |-> "", env |-> env, hist |-> defHist, calls |-> <<>>, b |-> bound])
     IN /\ err' = r.err
        /\ IF r.err = ""
           THEN /\ env' = r.env /\ defHist' = r.hist /\ bound' = r.b
                /\ linked' = linked \o toLink /\ toLink' = <<>>
                /\ linkInfo' = [m \in SeqRange(toLink) |-> [len |-> Len(defHist), useRes |-> useRes, R |-> R]] @@ linkInfo
           ELSE UNCHANGED <<env, defHist, bound, linked, toLink, linkInfo>>
        /\ ev' = [a |-> "link", s |-> 0, len |-> Len(defHist), permit |-> permit, useRes |-> useRes, R |-> R,
                  batch |-> toLink]
        /\ h' = Append(h, [a |-> "link", res |-> useRes, R |-> SetToSeq(R), err |-> r.err, calls |-> r.calls,
                           bound |-> IF r.err = "" THEN BoundSeq(r.b, linked \o toLink) ELSE <<>>])
  /\ UNCHANGED <<permit, nver, nx, ntog>>

Next ==
  /\ Len(h) < Depth
  /\ \/ \E s \in ShapeIds : Load(s)
     \/ \E n \in ExtNames : LoadExternal(n)
     \/ \E b \in BOOLEAN : SetPermit(b)
     \/ Link(FALSE, {})
     \/ \E R \in SUBSET Undefined : Link(TRUE, R)
  /\ AvoidErrors => err' = ""

Spec == Init /\ [][Next]_vars

(* ------------------------------ the property ----------------------------------------- *)
(* Every import of a linked module is bound to the definition of its name that was made  *)
(* visible last before its link step; with no such definition, to the resolver's answer. *)
BindLatest ==
  \A m \in SeqRange(linked) : \A n \in ImportsOf(m.s) :
    LET li == linkInfo[m]
        last == LastDef(SubSeq(defHist, 1, li.len), n)
        key == <<m.s, m.v, n>>
    IN /\ key \in DOMAIN bound
       /\ IF last # NoDef THEN bound[key] = last
          ELSE li.useRes /\ n \in li.R /\ bound[key] = ResDef

(* A forward declaration refers to the module's own item, whatever other modules export. *)
LocalBinding ==
  \A m \in SeqRange(linked) : \A n \in ForwardsOf(m.s) \cap DefsOf(m.s) :
    /\ bound[<<m.s, m.v, n>>] = MirDef(m.s, m.v, Tab(m.s)[n].def)

(* Loading a second exported function of a name is rejected unless permitted.            *)
RedefRejected ==
  (ev.a = "load" /\ Construct(ev.s).err = "") =>
    LET pre == SubSeq(defHist, 1, ev.len) IN
    /\ (~ev.permit /\ \E n \in ExportedFuncsOf(ev.s) : HasFuncDef(pre, n)) => err = "repeated_decl"
    /\ err = "repeated_decl" => ~ev.permit /\ \E n \in ExportedFuncsOf(ev.s) : HasAnyDef(pre, n)   \* DevRedefAnyEntry
    /\ err \in {"", "repeated_decl"}
ConstructErrors ==
  (ev.a = "load" /\ Construct(ev.s).err # "") => err = Construct(ev.s).err

(* An import with no definition is resolved by the resolver or reported.                  *)
UndefinedReported ==
  ev.a = "link" =>
    LET pre == SubSeq(defHist, 1, ev.len)
        bad == \E i \in 1..Len(ev.batch) :                        \* (Dangling(..) # {} is not reported: DevDanglingAccepted)
                 \E n \in ImportsOf(ev.batch[i].s) : ~HasAnyDef(pre, n) /\ ~(ev.useRes /\ n \in ev.R)
    IN /\ (err = "undeclared_op_ref") <=> bad
       /\ err \in {"", "undeclared_op_ref"}
       /\ err = "" => toLink = <<>> /\ \A i \in 1..Len(ev.batch) : ev.batch[i] \in SeqRange(linked)

(* The environment is exactly the last definition of every name.                          *)
EnvIsLatest == err = "" => \A n \in Names : env[n] = LastDef(defHist, n)

Shape ==
  /\ DOMAIN bound = UNION {{<<m.s, m.v, n>> : n \in RefsOf(m.s)} : m \in SeqRange(linked)}
  /\ SeqRange(linked) \cap SeqRange(toLink) = {}

(* Modules linked earlier keep their bindings (what the code does; not in MIR.md).        *)
OldBindingsStable == [][\A k \in DOMAIN bound : k \in DOMAIN bound' /\ bound'[k] = bound[k]]_vars

(* What a call through an import yields never changes once the import is bound: neither a later definition of the   *)
(* name nor of any name the called function calls in turn changes it (the called function keeps ITS bindings).       *)
CallValuesStable == [][\A k \in DOMAIN bound : Val(bound', bound'[k], k[3]) = Val(bound, bound[k], k[3])]_vars

(* ------------------------------ emission --------------------------------------------- *)
FinEnv == [i \in 1..Len(SetToSeq(Names)) |-> <<SetToSeq(Names)[i]>> \o DefT(env'[SetToSeq(Names)[i]])]
Emit == EmitJ([h |-> h', fin |-> FinEnv])      \* ACTION_CONSTRAINT: evaluated on every generated transition
(* simulation: only complete behaviours *)
EmitEnd == (Len(h') = Depth \/ err' # "") => EmitJ([h |-> h', fin |-> FinEnv])
=============================================================================
