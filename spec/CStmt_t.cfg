CONSTANTS
  Prods = {"ev", "break", "continue", "ret", "goto", "if1", "if2", "while", "do", "for", "switch", "seq2", "label"}
  CondSel = "small"
  SwSel = "small"
  MaxDepth = 3
  MaxToks = 6
  Labels = {1}
  Fuel = 200
  Rnd = FALSE
INIT Init
NEXT Next
INVARIANT EmitInv
