\* trace validation: constants of the model-checking part are unused here
CONSTANTS
  PageSize = 4096
  TrackFreed = FALSE
  MaxId = 0
  Sizes = {}
  MaxRegion = 0
  Lens = {}
INIT TInit
NEXT TNext
INVARIANT TraceInv
POSTCONDITION TraceAccepted
