CONSTANTS
  Depth <- DepthEnv
INIT Init
NEXT Next
VIEW View
CONSTRAINT Bound
ACTION_CONSTRAINT EmitH
INVARIANTS CodeImpliesTarget
PROPERTIES GenIdempotent NoRegress
