CONSTANTS
  MaxMods = 1
  MaxItems = 1
  MaxInsns = 0
  MinItems = 0
  MinInsns = 0
  Grid = "tiny"
  Preamble = FALSE
  Header = "free"
  NonFinite = FALSE
INIT Init
NEXT Next
ACTION_CONSTRAINT EmitModule
INVARIANTS WellFormed NFIdempotent
