CONSTANTS
  MaxMods = 1
  MaxItems = 1
  MaxInsns = 0
  MinItems = 1
  MinInsns = 0
  Grid = "tiny"
  Preamble = TRUE
  Header = "none"
  OneFree = FALSE
  NonFinite = FALSE
INIT Init
NEXT Next
ACTION_CONSTRAINT EmitModule
INVARIANTS WellFormed NFIdempotent
