CONSTANTS
  Fam = "cond"
  NM = 1
  KindSet = {"obj"}
  MaxBody = 1
  MaxInv = 1
  BodyAlpha = {"a"}
  InvAlpha = {"a"}
  VarWs = FALSE
  InvHead = TRUE
  NameScheme = 1
  MaxLines = 7
  MaxNest = 3
  CondSet = {"0", "1", "defD", "ndefD", "U", "D", "BAD", "m1", "0u", "ifdef"}
  LineSet = {"elif", "else", "endif", "def", "undef"}
  MaxD = 0
  AtomSet = {"0"}
  OpSet = {"+"}
INIT Init
NEXT Next
INVARIANT EmitInv
