------------------------------- MODULE CScope -------------------------------
(* Scopes of identifiers (C11 6.2.1p4, 6.2.3): an ordinary identifier        *)
(* declared in an inner scope (object, parameter, or another typedef name)   *)
(* hides a typedef name of an enclosing scope until the inner scope ends.    *)
(* This decides how the syntactically ambiguous                              *)
(*     (N) -x     (N) +x     sizeof (N)                                      *)
(* are read: a cast of the unary expression to type N / the size of type N   *)
(* when N denotes a typedef name, a subtraction / addition with the object   *)
(* N / the size of the object when N denotes an object.                      *)
(*                                                                           *)
(* A case: typedef TT N; at file scope and a function                        *)
(*   f([param N,] int x) { { [decl1 of N] { [decl2 of N] USE2 } USE1 } USE0 } *)
(* with exactly one USE.  decl: an object (long 40, unsigned char 200,       *)
(* char[7]) or an inner typedef (signed char).  All values fit in int/long,  *)
(* conversions to the narrow typedef types are modular (gcc, as in CExpr).   *)
EXTENDS Integers, Sequences, FiniteSets, TLC, Json, Emit, IOUtils
VARIABLES lvl, tt, par, d1, d2, pos, use, x
vars == <<lvl, tt, par, d1, d2, pos, use, x>>
Part == IF "PART" \in DOMAIN IOEnv THEN atoi(IOEnv.PART) ELSE 0
NParts == IF "NPARTS" \in DOMAIN IOEnv THEN atoi(IOEnv.NPARTS) ELSE 1

NS(n) == ToString(n)
CName(t) == CASE t = "uc" -> "unsigned char" [] t = "sc" -> "signed char" [] t = "s" -> "short" [] t = "i" -> "int" [] t = "l" -> "long"
SizeOf(t) == CASE t \in {"uc", "sc"} -> 1 [] t = "s" -> 2 [] t = "i" -> 4 [] t = "l" -> 8 [] t = "arr7" -> 7
(* modular conversion of a small integer to a type *)
Wrap(v, bits) == LET m == IF bits = 8 THEN 256 ELSE 65536  r == ((v % m) + m) % m IN r
Conv(t, v) == CASE t = "uc" -> Wrap(v, 8) [] t = "sc" -> LET r == Wrap(v, 8) IN IF r >= 128 THEN r - 256 ELSE r
                [] t = "s" -> LET r == Wrap(v, 16) IN IF r >= 32768 THEN r - 65536 ELSE r [] OTHER -> v
Promote(t) == IF t \in {"uc", "sc", "s"} THEN "i" ELSE t
Arith(t) == IF Promote(t) = "l" THEN "l" ELSE "i"              \* usual arithmetic conversions with int x
(* a declaration of N in a scope: none, object of a type with a value, or typedef *)
None == [k |-> "none", ty |-> "", v |-> 0]
Obj(t, v) == [k |-> "obj", ty |-> t, v |-> v]
Tdef(t) == [k |-> "typedef", ty |-> t, v |-> 0]
ParChoices == {None, Obj("l", 40), Obj("uc", 200)}
DeclChoices == {None, Obj("l", 41), Obj("uc", 201), Obj("arr7", 0), Tdef("sc")}
(* what N denotes at use position p (2 innermost block, 1 outer block, 0 function level) *)
Visible(p) == IF p = 2 /\ d2.k # "none" THEN d2 ELSE IF p >= 1 /\ d1.k # "none" THEN d1 ELSE IF par.k # "none" THEN par ELSE Tdef(tt)
DeclText(d) == CASE d.k = "none" -> "" [] d.k = "typedef" -> "typedef " \o CName(d.ty) \o " N@; "
                 [] d.ty = "arr7" -> "char N@[7]; N@[0] = 1; " [] OTHER -> CName(d.ty) \o " N@ = " \o NS(d.v) \o "; "
UseExpr == CASE use = "cm" -> "(N@) -x" [] use = "cp" -> "(N@) +x" [] use = "sz" -> "sizeof (N@)"
UseText(p) == IF p = pos THEN "printf(\" %s %ld\", TN(" \o UseExpr \o "), (long)(" \o UseExpr \o ")); " ELSE ""
Meaning ==
  LET d == Visible(pos) IN
  IF use = "sz" THEN [ty |-> "ul", v |-> SizeOf(d.ty)]
  ELSE IF d.k = "typedef" THEN [ty |-> d.ty, v |-> Conv(d.ty, IF use = "cm" THEN -x ELSE x)]
  ELSE [ty |-> Arith(d.ty), v |-> IF use = "cm" THEN d.v - x ELSE d.v + x]
Defined == LET d == Visible(pos) IN d.ty = "arr7" => use = "sz"            \* array - int is not this family's business
Row ==
  LET m == Meaning
      fn == "static void f@(" \o (IF par.k = "none" THEN "" ELSE CName(par.ty) \o " N@, ") \o "int x) { { " \o DeclText(d1) \o "{ " \o DeclText(d2)
            \o UseText(2) \o "} " \o UseText(1) \o "} " \o UseText(0) \o "}"
  IN [fam |-> "scope", glob |-> <<"typedef " \o CName(tt) \o " N@;", fn>>,
      body |-> <<"f@(" \o (IF par.k = "none" THEN "" ELSE NS(par.v) \o ", ") \o NS(x) \o ");">>, pr |-> <<>>,
      exp |-> <<m.ty, NS(m.v)>>, desc |-> "typedef " \o CName(tt) \o " N; " \o fn,
      sig |-> use \o ":" \o Visible(pos).k \o "_" \o Visible(pos).ty \o ":hides_typedef_" \o tt \o ":par_" \o par.k \o ":d1_" \o d1.k \o ":d2_" \o d2.k
              \o ":pos" \o NS(pos), d |-> 1]
Init == lvl = 0 /\ tt = "" /\ par = None /\ d1 = None /\ d2 = None /\ pos = 0 /\ use = "" /\ x = 0
Next == /\ lvl = 0 /\ lvl' = 1 /\ tt' \in {"uc", "s"} /\ par' \in ParChoices /\ d1' \in DeclChoices /\ d2' \in DeclChoices
        /\ pos' \in 0..2 /\ use' \in {"cm", "cp", "sz"} /\ x' \in {2, 300}
EmitInv == (lvl = 1 /\ Defined) => EmitJ(Row)
=============================================================================
