------------------------------ MODULE CSwitch ------------------------------
(* The switch statement over every integer type of the controlling          *)
(* expression (C11 6.8.4.2): the integer promotions are performed on the    *)
(* controlling expression, each case constant is converted to the promoted  *)
(* type, control jumps to the case whose value equals the controlling       *)
(* value, else to default, else past the body; without break the following  *)
(* cases are executed too.  Label sets are dense (jump tables) and sparse,  *)
(* ordered and shuffled, with negative and non-negative values, near the    *)
(* ends of the narrow types, with default first / in the middle / last /    *)
(* absent, and three break patterns.  Inputs: every case value, the values  *)
(* just outside the label range, a value in a gap, 0.                       *)
(* Body of case number k (source order): r = r * 10 + k; default: r*10+9.   *)
EXTENDS Integers, Sequences, FiniteSets, TLC, Json, Emit, IOUtils
VARIABLES lvl, ty, pat, dpos, brk
vars == <<lvl, ty, pat, dpos, brk>>
Part == IF "PART" \in DOMAIN IOEnv THEN atoi(IOEnv.PART) ELSE 0
NParts == IF "NPARTS" \in DOMAIN IOEnv THEN atoi(IOEnv.NPARTS) ELSE 1

NS(n) == IF n < 0 THEN "-" \o ToString(-n) ELSE ToString(n)
Types == {"c", "sc", "uc", "s", "us", "i", "u", "l", "ul", "ll", "ull", "en"}
CName(t) == CASE t = "c" -> "char" [] t = "sc" -> "signed char" [] t = "uc" -> "unsigned char" [] t = "s" -> "short" [] t = "us" -> "unsigned short"
              [] t = "i" -> "int" [] t = "u" -> "unsigned" [] t = "l" -> "long" [] t = "ul" -> "unsigned long" [] t = "ll" -> "long long"
              [] t = "ull" -> "unsigned long long" [] t = "en" -> "enum E@"
(* range of values used as inputs / labels for a type (all far below 2^31) *)
Lo(t) == CASE t \in {"c", "sc"} -> -128 [] t \in {"uc", "us", "u", "ul", "ull"} -> 0 [] OTHER -> -1000
Hi(t) == CASE t \in {"c", "sc"} -> 127 [] t = "uc" -> 255 [] OTHER -> 1000
InRange(t, v) == v >= Lo(t) /\ v <= Hi(t)
Patterns == {<<-3, -2, -1, 0, 1, 2>>, <<2, -2, 1, -1, 0>>, <<0, 1, 2, 3, 4, 5, 6, 7>>, <<-1, 0, 1>>, <<-3, -2, -1, 1, 2, 3>>,
             <<-100, -99, -98, -97, -96, 50>>, <<120, 121, 122, 123, 124, 125, 126, 127>>, <<-128, -127, -126, -125, -124>>,
             <<250, 251, 252, 253, 254, 255>>, <<5, 3, 1, 4, 2, 0, 6>>, <<-7, 100>>}
Values(p) == {p[k] : k \in 1..Len(p)}
Usable(t, p) == \A k \in 1..Len(p) : InRange(t, p[k])
Min(S) == CHOOSE x \in S : \A y \in S : x <= y
Max(S) == CHOOSE x \in S : \A y \in S : x >= y
Gaps(p) == {v \in Min(Values(p))..Max(Values(p)) : v \notin Values(p)}
Inputs(t, p) == {v \in Values(p) \cup {Min(Values(p)) - 1, Max(Values(p)) + 1, 0} \cup (IF Gaps(p) = {} THEN {} ELSE {Min(Gaps(p))}) : InRange(t, v)}
(* the body: items 1..n are the cases in source order; default (if any) is inserted before item dpos (dpos = n + 1: last; 0: none) *)
N == Len(pat)
Items == IF dpos = 0 THEN [k \in 1..N |-> k] ELSE [j \in 1..(N + 1) |-> IF j < dpos THEN j ELSE IF j = dpos THEN 0 ELSE j - 1]     \* 0 = default
Breaks(j) == CASE brk = "all" -> TRUE [] brk = "none" -> FALSE [] brk = "alt" -> j % 2 = 0
Digit(it) == IF it = 0 THEN 9 ELSE it
RECURSIVE Exec(_, _)
Exec(j, r) == IF j > Len(Items) THEN r ELSE LET r2 == (r * 10) + Digit(Items[j]) IN IF Breaks(j) THEN r2 ELSE Exec(j + 1, r2)
StartOf(v) == IF \E j \in 1..Len(Items) : Items[j] # 0 /\ pat[Items[j]] = v THEN CHOOSE j \in 1..Len(Items) : Items[j] # 0 /\ pat[Items[j]] = v
              ELSE IF dpos # 0 THEN dpos ELSE 0
Result(v) == LET s == StartOf(v) IN IF s = 0 THEN 0 ELSE Exec(s, 0) % 100000          \* the body keeps r below 10^5 the same way
RECURSIVE BodyText(_)
BodyText(j) == IF j > Len(Items) THEN ""
               ELSE (IF Items[j] = 0 THEN "default: " ELSE "case " \o NS(pat[Items[j]]) \o ": ") \o "r = (r * 10 + " \o NS(Digit(Items[j])) \o ") % 100000; "
                    \o (IF Breaks(j) THEN "break; " ELSE "") \o BodyText(j + 1)
SetToSortedSeq(S) == LET RECURSIVE F(_) F(T) == IF T = {} THEN <<>> ELSE <<Min(T)>> \o F(T \ {Min(T)}) IN F(S)
Row ==
  LET ins == SetToSortedSeq(Inputs(ty, pat))
      fn == "static int f@(" \o CName(ty) \o " v) { int r = 0; switch (v) { " \o BodyText(1) \o "} return r; }"
  IN [fam |-> "switch",
      glob |-> (IF ty = "en" THEN <<"enum E@ { ELO@ = -1000, EHI@ = 1000 };">> ELSE <<>>) \o <<fn, "static volatile long long in@;">>,
      body |-> <<>>,
      pr |-> [k \in 1..Len(ins) |-> <<" %d", "(in@ = " \o NS(ins[k]) \o ", f@((" \o CName(ty) \o ")in@))">>],
      exp |-> [k \in 1..Len(ins) |-> NS(Result(ins[k]))],
      desc |-> fn \o "  called with " \o NS(ins[1]) \o " .. " \o NS(ins[Len(ins)]),
      sig |-> ty \o ":n" \o NS(N) \o ":min" \o NS(Min(Values(pat))) \o ":default" \o NS(dpos) \o ":break_" \o brk, d |-> 1]
Init == lvl = 0 /\ ty = "" /\ pat = <<>> /\ dpos = 0 /\ brk = ""
Next == lvl = 0 /\ lvl' = 1 /\ ty' \in Types /\ pat' \in {p \in Patterns : Usable(ty', p)} /\ dpos' \in {0, 1, (Len(pat') \div 2) + 1, Len(pat') + 1}
        /\ brk' \in {"all", "none", "alt"}
EmitInv == lvl = 1 => EmitJ(Row)
=============================================================================
