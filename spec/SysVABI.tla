------------------------------ MODULE SysVABI ------------------------------
(* System V AMD64 psABI (v1.0, 3.2.3 "Parameter passing", 3.5.7 "Variable   *)
(* argument lists", 3.2.1/3.2.3 register usage) restricted to the types a   *)
(* MIR prototype can name (MIR.md, "MIR types", "Prototype", "MIR_CALL",    *)
(* "MIR functions: up to two integer, two float/double and two long double  *)
(* results in any combination", VA_* insns).  Written from the psABI text   *)
(* and MIR.md, NOT from mir-x86_64.c / mir-gen-x86_64.c.                    *)
(*                                                                          *)
(*  PlaceArg(st, k)  -> [locs, st]   one argument, st = [ni, nx, sp]        *)
(*  PlaceAll(ks)     -> [locs, st]   a whole argument list                  *)
(*  Al(ks)           -> [min, max]   legal values of %al for a `...` call   *)
(*  Results(ts)      -> locations of the declared results                   *)
(*  VaStart / VaArg  -> the va_list automaton of 3.5.7                      *)
(*  CalleeSaved, MxcsrControl, Preserved(before, after, nres87)             *)
(*                                                                          *)
(* An argument kind is a tagged record [t |-> type name, n |-> byte size]   *)
(* (n = 0 for scalars).  Block kinds (MIR.md: "block data with given case", *)
(* mir-x86_64.c header comment = the machine-defined promise):              *)
(*   blk0 -> class MEMORY (copied to the caller's argument area)            *)
(*   blk1 -> eightbytes of class INTEGER                                    *)
(*   blk2 -> eightbytes of class SSE                                        *)
(*   blk3 -> INTEGER, SSE        blk4 -> SSE, INTEGER                       *)
(*   each is passed in MEMORY when registers do not suffice for the WHOLE   *)
(*   aggregate (psABI: "If there are no registers available for any         *)
(*   eightbyte of an argument, the whole argument is passed on the stack.   *)
(*   If registers have already been assigned for some eightbytes of such an *)
(*   argument, the assignments get reverted.")                              *)
(*   rblk -> the address of the block, class INTEGER                        *)
EXTENDS Integers, Sequences, FiniteSets, TLC, Json, Emit

CONSTANTS B0, B1, B2, B3, B4,   \* byte sizes explored for blk0..blk4
          Depth,                \* bound on the length of the explored prefix
          SimLens,              \* simulation: prototype lengths at which a case is emitted
          MaxRes, ResAlphabet   \* result table: lists of length 0..MaxRes over ResAlphabet

VARIABLES st,      \* placement state [ni, nx, sp]
          h,       \* history: the argument kinds placed so far
          res,     \* result types of the prototype under construction
          nf       \* number of fixed arguments when the prototype has `...`, else -1

vars == <<st, h, res, nf>>

(* ------------------------------------------------------------------ types *)
IntTypes  == {"i8", "u8", "i16", "u16", "i32", "u32", "i64", "u64", "p"}
FPTypes   == {"f", "d"}
BlkTypes  == {"blk0", "blk1", "blk2", "blk3", "blk4"}
ResTypes  == IntTypes \cup FPTypes \cup {"ld"}

K(t, n) == [t |-> t, n |-> n]

(* number of value bits that the prototype type defines *)
Bits(t) == CASE t \in {"i8", "u8"} -> 8
             [] t \in {"i16", "u16"} -> 16
             [] t \in {"i32", "u32", "f"} -> 32
             [] t = "ld" -> 80
             [] OTHER -> 64
Signed(t) == t \in {"i8", "i16", "i32", "i64"}

(* size in bytes of the object passed *)
Size(k) == CASE k.t \in BlkTypes -> k.n
             [] k.t = "ld" -> 16
             [] OTHER -> 8                  \* every scalar occupies one eightbyte when passed
RoundUp(x, a) == ((x + a - 1) \div a) * a
NEight(k) == RoundUp(Size(k), 8) \div 8

(* psABI 3.2.3 classification: sequence of eightbyte classes, <<>> = class MEMORY *)
Classes(k) ==
  CASE k.t \in IntTypes \cup {"rblk"} -> <<"INTEGER">>
    [] k.t \in FPTypes -> <<"SSE">>
    [] k.t = "ld" -> <<>>                  \* X87, X87UP: "passed in memory"
    [] k.t = "blk0" -> <<>>
    [] k.t = "blk1" -> IF k.n <= 8 THEN <<"INTEGER">> ELSE <<"INTEGER", "INTEGER">>
    [] k.t = "blk2" -> IF k.n <= 8 THEN <<"SSE">> ELSE <<"SSE", "SSE">>
    [] k.t = "blk3" -> <<"INTEGER", "SSE">>
    [] k.t = "blk4" -> <<"SSE", "INTEGER">>

(* kinds for which MIR defines a meaning (blk1..4 are at most two eightbytes; blk3/4 exactly two) *)
WellFormed(k) ==
  CASE k.t \in {"blk1", "blk2"} -> k.n >= 1 /\ k.n <= 16
    [] k.t \in {"blk3", "blk4"} -> k.n >= 9 /\ k.n <= 16
    [] k.t = "blk0" -> k.n >= 1
    [] OTHER -> TRUE

Align(k) == IF k.t = "ld" THEN 16 ELSE 8     \* alignment of a MEMORY class argument on the stack

Count(seq, c) == Cardinality({i \in 1..Len(seq) : seq[i] = c})
(* number of eightbytes of class c among the first j-1 *)
Before(seq, j, c) == Cardinality({i \in 1..(j - 1) : seq[i] = c})

GPR == <<"rdi", "rsi", "rdx", "rcx", "r8", "r9">>
Loc(c, i) == [c |-> c, i |-> i]              \* c in {"gpr","xmm","stk"}; i = register index / byte offset from
                                             \* the first stack argument ((rsp+8) at callee entry)

St0 == [ni |-> 0, nx |-> 0, sp |-> 0]

PlaceArg(s, k) ==
  LET cl == Classes(k)
      inRegs == cl # <<>> /\ s.ni + Count(cl, "INTEGER") <= 6 /\ s.nx + Count(cl, "SSE") <= 8
      off == RoundUp(s.sp, Align(k))
  IN IF inRegs
     THEN [locs |-> [j \in 1..Len(cl) |->
                       IF cl[j] = "INTEGER" THEN Loc("gpr", s.ni + Before(cl, j, "INTEGER"))
                                            ELSE Loc("xmm", s.nx + Before(cl, j, "SSE"))],
           st |-> [ni |-> s.ni + Count(cl, "INTEGER"), nx |-> s.nx + Count(cl, "SSE"), sp |-> s.sp]]
     ELSE [locs |-> [j \in 1..NEight(k) |-> Loc("stk", off + 8 * (j - 1))],
           st |-> [s EXCEPT !.sp = off + 8 * NEight(k)]]

RECURSIVE PlaceFrom(_, _)
PlaceFrom(s, ks) ==
  IF ks = <<>> THEN [locs |-> <<>>, st |-> s]
  ELSE LET a == PlaceArg(s, Head(ks))
           r == PlaceFrom(a.st, Tail(ks))
       IN [locs |-> <<a.locs>> \o r.locs, st |-> r.st]
PlaceAll(ks) == PlaceFrom(St0, ks)

(* %al for a call through a prototype with `...` (psABI 3.5.7 / 3.2.3: "%al ... upper bound on the   *)
(* number of vector registers used", in 0..8)                                                        *)
Al(ks) == [min |-> PlaceAll(ks).st.nx, max |-> 8]

(* bytes of outgoing argument area; the stack pointer is 16-byte aligned at the call instruction      *)
ArgArea(ks) == PlaceAll(ks).st.sp
StackAlign == 16

(* ---------------------------------------------------------------- results *)
(* MIR.md: "two integer values, two float or double values, and two long double values in any          *)
(* combination"; the i-th result of a class goes to the i-th register of the class (psABI 3.2.3         *)
(* "Returning of values": rax,rdx / xmm0,xmm1 / st0,st1)                                               *)
ResClass(t) == IF t \in IntTypes THEN "int" ELSE IF t \in FPTypes THEN "sse" ELSE "x87"
ResRegs == [int |-> <<"rax", "rdx">>, sse |-> <<"xmm0", "xmm1">>, x87 |-> <<"st0", "st1">>]
ResLegal(ts) == \A c \in {"int", "sse", "x87"} : Cardinality({i \in 1..Len(ts) : ResClass(ts[i]) = c}) <= 2
Results(ts) ==
  [i \in 1..Len(ts) |->
     [t |-> ts[i], bits |-> Bits(ts[i]), sg |-> Signed(ts[i]),
      reg |-> ResRegs[ResClass(ts[i])][1 + Cardinality({j \in 1..(i - 1) : ResClass(ts[j]) = ResClass(ts[i])})]]]

(* ---------------------------------------------------------------- va_list *)
(* psABI 3.5.7: the register save area holds rdi,rsi,rdx,rcx,r8,r9 at 0..40 and xmm0..7 at 48..160.  *)
VaStart(fixed) == LET s == PlaceAll(fixed).st
                  IN [gp |-> 8 * s.ni, fp |-> 48 + 16 * s.nx, ov |-> s.sp]
VaArg(va, k) ==
  LET cl == Classes(k)
      ng == Count(cl, "INTEGER")
      nx == Count(cl, "SSE")
      inRegs == cl # <<>> /\ va.gp + 8 * ng <= 48 /\ va.fp + 16 * nx <= 176
      off == RoundUp(va.ov, Align(k))
  IN IF inRegs
     THEN [locs |-> [j \in 1..Len(cl) |->
                       IF cl[j] = "INTEGER" THEN Loc("gpr", va.gp \div 8 + Before(cl, j, "INTEGER"))
                                            ELSE Loc("xmm", (va.fp - 48) \div 16 + Before(cl, j, "SSE"))],
           va |-> [gp |-> va.gp + 8 * ng, fp |-> va.fp + 16 * nx, ov |-> va.ov]]
     ELSE [locs |-> [j \in 1..NEight(k) |-> Loc("stk", off + 8 * (j - 1))],
           va |-> [va EXCEPT !.ov = off + 8 * NEight(k)]]
RECURSIVE VaAll(_, _)
VaAll(va, ks) == IF ks = <<>> THEN <<>>
                 ELSE LET a == VaArg(va, Head(ks)) IN <<a.locs>> \o VaAll(a.va, Tail(ks))

(* what MIR lets a variadic tail contain (call operands beyond the prototype: 64-bit integers, doubles,   *)
(* long doubles and block memory operands; floats are rejected)                                           *)
TailLegal(k) == k.t \in {"i64", "d", "ld"} \cup BlkTypes

(* --------------------------------------------------- callee-preserved state *)
CalleeSavedSeq == <<"rbx", "rbp", "r12", "r13", "r14", "r15">>      \* psABI figure 3.4 ("preserved across function calls")
CalleeSaved == {CalleeSavedSeq[k] : k \in 1..6}                    \* plus rsp
MxcsrControl(v) == v \div 64      \* bits 6..15 of MXCSR (DAZ, exception masks, RC, FTZ) are callee-saved; bits 0..5 (status) are not
X87CWPreserved == TRUE            \* the x87 control word is callee-saved
DFClear == TRUE                   \* DF = 0 on entry and on return
X87EmptyOnEntry == TRUE           \* the x87 register stack is empty on entry, and on return except for st0/st1 results
(* machine state m = [cs (values of CalleeSavedSeq), rsp, mxcsr, cw, df, x87n]: what a callee must hand back, given *)
(* the number nres87 of its long double results                                                                  *)
Preserved(before, after, nres87) ==
  /\ after.cs = before.cs /\ after.rsp = before.rsp
  /\ MxcsrControl(after.mxcsr) = MxcsrControl(before.mxcsr) /\ after.cw = before.cw
  /\ after.df = 0 /\ after.x87n = nres87

(* ------------------------------------------------------------- case record *)
ArgRec(k, locs) == [t |-> k.t, n |-> k.n, bits |-> Bits(k.t), sg |-> Signed(k.t), bytes |-> Size(k), locs |-> locs]
Case(ks, rs, nfix, tag) ==
  LET p == PlaceAll(ks)
      fixed == IF nfix < 0 THEN ks ELSE SubSeq(ks, 1, nfix)
      tail == IF nfix < 0 THEN <<>> ELSE SubSeq(ks, nfix + 1, Len(ks))
  IN [tag |-> tag,
      args |-> [i \in 1..Len(ks) |-> ArgRec(ks[i], p.locs[i])],
      gpr |-> GPR,
      nfix |-> nfix,
      ni |-> p.st.ni, nx |-> p.st.nx, stack |-> p.st.sp,
      almin |-> Al(ks).min, almax |-> Al(ks).max,
      res |-> Results(rs),
      va |-> VaStart(fixed),
      valocs |-> VaAll(VaStart(fixed), tail)]

(* ------------------------------------------------------------ exploration *)
ScalarKinds == {K(t, 0) : t \in IntTypes \cup FPTypes \cup {"ld"}} \cup {K("rblk", 8)}
BlkKinds == {K("blk0", n) : n \in B0} \cup {K("blk1", n) : n \in B1} \cup {K("blk2", n) : n \in B2}
            \cup {K("blk3", n) : n \in B3} \cup {K("blk4", n) : n \in B4}
Kinds == {k \in ScalarKinds \cup BlkKinds : WellFormed(k)}
TailKinds == {k \in Kinds : TailLegal(k)}

(* a fixed suffix that exhausts both register files and then spills an argument of every 8-byte stack shape *)
(* (the 16-byte aligned shape, ld, is the subject of the ld edges out of both stack parities)               *)
Suffix == <<K("i64", 0), K("d", 0), K("i32", 0), K("f", 0), K("p", 0), K("d", 0), K("u8", 0), K("d", 0),
            K("i64", 0), K("f", 0), K("u16", 0), K("d", 0), K("d", 0), K("d", 0), K("d", 0),
            K("i16", 0), K("f", 0), K("u32", 0), K("d", 0), K("i8", 0)>>
TailSuffix == <<K("i64", 0), K("d", 0), K("i64", 0), K("d", 0), K("i64", 0), K("d", 0), K("i64", 0), K("d", 0),
                K("i64", 0), K("d", 0), K("i64", 0), K("d", 0), K("d", 0), K("d", 0), K("d", 0),
                K("i64", 0), K("d", 0), K("i64", 0)>>

Init == st = St0 /\ h = <<>> /\ res = <<>> /\ nf = -1
Step(k) == /\ st' = PlaceArg(st, k).st
           /\ h' = Append(h, k)
           /\ UNCHANGED <<res, nf>>
Next == \E k \in Kinds : Step(k)

View == <<st.ni, st.nx, st.sp % 16>>
Bound == Len(h) <= Depth

(* every transition of the placement graph: the prototype reaching it, plus (when the new argument may   *)
(* be variadic) the same argument list with `...` put in front of the new argument                      *)
EmitEdge ==
  LET k == h'[Len(h')]
      edge == [ni |-> st.ni, nx |-> st.nx, par |-> st.sp % 16, t |-> k.t, n |-> k.n]
  IN /\ EmitJ([edge |-> edge] @@ Case(h' \o Suffix, <<>>, -1, "edge"))
     /\ (TailLegal(k) => EmitJ([edge |-> edge] @@ Case(h' \o TailSuffix, <<>>, Len(h), "vedge")))

(* ----------------------------------------------------------------- results *)
(* function table over every legal result list of length 0..MaxRes *)
RECURSIVE SeqsUpTo(_, _)
SeqsUpTo(S, n) == IF n = 0 THEN {<<>>}
                  ELSE LET r == SeqsUpTo(S, n - 1) IN r \cup {Append(s, x) : s \in {q \in r : Len(q) = n - 1}, x \in S}
ResArgs == <<K("i32", 0), K("d", 0), K("p", 0)>>
InitRes == st = St0 /\ h = <<>> /\ nf = -1 /\ res \in {r \in SeqsUpTo(ResAlphabet, MaxRes) : ResLegal(r)}
NextRes == st = St0 /\ st' = PlaceAll(ResArgs).st /\ h' = ResArgs /\ UNCHANGED <<res, nf>>
EmitRes == EmitJ(Case(h', res, -1, "res"))

(* ------------------------------------------- properties of the spec itself *)
(* 1. register files are never over-committed, stack offsets are aligned and strictly increasing *)
Shape ==
  LET p == PlaceAll(h)
  IN /\ p.st = st
     /\ st.ni \in 0..6 /\ st.nx \in 0..8 /\ st.sp % 8 = 0
     /\ \A i \in 1..Len(h) : \A j \in 1..Len(p.locs[i]) :
          LET l == p.locs[i][j]
          IN /\ (l.c = "gpr" => l.i \in 0..5) /\ (l.c = "xmm" => l.i \in 0..7)
             /\ (l.c = "stk" => l.i % 8 = 0 /\ l.i + 8 <= st.sp)
             /\ (h[i].t = "ld" => l.c = "stk" /\ p.locs[i][1].i % 16 = 0)
             /\ (j > 1 /\ l.c = "stk" => p.locs[i][j - 1].c = "stk" /\ p.locs[i][j - 1].i + 8 = l.i)
(* 2. no two eightbytes share a location *)
Disjoint ==
  LET p == PlaceAll(h)
  IN \A a \in 1..Len(h), b \in 1..Len(h) : \A x \in 1..Len(p.locs[a]), y \in 1..Len(p.locs[b]) :
        (a # b \/ x # y) => p.locs[a][x] # p.locs[b][y]
(* 3. an aggregate is never split between registers and memory *)
Whole ==
  LET p == PlaceAll(h)
  IN \A i \in 1..Len(h) : (\E j \in 1..Len(p.locs[i]) : p.locs[i][j].c = "stk") =>
                            (\A j \in 1..Len(p.locs[i]) : p.locs[i][j].c = "stk")
(* 4. va_arg reads exactly what a caller following PlaceArg wrote, for every split point *)
VaReadsPlacement ==
  \A n \in 0..Len(h) :
     (\A i \in (n + 1)..Len(h) : TailLegal(h[i])) =>
        VaAll(VaStart(SubSeq(h, 1, n)), SubSeq(h, n + 1, Len(h))) = SubSeq(PlaceAll(h).locs, n + 1, Len(h))

(* -------------------------------------------------------------- simulation *)
(* long random prototypes: random results, random position of `...`                                      *)
SimRes == {<<>>, <<"i64">>, <<"i8">>, <<"u16">>, <<"i32">>, <<"u32">>, <<"f">>, <<"d">>, <<"ld">>, <<"p">>,
           <<"i64", "i64">>, <<"d", "d">>, <<"i64", "d">>, <<"d", "i64">>, <<"ld", "ld">>, <<"f", "i16", "ld">>,
           <<"u8", "d", "i32", "f">>, <<"ld", "i64", "ld", "d">>, <<"i32", "u32", "f", "f">>,
           <<"ld", "d", "i64", "ld", "f", "p">>}
InitSim == st = St0 /\ h = <<>> /\ res \in SimRes /\ nf \in -1..16
(* the case is emitted from the state the simulator has chosen (an ACTION_CONSTRAINT would be evaluated on  *)
(* every candidate successor), before the next argument is drawn                                          *)
EmitSim == (Len(h) \in SimLens) => /\ Assert(Shape /\ Disjoint /\ Whole /\ VaReadsPlacement, "spec property fails on a simulated prototype")
                                    /\ EmitJ(Case(h, res, IF nf > Len(h) THEN -1 ELSE nf, "sim"))
NextSim == /\ EmitSim
           /\ \E k \in (IF nf >= 0 /\ Len(h) >= nf THEN TailKinds ELSE Kinds) : Step(k)

=============================================================================
