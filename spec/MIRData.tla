------------------------------- MODULE MIRData -------------------------------
(* Layout and contents of loaded data items (MIR.md "MIR_load_module": sections; property C14).       *)
(*                                                                                                      *)
(* An item sequence is the list of items of a module in declaration order.  Layout maps it to          *)
(* sections (head, members, size) and gives every item its (section, offset, length); Contents gives   *)
(* the bytes every item must hold after load + link:                                                   *)
(*   data   the declared bytes                      bss   zeros                                        *)
(*   ref    Addr(target) + disp, 8 bytes            expr  the value of the expression function         *)
(*   lref   A(l1) + disp  or  A(l1) - A(l2) + disp  once the function of the labels is prepared        *)
(* Addr and A are uninterpreted: the harness resolves Addr(item j) through this layout (section head   *)
(* address + offset), Addr of imports/functions through the public item field, and A(l) through        *)
(* one-label references it adds itself; the comparison is relational, never numeric.                   *)
(*                                                                                                      *)
(* TLC enumerates every item sequence over an alphabet up to a length (a plan = several such stages)   *)
(* and emits it with the expected layout and contents; harness/c14_data.c builds it through the API.   *)
(* Sequences with string items are emitted in two forms: "api" (MIR_new_string_data: exactly the       *)
(* str.len declared bytes) and "text" (the module is printed as MIR text and read by MIR_scan_string:  *)
(* `string "..."` holds the characters and a terminating zero).                                        *)
(* Named deviation DevTextStringTerminator: the scanner adds no terminating zero when the string is    *)
(* empty or its last character already is a zero (MIR.md is silent); the text form follows the code.   *)
EXTENDS Integers, Sequences, FiniteSets, TLC, Json, Emit, IOUtils

CONSTANTS Plan        \* sequence of stages [alpha, maxLen, minEmit]; alpha is a set of items

VARIABLES stage, items
vars == <<stage, items>>

(* ------------------------------ items ------------------------------------------------------------ *)
(* k: "data" "bss" "ref" "lref" "expr" "str" "proto";  nm: named;  t: element / result type;  n: number *)
(* of elements (data), length (bss) or index into StrPayloads (str);  tg: ref target;  d: displacement;  l1, l2: labels (l2 = 0: none)   *)
It(k, nm, t, n, tg, d, l1, l2) == [k |-> k, nm |-> nm, t |-> t, n |-> n, tg |-> tg, d |-> d, l1 |-> l1, l2 |-> l2, via |-> ""]
Types == {"i8", "u8", "i16", "u16", "i32", "u32", "i64", "u64", "f", "d", "ld", "p"}
TSize(t) == CASE t \in {"i8", "u8"} -> 1 [] t \in {"i16", "u16"} -> 2 [] t \in {"i32", "u32", "f"} -> 4
              [] t \in {"i64", "u64", "d", "p"} -> 8 [] t = "ld" -> 16
PtrSize == 8

Data(ts, ns) == {It("data", nm, t, n, "", 0, 0, 0) : nm \in BOOLEAN, t \in ts, n \in ns}
Bss(ns) == {It("bss", nm, "", n, "", 0, 0, 0) : nm \in BOOLEAN, n \in ns}
(* ref targets: prev / next = the neighbouring item of the sequence (next through a forward declaration, so it   *)
(* must be named), ext = an import bound by MIR_load_external, mod = an import bound to a data item exported by  *)
(* a module loaded before, func = a function of the module                                                       *)
Ref(tds) == {It("ref", nm, "", 0, td[1], td[2], 0, 0) : nm \in BOOLEAN, td \in tds}
(* how the (named) neighbour a ref points to is declared before the ref and which declaration the ref goes through:   *)
(*   ""         prev: the definition itself (it comes first); next: `forward x` only, through the forward item          *)
(*   "fwd_exp"  `forward x` then `export x`, through the forward item     "exp_fwd"  `export x` then `forward x`, same *)
(*   "exp"      `export x` only, through the export item                                                               *)
(* the declarations stand at the start of the module, the definition x: ... at its place in the sequence               *)
RefVia(tdvs) == {[It("ref", nm, "", 0, td[1], td[2], 0, 0) EXCEPT !.via = td[3]] : nm \in BOOLEAN, td \in tdvs}
LRef(ls) == {It("lref", nm, "", 0, "", l[3], l[1], l[2]) : nm \in BOOLEAN, l \in ls}
Expr(ts) == {It("expr", nm, t, 0, "", 0, 0, 0) : nm \in BOOLEAN, t \in ts}
Proto == It("proto", TRUE, "", 0, "", 0, 0, 0)         \* any non-data item ends a section
(* string data: declared characters; zeros at the start, in the middle, at the end; every byte value once *)
StrPayloads == << <<>>, <<0>>, <<120>>, <<0, 98, 99>>, <<97, 0, 99>>, <<97, 98, 0>>,
                  <<97, 98, 0, 99, 100>>, <<0, 0, 97, 0, 0>>, <<97, 98, 99, 100, 0>>, [j \in 1..256 |-> j - 1] >>
Str(ids, nms) == {It("str", nm, "", n, "", 0, 0, 0) : nm \in nms, n \in ids}

RefViaAll == RefVia({<<"next", 5, "fwd_exp">>, <<"next", -3, "exp">>, <<"next", 0, "exp_fwd">>, <<"prev", 5, "exp">>, <<"prev", 0, "fwd_exp">>})
AlphaFull ==
  Data(Types, {0, 1, 3}) \cup Bss({0, 1, 9})
  \cup Ref({<<"prev", 0>>, <<"prev", 5>>, <<"next", 0>>, <<"next", -3>>, <<"ext", 5>>, <<"mod", -3>>, <<"func", 0>>, <<"func", 5>>})
  \cup RefViaAll
  \cup LRef({<<1, 0, 0>>, <<2, 0, 7>>, <<3, 1, 0>>, <<1, 2, -4>>})
  \cup Expr({"i8", "i16", "i32", "i64", "f", "d", "ld"}) \cup {Proto}
  \cup Str(1..9, BOOLEAN) \cup Str({10}, {TRUE})
AlphaWide ==      \* every element type once, the three lengths for three sizes, everything else as in AlphaFull
  ((Data(Types, {1}) \cup Data({"i8", "i16", "ld"}, {0, 3}) \cup (AlphaFull \ (Data(Types, {0, 1, 3}) \cup Str(1..10, BOOLEAN)))
    \cup Str({1, 7}, BOOLEAN)) \ {r \in RefViaAll : r.nm \/ r.via = "exp_fwd"})
AlphaMid ==
  {It("data", nm, t, n, "", 0, 0, 0) : nm \in BOOLEAN, t \in {"i8"}, n \in {1}}
  \cup {It("data", nm, "i16", 3, "", 0, 0, 0) : nm \in BOOLEAN} \cup {It("data", nm, "i64", 0, "", 0, 0, 0) : nm \in BOOLEAN}
  \cup {It("data", nm, "ld", 1, "", 0, 0, 0) : nm \in BOOLEAN}
  \cup Bss({0, 9}) \cup Ref({<<"prev", 5>>, <<"next", 0>>}) \cup LRef({<<2, 1, 7>>}) \cup Expr({"i32"}) \cup {Proto}
  \cup {[It("ref", FALSE, "", 0, "next", 5, 0, 0) EXCEPT !.via = "fwd_exp"]}
  \cup Str({5}, {FALSE})
AlphaSmall ==
  {It("data", nm, "i8", 3, "", 0, 0, 0) : nm \in BOOLEAN} \cup {It("bss", nm, "", 1, "", 0, 0, 0) : nm \in BOOLEAN}
  \cup {It("ref", FALSE, "", 0, "next", 0, 0, 0), It("ref", TRUE, "", 0, "prev", -3, 0, 0)}
  \cup {It("expr", FALSE, "i16", 0, "", 0, 0, 0), It("lref", FALSE, "", 0, "", 0, 3, 0)} \cup {Proto}
  \cup Str({7}, {FALSE})

Stage(a, mx, mn) == [alpha |-> a, maxLen |-> mx, minEmit |-> mn]
PlanQuick == <<Stage(AlphaFull, 2, 1), Stage(AlphaMid, 3, 3)>>
PlanWide3 == <<Stage(AlphaWide, 3, 3)>>
PlanDeep == <<Stage(AlphaMid, 4, 4), Stage(AlphaSmall, 5, 4)>>

(* ------------------------------ layout ------------------------------------------------------------ *)
(* f is the form: "api" or "text" (only the length of string items depends on it)                        *)
IsData(it) == it.k # "proto"
StrBytes(it, f) == LET pl == StrPayloads[it.n] IN
                   IF f = "text" /\ Len(pl) > 0 /\ pl[Len(pl)] # 0 THEN Append(pl, 0) ELSE pl   \* DevTextStringTerminator
ItemLen(it, f) == CASE it.k = "data" -> it.n * TSize(it.t) [] it.k = "bss" -> it.n [] it.k \in {"ref", "lref"} -> PtrSize
                    [] it.k = "expr" -> TSize(it.t) [] it.k = "str" -> Len(StrBytes(it, f)) [] OTHER -> 0
(* item i starts a section: a data-like item that is the first one, or named, or preceded by a non-data item *)
Starts(s, i) == IsData(s[i]) /\ (i = 1 \/ s[i].nm \/ ~IsData(s[i - 1]))
Max(S) == CHOOSE x \in S : \A y \in S : y <= x
SecHead(s, i) == IF IsData(s[i]) THEN Max({j \in 1..i : Starts(s, j)}) ELSE 0
RECURSIVE SumLen(_, _, _, _)
SumLen(s, lo, hi, f) == IF lo > hi THEN 0 ELSE ItemLen(s[lo], f) + SumLen(s, lo + 1, hi, f)
Off(s, i, f) == IF IsData(s[i]) THEN SumLen(s, SecHead(s, i), i - 1, f) ELSE 0
Members(s, h) == {i \in 1..Len(s) : SecHead(s, i) = h}
SecSize(s, h, f) == SumLen(s, h, Max(Members(s, h)), f)           \* members are consecutive
Heads(s) == {i \in 1..Len(s) : Starts(s, i)}
Layout(s, f) == [i \in 1..Len(s) |-> <<SecHead(s, i), Off(s, i, f), ItemLen(s[i], f)>>]

(* ------------------------------ contents ----------------------------------------------------------- *)
Payload(i, len) == [j \in 1..len |-> (i * 37 + j * 11 + 5) % 256]      \* the declared bytes of data item i
ExprBytes(t) ==                                                          \* value of the expression function of type t
  CASE t = "i8" -> <<165>>                                                \* -91
    [] t = "i16" -> <<52, 178>>                                           \* 0xB234 = -19916
    [] t = "i32" -> <<239, 205, 171, 137>>                                \* 0x89ABCDEF
    [] t = "i64" -> <<136, 119, 102, 85, 68, 51, 34, 17>>                 \* 0x1122334455667788
    [] t = "f" -> <<0, 0, 192, 63>>                                       \* 1.5f
    [] t = "d" -> <<0, 0, 0, 0, 0, 0, 2, 192>>                            \* -2.25
    [] t = "ld" -> <<0, 0, 0, 0, 0, 0, 0, 192, 255, 63>>                  \* 1.5L: the 10 value bytes of the x87 format
(* expected contents of item i: <<"b", bytes>>, <<"z">>, <<"r", kind, index, disp>>, <<"l", l1, l2, disp>>, <<"p">> *)
Target(s, i) == CASE s[i].tg = "prev" -> <<"item", i - 1>> [] s[i].tg = "next" -> <<"item", i + 1>> [] OTHER -> <<s[i].tg, 0>>
Contents(s, i, f) ==
  CASE s[i].k = "data" -> <<"b", Payload(i, ItemLen(s[i], f))>>
    [] s[i].k = "str" -> <<"b", StrBytes(s[i], f)>>
    [] s[i].k = "bss" -> <<"z">>
    [] s[i].k = "ref" -> <<"r", Target(s, i)[1], Target(s, i)[2], s[i].d>>
    [] s[i].k = "expr" -> <<"b", ExprBytes(s[i].t)>>
    [] s[i].k = "lref" -> <<"l", s[i].l1, s[i].l2, s[i].d>>
    [] OTHER -> <<"p">>
(* the bytes a string item is declared with (API: str.s/str.len; text: the characters between the quotes) *)
Declared(s, i) == IF s[i].k = "str" THEN StrPayloads[s[i].n] ELSE <<>>

(* Every named data-like item is exported (`export x` after the sequence).  A module loaded afterwards that      *)
(* imports x sees it at Addr(x) = the address of the named item, i.e. the START of the section x heads: the      *)
(* harness gives that module `ref x, 3` items and compares them with Addr(x) + 3 of this layout.                 *)
Visible(s, i) == IsData(s[i]) /\ s[i].nm

WF(s) == \A i \in 1..Len(s) :
  /\ (s[i].k = "ref" /\ s[i].tg = "prev") => i > 1 /\ IsData(s[i - 1])
  /\ (s[i].k = "ref" /\ s[i].tg = "next") => i < Len(s) /\ IsData(s[i + 1]) /\ s[i + 1].nm
  /\ (s[i].k = "ref" /\ s[i].tg = "prev" /\ s[i].via # "") => s[i - 1].nm      \* declarations need a name
HasStr(s) == \E i \in 1..Len(s) : s[i].k = "str"

(* ------------------------------ model properties (checked on every emitted sequence) -------------- *)
(* sections are consecutive runs, partition the data-like items, offsets are gap-free and in order      *)
LayoutSaneF(s, f) ==
  /\ \A i \in 1..Len(s) : IsData(s[i]) =>
       /\ SecHead(s, i) \in Heads(s) /\ SecHead(s, i) <= i
       /\ \A j \in SecHead(s, i)..i : IsData(s[j]) /\ SecHead(s, j) = SecHead(s, i)
       /\ (i > SecHead(s, i) => ~s[i].nm /\ Off(s, i, f) = Off(s, i - 1, f) + ItemLen(s[i - 1], f))
       /\ Off(s, i, f) + ItemLen(s[i], f) <= SecSize(s, SecHead(s, i), f)
  /\ \A h \in Heads(s) : Off(s, h, f) = 0 /\ (h > 1 /\ IsData(s[h - 1]) => s[h].nm)
LayoutSane == LayoutSaneF(items, "api") /\ LayoutSaneF(items, "text")

(* ------------------------------ enumeration -------------------------------------------------------- *)
Part == IF "PART" \in DOMAIN IOEnv THEN atoi(IOEnv.PART) ELSE 0
NParts == IF "NPARTS" \in DOMAIN IOEnv THEN atoi(IOEnv.NPARTS) ELSE 1
KindNo(it) == CASE it.k = "data" -> 0 [] it.k = "bss" -> 1 [] it.k = "ref" -> 2 [] it.k = "lref" -> 3 [] it.k = "expr" -> 4 [] it.k = "str" -> 6 [] OTHER -> 5
Key(it) == ItemLen(it, "api") * 7 + (IF it.nm THEN 3 ELSE 0) + it.d + 16 + it.l1 * 5 + it.n + KindNo(it) * 13
InPart(s) == Part = 0 \/ Len(s) = 0 \/ (Key(s[1]) % NParts) + 1 = Part

Init == stage \in 1..Len(Plan) /\ items = <<>>
Next == /\ Len(items) < Plan[stage].maxLen
        /\ \E it \in Plan[stage].alpha : items' = Append(items, it)
        /\ InPart(items')
        /\ UNCHANGED stage

ItemT(it) == <<it.k, IF it.nm THEN 1 ELSE 0, it.t, it.n, it.tg, it.d, it.l1, it.l2, it.via>>
Case(s, f) == [form |-> f,
               it |-> [i \in 1..Len(s) |-> ItemT(s[i])],
               lay |-> Layout(s, f),
               secs |-> [i \in 1..Len(s) |-> IF Starts(s, i) THEN <<SecSize(s, i, f), Cardinality(Members(s, i))>> ELSE <<>>],
               exp |-> [i \in 1..Len(s) |-> Contents(s, i, f)],
               decl |-> [i \in 1..Len(s) |-> Declared(s, i)],
               xp |-> [i \in 1..Len(s) |-> IF Visible(s, i) THEN 1 ELSE 0]]
Emit == (Len(items') >= Plan[stage].minEmit /\ WF(items')) =>
          /\ EmitJ(Case(items', "api"))
          /\ (HasStr(items') => EmitJ(Case(items', "text")))
=============================================================================
