CONSTANTS
  U = {0, 63, 64, 128}
  MaxLen = 3
  Ranges <- RangesThorough
  TailChecked = TRUE
INIT Init
NEXT Next
ACTION_CONSTRAINT Emit
INVARIANTS Canon
PROPERTIES ChangedExact SourcesIntact
