CONSTANTS
  Fam = "lex"
  NM = 1
  KindSet = {"plain", "arg", "str", "xstr", "catl", "catr", "cate"}
  MaxBody = 3
  MaxInv = 8
  BodyAlpha = {"x", "y", "V", "#x", "#y", "#V", "#", "##", "f", "a", "1"}
  InvAlpha = {"0x", "0", "1", "5", ".", "e", "E", "p", "P", "x", "a", "+", "-", "X", " "}
  VarWs = FALSE
  InvHead = TRUE
  InvBal = TRUE
  NameScheme = 1
  MaxLines = 1
  MaxNest = 1
  CondSet = {"0"}
  LineSet = {"endif"}
  MaxD = 0
  AtomSet = {"0"}
  GapSet = {"sp"}
  OpSet = {"+"}
INIT Init
NEXT Next
INVARIANT EmitInv
