----------------------------- MODULE MIRThreads -----------------------------
(* C18: independent MIR contexts used from different threads.               *)
(*                                                                          *)
(* N threads; each is a sequential program of phases on its OWN context:    *)
(*   init     MIR_init                                                      *)
(*   build    MIR_scan_string of its program   (src "mir")                  *)
(*            or c2mir_init/c2mir_compile/c2mir_finish of its C function    *)
(*            (src "c")                                                     *)
(*   link     MIR_load_module, MIR_load_external, MIR_link (interpreter)    *)
(*   geninit  MIR_gen_init, MIR_gen_set_optimize_level (level)              *)
(*   gen      MIR_gen of every function                                     *)
(*   call     call of the entry through its public address                  *)
(*   interp   MIR_interp of the entry                                       *)
(*   genfin   MIR_gen_finish                                                *)
(*   finish   MIR_finish                                                    *)
(* (generation precedes interpretation: see harness/c18_threads.c).         *)
(*                                                                          *)
(* The central modelling assumption is explicit: a context is private to    *)
(* its thread (ctxst[t] is touched only by t), and the ONLY objects two     *)
(* threads can both touch are the members of Globals, the inventory of the  *)
(* library's process-wide writable objects (.data/.bss symbols of the       *)
(* built objects, function-local statics included).  Each global has a      *)
(* class that says in which phases it is read or written.  The binding      *)
(* (harness/py/c18.py) compares this inventory with the symbols of the      *)
(* freshly built objects, executes the schedules below under                *)
(* ThreadSanitizer, and checks per-thread results.                          *)
(*                                                                          *)
(* Schedule generator: a schedule is a sequence of steps; a step is a       *)
(* non-empty set of threads that run their next phase truly concurrently    *)
(* (Begin(S) ... End), steps are separated by barriers.  TLC explores the   *)
(* graph over progress vectors; every transition, i.e. every antichain of   *)
(* (thread, phase) pairs at every reachable progress vector, is emitted     *)
(* with a shortest schedule prefix leading to it (history h hidden by VIEW).*)
EXTENDS Integers, Sequences, FiniteSets, TLC, Json, Emit

CONSTANTS N,          \* number of threads
          SrcVecs,    \* allowed assignments Threads -> {"mir","c"} (what `build` does)
          Globals,    \* inventory: set of records [obj, sym, cls]
          Depth       \* bound on the number of steps of a schedule

Threads == 1..N
Prog == <<"init", "build", "link", "geninit", "gen", "call", "interp", "genfin", "finish">>
NPh == Len(Prog)

(* ------------------------------------------------------------------------ *)
(* Classes of process-wide writable objects and the accesses they imply.    *)
(*  never-written      declared without const, but no store exists: every   *)
(*                     phase may read it                                    *)
(*  address-only       only its address is used (a sentinel): no access     *)
(*  rewritten-ctx-init every MIR_init stores (identical) values; read by    *)
(*                     the interpreter                                      *)
(*  rewritten-gen-init every MIR_gen_init stores (identical) values; read   *)
(*                     by MIR_gen                                           *)
(*  lazy-once          written by the first c2mir compilation that needs    *)
(*                     it (unsynchronised test-and-set), read afterwards    *)
(*  once-guarded       initialised under pthread_once / before any thread   *)
(*                     starts, read-only afterwards                          *)
(*  per-call-scratch   a static buffer or counter written by every call of  *)
(*                     some phase (hypothetical: none exists today; used by *)
(*                     the _defect configuration and by mutations)          *)
BenignClasses == {"never-written", "address-only", "once-guarded"}
MutableClasses == {"rewritten-ctx-init", "rewritten-gen-init", "lazy-once", "per-call-scratch"}

(* accesses of a thread that runs phase ph with source kind src on global g; lazyDone = g already initialised *)
Acc(g, ph, src, lazyDone) ==
  CASE g.cls = "never-written"      -> {"r"}
    [] g.cls = "address-only"       -> {}
    [] g.cls = "once-guarded"       -> {"r"}
    [] g.cls = "rewritten-ctx-init" -> IF ph = "init" THEN {"w"} ELSE IF ph \in {"interp", "call"} THEN {"r"} ELSE {}
    [] g.cls = "rewritten-gen-init" -> IF ph = "geninit" THEN {"w"} ELSE IF ph = "gen" THEN {"r"} ELSE {}
    [] g.cls = "lazy-once"          -> IF ph = "build" /\ src = "c" THEN (IF lazyDone THEN {"r"} ELSE {"r", "w"}) ELSE {}
    [] g.cls = "per-call-scratch"   -> IF ph = "build" THEN {"r", "w"} ELSE {}
    [] OTHER                        -> {"r", "w"}      \* unknown class: assume the worst

(* ------------------------------------------------------------------------ *)
(* The inventory of the pinned tree (x86-64 Linux, units mir.c [includes    *)
(* mir-interp.c, mir-x86_64.c, allocators], mir-gen.c [includes             *)
(* mir-gen-x86_64.c], c2mir/c2mir.c [includes the x86_64 headers]).         *)
(* obj = source file that defines the object (without extension).           *)
(* w = functions that store to it directly, a = functions that take its address (through which it may be reached);   *)
(* the binding compares both with the disassembly of the -O0 build.                                                *)
G(o, s, c, w, a) == [obj |-> o, sym |-> s, cls |-> c, w |-> w, a |-> a]
NW(o, s) == G(o, s, "never-written", {}, {})
RealGlobals ==
  { \* mir.c and the files it includes
    G("mir-interp", "addr_offset8", "rewritten-ctx-init", {"interp_init"}, {}),   \* interp_init (called by MIR_init) stores
    G("mir-interp", "addr_offset16", "rewritten-ctx-init", {"interp_init"}, {}),  \* _MIR_addr_offset(..) into them every time;
    G("mir-interp", "addr_offset32", "rewritten-ctx-init", {"interp_init"}, {}),  \* eval reads them (MIR_ADDR8/16/32)
    G("mir-alloc-default", "default_alloc", "never-written", {}, {"_MIR_init"}),
    G("mir-code-alloc-default", "default_code_alloc", "never-written", {}, {"_MIR_init"}),
    \* mir-gen.c and mir-gen-x86_64.c
    G("mir-gen-x86_64", "patterns", "rewritten-gen-init", {},                      \* patterns_init (MIR_gen_init) stores
      {"patterns_init", "pattern_index_cmp", "find_insn_pattern", "target_translate", \* patterns[i].max_insn_size every time;
       "target_bb_insn_translate", "target_output_jump"}),                          \* the others read the table
    G("mir-gen-x86_64", "nop_pats", "never-written", {}, {"target_translate"}),
    NW("mir-gen-x86_64", "UI2F"), NW("mir-gen-x86_64", "UI2D"), NW("mir-gen-x86_64", "UI2LD"), NW("mir-gen-x86_64", "LD2I"),
    NW("mir-gen-x86_64", "UI2F_P"), NW("mir-gen-x86_64", "UI2D_P"), NW("mir-gen-x86_64", "UI2LD_P"), NW("mir-gen-x86_64", "LD2I_P"),
    NW("mir-gen-x86_64", "VA_ARG_P"), NW("mir-gen-x86_64", "VA_ARG"), NW("mir-gen-x86_64", "VA_BLOCK_ARG_P"), NW("mir-gen-x86_64", "VA_BLOCK_ARG"),
    \* c2mir/c2mir.c and the files it includes
    G("c2mir", "VOID_TYPE", "never-written", {}, {"check"}),         \* check() makes pointer types point to it (alloca, &&label);
                                                                 \* set_type_layout then stores raw_size/align through that pointer
    G("c2mir", "err_struct", "address-only", {}, {"*"}),        \* err_node sentinel of the parser
    NW("c2mir", "FIRST_KW"), NW("c2mir", "LAST_KW"), NW("c2mir", "varg"), NW("c2mir", "FP_NAME"), NW("c2mir", "RET_ADDR_NAME"),
    G("cx86_64-code", "standard_includes", "never-written", {}, {"add_standard_includes", "get_include_fname"}),
    NW("mirc_x86_64_linux", "x86_64_mirc"),     \* predefined-macro / header texts: static char[], only read
    NW("mirc_x86_64_float", "float_str"), NW("mirc_x86_64_limits", "limits_str"), NW("mirc_x86_64_stdarg", "stdarg_str"),
    NW("mirc_x86_64_stdint", "stdint_str"), NW("mirc_x86_64_stddef", "stddef_str"), NW("mirc_iso646", "iso646_str"),
    NW("mirc_stdalign", "stdalign_str"), NW("mirc_stdbool", "stdbool_str"), NW("mirc_stdnoreturn", "stdnoreturn_str") }

BenignGlobals == {g \in RealGlobals : g.cls \in BenignClasses}
(* the _defect configuration: the real inventory plus one hypothetical mutable static *)
DefectGlobals == RealGlobals \cup {G("hypothetical", "static_scratch_buffer", "per-call-scratch", {}, {})}
NoGlobals == {}

SrcAllMir == {[t \in Threads |-> "mir"]}
SrcAny == [Threads -> {"mir", "c"}]
SrcAllC == {[t \in Threads |-> "c"]}
SrcMirOrAllC == SrcAllMir \cup SrcAllC
SrcOneC == {[t \in Threads |-> IF t = 1 THEN "c" ELSE "mir"]} \cup SrcAllMir

(* the inventory is printed once per run so that the binding reads it from the specification *)
ASSUME EmitJ([inventory |-> RealGlobals, benign |-> BenignClasses, mutable |-> MutableClasses, prog |-> Prog])

(* ------------------------------------------------------------------------ *)
VARIABLES pc,       \* [Threads -> 0..NPh]   number of completed phases
          src,      \* [Threads -> {"mir","c"}]
          run,      \* set of threads inside their next phase (between two barriers)
          ctxst,    \* [Threads -> Seq(phase)]  the private context: what has been done to it
          lazy,     \* set of lazily initialised globals already written
          h         \* history: the steps so far (hidden by VIEW)
vars == <<pc, src, run, ctxst, lazy, h>>
View == <<pc, src, run, ctxst, lazy>>

Init == /\ pc = [t \in Threads |-> 0]
        /\ src \in SrcVecs
        /\ run = {}
        /\ ctxst = [t \in Threads |-> <<>>]
        /\ lazy = {}
        /\ h = <<>>

PhaseOf(t) == Prog[pc[t] + 1]
AccOf(t, g) == Acc(g, PhaseOf(t), src[t], g \in lazy)

(* a step begins: the threads of S are released together from the barrier *)
Begin(S) == /\ run = {}
            /\ S # {}
            /\ \A t \in S : pc[t] < NPh
            /\ run' = S
            /\ UNCHANGED <<pc, src, ctxst, lazy, h>>

(* the step ends: every thread of the step has completed its phase on its own context *)
End == /\ run # {}
       /\ pc' = [t \in Threads |-> IF t \in run THEN pc[t] + 1 ELSE pc[t]]
       /\ ctxst' = [t \in Threads |-> IF t \in run THEN Append(ctxst[t], PhaseOf(t)) ELSE ctxst[t]]
       /\ lazy' = lazy \cup {g \in Globals : \E t \in run : g.cls = "lazy-once" /\ "w" \in AccOf(t, g)}
       /\ run' = {}
       /\ h' = Append(h, run)
       /\ UNCHANGED src

Next == (\E S \in SUBSET Threads : Begin(S)) \/ End
Spec == Init /\ [][Next]_vars

(* ---- properties ---------------------------------------------------------- *)
TypeOK == /\ pc \in [Threads -> 0..NPh] /\ run \subseteq Threads /\ \A t \in run : pc[t] < NPh

(* a thread's context (hence its results) depends on its own program only: trivially true here because no action   *)
(* lets a thread touch another context; it is the claim the binding tests on the code (per-thread results = results *)
(* of the same workload run alone = results the specification MIRProg computes for that program)                    *)
Isolation == \A t \in Threads : ctxst[t] = SubSeq(Prog, 1, pc[t])

(* no two threads are ever inside conflicting accesses of the same global *)
Conflicts == {<<g, t, u>> \in Globals \X run \X run : t # u /\ "w" \in AccOf(t, g) /\ AccOf(u, g) # {}}
NoSharedWrite == Conflicts = {}

(* ---- schedule generator -------------------------------------------------- *)
Bound == Len(h) <= Depth
StepsJ(hh) == [i \in 1..Len(hh) |-> hh[i]]
EmitStep ==
  /\ (run # {} /\ run' = {}) =>           \* an End transition: one schedule prefix per transition of the graph
       EmitJ([n |-> N, src |-> src, steps |-> StepsJ(h'), pcs |-> pc, antichain |-> {[t |-> t, ph |-> PhaseOf(t)] : t \in run}])
  /\ (run = {} /\ run' # {} /\ Conflicts' # {}) =>   \* a Begin transition into a conflicting state (only with mutable globals)
       EmitJ([conflict |-> {[sym |-> c[1].sym, obj |-> c[1].obj, cls |-> c[1].cls, a |-> Prog[pc[c[2]] + 1], b |-> Prog[pc[c[3]] + 1]] : c \in Conflicts'},
              n |-> N, src |-> src, steps |-> StepsJ(Append(h, run'))])
(* simulation: only complete schedules (every thread has finished) are emitted *)
EmitFull ==
  (run # {} /\ run' = {} /\ \A t \in Threads : pc'[t] = NPh) =>
       EmitJ([n |-> N, src |-> src, steps |-> StepsJ(h'), full |-> TRUE])
=============================================================================
