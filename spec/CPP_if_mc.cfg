CONSTANTS
  Fam = "if"
  NM = 1
  KindSet = {"obj", "f0", "f1", "f2", "fv", "f1v"}
  MaxBody = 3
  MaxInv = 6
  BodyAlpha = {"x", "y", "V", "#x", "#y", "#V", "#", "##", "f", "a", "1"}
  InvAlpha = {"f", "a", "(", ")", ","}
  VarWs = FALSE
  InvHead = TRUE
  InvBal = TRUE
  NameScheme = 1
  MaxLines = 1
  MaxNest = 1
  CondSet = {"0"}
  LineSet = {"endif"}
  MaxD = 1
  AtomSet = {"0", "1", "m1", "2", "63", "64", "imax", "imin", "umax", "p31", "p32m", "p63x", "0u", "1u", "63u", "defD", "U", "E"}
  GapSet = {"sp"}
  OpSet = {"u-", "u~", "u!", "u+", "*", "/", "%", "+", "-", "<<", ">>", "<", "<=", ">", ">=", "==", "!=", "&", "^", "|", "&&", "||", "?:"}
INIT Init
NEXT Next
INVARIANT EmitInv
