CONSTANTS
  BufLen = 16
  StartLen = 4
  MaxSymLen = 9
  Fixed = TRUE
  Mode = "enum"
  MaxCost <- CostEnv
  NE = 0
  TagSymF = {0, 1, 4, 7}
  TagRefF = {0, 1, 5, 31}
  DataBytes = {97, 98}
  UintLead = {128, 129, 132, 133, 137, 144, 145, 64, 15, 3}
  UintCont = {0, 4, 253, 255}
  ElemSet <- ElemsTiny
  SubstVals = {0}
INIT Init
NEXT Next
ACTION_CONSTRAINT EmitAll
INVARIANTS MemorySafe Agree Strict NoAssert
