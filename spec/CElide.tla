------------------------------- MODULE CElide -------------------------------
(* Initialisation of nested aggregates with brace elision (C11 6.7.9p17-22): *)
(* the initialisers of a brace-enclosed list are applied to the subobjects   *)
(* of the current object in order; a subaggregate whose initialiser does not *)
(* begin with a left brace takes only as many initialisers from the list as  *)
(* it has elements or members, the rest is left for the next subobject       *)
(* (p20); a subaggregate given a braced list is initialised by that list     *)
(* alone; subobjects without initialiser are zero (p21); a designator at the *)
(* outer level moves the current object and initialisation continues after   *)
(* it (p17).                                                                 *)
(* Types are trees: scalar, array (n, element), struct (members).  An        *)
(* initialiser list is a sequence of elements [k, l, i]: k = "v" a value,    *)
(* "b" a braced list l, "d" a designator for outer child i followed by the   *)
(* one-element list l.  The j-th value written in the text is j, so the      *)
(* expected object shows where every initialiser went.                       *)
(* The generator enumerates, for each of six object types, every list of the *)
(* following shapes (those the semantics finds to have an excess or a braced  *)
(* scalar are marked ok = FALSE and not replayed): any prefix of the scalars, every    *)
(* subaggregate either elided or braced (recursively), plus outer            *)
(* designators.  Observed: all scalars of a static and an automatic object.  *)
EXTENDS Integers, Sequences, FiniteSets, TLC, Json, Emit, IOUtils
VARIABLES lvl, tn, lst
vars == <<lvl, tn, lst>>
Part == IF "PART" \in DOMAIN IOEnv THEN atoi(IOEnv.PART) ELSE 0
NParts == IF "NPARTS" \in DOMAIN IOEnv THEN atoi(IOEnv.NPARTS) ELSE 1
NS(n) == ToString(n)

(* ---- types *)
Sc == [k |-> "s", n |-> 0, ch |-> <<>>, nm |-> <<>>]
Arr(n, e) == [k |-> "a", n |-> n, ch |-> [j \in 1..n |-> e], nm |-> <<>>]
St(ms, names) == [k |-> "t", n |-> Len(ms), ch |-> ms, nm |-> names]
Vec == St(<<Arr(2, Sc), Sc>>, <<"c", "tag">>)
Inner == St(<<Sc, Arr(2, Sc)>>, <<"x", "y">>)
(* name -> <<type, declaration of the object as <<text before its name, text after it>>, file-scope type declarations>> *)
TypeTab == [grid22 |-> <<Arr(2, Arr(2, Sc)), <<"int ", "[2][2]">>, <<>> >>,
            grid23 |-> <<Arr(2, Arr(3, Sc)), <<"int ", "[2][3]">>, <<>> >>,
            masks |-> <<Arr(3, Arr(2, Sc)), <<"unsigned char ", "[3][2]">>, <<>> >>,
            vec |-> <<Vec, <<"struct vec@ ", "">>, <<"struct vec@ { int c[2]; int tag; };">> >>,
            vecs |-> <<Arr(2, Vec), <<"struct vec@ ", "[2]">>, <<"struct vec@ { int c[2]; int tag; };">> >>,
            mix |-> <<St(<<Sc, Arr(3, Sc), Inner>>, <<"a", "b", "in">>), <<"struct mix@ ", "">>,
                      <<"struct mix@ { int a; int b[3]; struct { char x; short y[2]; } in; };">> >>]
TypeNames == DOMAIN TypeTab
RECURSIVE Size(_)
Size(t) == IF t.k = "s" THEN 1 ELSE LET RECURSIVE S(_) S(j) == IF j = 0 THEN 0 ELSE Size(t.ch[j]) + S(j - 1) IN S(t.n)
RECURSIVE Paths(_, _)
Paths(t, pre) ==
  IF t.k = "s" THEN <<pre>>
  ELSE LET RECURSIVE P(_) P(j) == IF j > t.n THEN <<>> ELSE Paths(t.ch[j], pre \o (IF t.k = "a" THEN "[" \o NS(j - 1) \o "]" ELSE "." \o t.nm[j])) \o P(j + 1) IN P(1)
Zeros(n) == [j \in 1..n |-> 0]

(* ---- initialiser elements *)
V == [k |-> "v", l |-> <<>>, i |-> 0]
B(l) == [k |-> "b", l |-> l, i |-> 0]
Dsg(i, e) == [k |-> "d", l |-> <<e>>, i |-> i]

(* ---- semantics.  Elide(t, lst, c): initialise t from the head of lst without braces of its own; c values have been used so far. *)
(* Result: vals (Size(t) scalars), rest of the list, counter, ok (no excess / misplaced element).                                *)
RECURSIVE Elide(_, _, _), Kids(_, _, _, _, _), CountVals(_)
CountVals(l) == IF l = <<>> THEN 0 ELSE (IF Head(l).k = "v" THEN 1 ELSE CountVals(Head(l).l)) + CountVals(Tail(l))
Full(t, l, c) == LET r == Kids(t, 1, l, c, <<>>) IN [vals |-> r.vals, c |-> r.c, ok |-> r.ok /\ r.rest = <<>>]      \* a braced list for t
Elide(t, l, c) ==
  IF l = <<>> THEN [vals |-> Zeros(Size(t)), rest |-> l, c |-> c, ok |-> TRUE]
  ELSE IF t.k = "s" THEN
         (IF Head(l).k = "v" THEN [vals |-> <<c + 1>>, rest |-> Tail(l), c |-> c + 1, ok |-> TRUE]
          ELSE [vals |-> <<0>>, rest |-> Tail(l), c |-> c + CountVals(<<Head(l)>>), ok |-> FALSE])
  ELSE Kids(t, 1, l, c, <<>>)
Kids(t, j, l, c, acc) ==        \* children j.. of aggregate t
  IF j > t.n THEN [vals |-> acc, rest |-> l, c |-> c, ok |-> TRUE]
  ELSE IF l = <<>> THEN Kids(t, j + 1, l, c, acc \o Zeros(Size(t.ch[j])))
  ELSE IF Head(l).k = "b" /\ t.ch[j].k # "s" THEN
         LET r == Full(t.ch[j], Head(l).l, c)  r2 == Kids(t, j + 1, Tail(l), r.c, acc \o r.vals) IN [r2 EXCEPT !.ok = r2.ok /\ r.ok]
  ELSE LET r == Elide(t.ch[j], l, c)  r2 == Kids(t, j + 1, r.rest, r.c, acc \o r.vals) IN [r2 EXCEPT !.ok = r2.ok /\ r.ok]
(* the outer list: designators allowed; a designator for child i restarts at that child keeping what earlier children received *)
RECURSIVE Outer(_, _, _, _, _)
Offset(t, i) == LET RECURSIVE O(_) O(j) == IF j = 0 THEN 0 ELSE Size(t.ch[j]) + O(j - 1) IN O(i - 1)
Put(vals, off, nv) == [x \in 1..Len(vals) |-> IF x > off /\ x <= off + Len(nv) THEN nv[x - off] ELSE vals[x]]
Outer(t, j, l, c, vals) ==
  IF l = <<>> THEN [vals |-> vals, ok |-> TRUE]
  ELSE IF Head(l).k = "d" THEN Outer(t, Head(l).i, Head(l).l \o Tail(l), c, vals)
  ELSE IF j > t.n THEN [vals |-> vals, ok |-> FALSE]
  ELSE IF Head(l).k = "b" /\ t.ch[j].k # "s" THEN
         LET r == Full(t.ch[j], Head(l).l, c)  r2 == Outer(t, j + 1, Tail(l), r.c, Put(vals, Offset(t, j), r.vals)) IN [r2 EXCEPT !.ok = r2.ok /\ r.ok]
  ELSE LET r == Elide(t.ch[j], l, c)  r2 == Outer(t, j + 1, r.rest, r.c, Put(vals, Offset(t, j), r.vals)) IN [r2 EXCEPT !.ok = r2.ok /\ r.ok]
Meaning(t, l) == Outer(t, 1, l, 0, Zeros(Size(t)))

(* ---- generator: every valid list *)
RECURSIVE FullForms(_), ListsOf(_), SeqProduct(_)
SeqProduct(sets) == IF sets = <<>> THEN {<<>>} ELSE {a \o b : a \in Head(sets), b \in SeqProduct(Tail(sets))}
FullOrBraced(t) == FullForms(t) \cup (IF t.k = "s" THEN {} ELSE {<<B(l)>> : l \in ListsOf(t)})
PrefixOrBraced(t) == ListsOf(t) \cup (IF t.k = "s" THEN {} ELSE {<<B(l)>> : l \in ListsOf(t)})
FullForms(t) == IF t.k = "s" THEN {<<V>>} ELSE SeqProduct([j \in 1..t.n |-> FullOrBraced(t.ch[j])])         \* all scalars given, no own braces
ListsOf(t) ==                                                                                               \* contents of a braced list for t
  IF t.k = "s" THEN {<<V>>}
  ELSE UNION {SeqProduct([j \in 1..s |-> IF j < s THEN FullOrBraced(t.ch[j]) ELSE PrefixOrBraced(t.ch[j])]) : s \in 1..t.n}
(* with one outer designator: optionally the first child given in full, then [i] = / .m = and a list for the children from i on *)
Sub(t, i) == [t EXCEPT !.n = t.n - i + 1, !.ch = SubSeq(t.ch, i, t.n), !.nm = IF t.k = "t" THEN SubSeq(t.nm, i, t.n) ELSE <<>>]
(* (the first child is given before the designator only when a LATER child is designated: initialising a subaggregate twice is DR 413 land) *)
Designated(t) ==
  UNION {{pre \o <<Dsg(i, Head(l))>> \o Tail(l) : pre \in {<<>>} \cup (IF i > 1 THEN FullOrBraced(t.ch[1]) ELSE {}), l \in ListsOf(Sub(t, i))} : i \in 1..t.n}
AllLists(t) == ListsOf(t) \cup Designated(t)

(* ---- spelling *)
RECURSIVE Spell(_, _, _), SpellEl(_, _, _)
SpellEl(e, c, t) ==      \* <<text, counter>> ; t: the outer type (for designator spelling)
  CASE e.k = "v" -> <<NS(c + 1), c + 1>>
    [] e.k = "b" -> LET r == Spell(e.l, c, t) IN <<"{" \o r[1] \o "}", r[2]>>
    [] e.k = "d" -> LET r == SpellEl(e.l[1], c, t) IN <<(IF t.k = "a" THEN "[" \o NS(e.i - 1) \o "]" ELSE "." \o t.nm[e.i]) \o " = " \o r[1], r[2]>>
Spell(l, c, t) == IF l = <<>> THEN <<"", c>>
                  ELSE LET a == SpellEl(Head(l), c, t)  b == Spell(Tail(l), a[2], t) IN <<a[1] \o (IF Tail(l) = <<>> THEN "" ELSE ", ") \o b[1], b[2]>>
Row ==
  LET T == TypeTab[tn]  t == T[1]  m == Meaning(t, lst)
      ini == "{" \o Spell(lst, 0, t)[1] \o "}"
      ps == Paths(t, "")
      decl(nm) == T[2][1] \o nm \o T[2][2]
  IN [fam |-> "elide", ok |-> m.ok,
      glob |-> T[3] \o <<"static " \o decl("g@") \o " = " \o ini \o ";">>,
      body |-> <<decl("l") \o " = " \o ini \o ";">>,
      pr |-> [k \in 1..Len(ps) |-> <<" %d", "g@" \o ps[k]>>] \o [k \in 1..Len(ps) |-> <<" %d", "l" \o ps[k]>>],
      exp |-> [k \in 1..Len(ps) |-> NS(m.vals[k])] \o [k \in 1..Len(ps) |-> NS(m.vals[k])],
      desc |-> decl("x") \o " = " \o ini,
      sig |-> tn \o ":" \o ini, d |-> 1]
Init == lvl = 0 /\ tn = "" /\ lst = <<>>
Next == lvl = 0 /\ lvl' = 1 /\ tn' \in TypeNames /\ lst' \in AllLists(TypeTab[tn'][1])
EmitInv == lvl = 1 => EmitJ(Row)
=============================================================================
