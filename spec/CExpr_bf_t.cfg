CONSTANTS
  LeafTypes = {"i", "u", "l", "uc"}
  GridSel = "g2"
  UnOps = {"+", "-", "~", "!"}
  CastTypes = {"B", "sc", "us", "u", "l", "ull"}
  BinOps = {"+", "-", "*", "/", "%", "<<", ">>", "&", "|", "^", "<", ">=", "==", "&&", "||"}
  UseCond = TRUE
  LvTypes = {}
  AsgOps = {"=", "+=", "-=", "*=", "/=", "%=", "<<=", ">>=", "&=", "|=", "^="}
  IncOps = {}
  UseEnum = FALSE
  UseLit = FALSE
  BfWidths = {1, 7, 31, 32}
  MaxDepth = 1
  MaxLeaves = 3
  MaxStack = 3
  MinParen = FALSE
  TwoPhase = FALSE
  Rnd = FALSE
  PtrLv = FALSE
INIT Init
NEXT Next
INVARIANT EmitInv
