CONSTANTS
  NSlots = 12
  Abs = FALSE
  Lean = FALSE
  Vocab = "single"
INIT Init
NEXT Next
ACTION_CONSTRAINT EmitCase
INVARIANTS TypeOK RegsTyped
