CONSTANTS
  NSlots = 12
  Vocab = "single"
INIT Init
NEXT Next
ACTION_CONSTRAINT EmitCase
INVARIANTS TypeOK RegsTyped
