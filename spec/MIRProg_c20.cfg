CONSTANTS
  NSlots = 12
  Glob = "calls"
  Abs = TRUE
  Lean = FALSE
  Vocab = "single"
INIT Init
NEXT Next
ACTION_CONSTRAINT EmitCase
INVARIANTS TypeOK RegsTyped
