CONSTANTS
  MaxMods = 1
  MaxItems = 1
  MaxInsns = 1
  MinItems = 1
  MinInsns = 1
  Grid = "tiny"
  Preamble = TRUE
  Header = "fixed"
  OneFree = TRUE
  NonFinite = FALSE
INIT Init
NEXT Next
ACTION_CONSTRAINT EmitModule
INVARIANTS WellFormed NFIdempotent
