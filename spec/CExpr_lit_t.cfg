CONSTANTS
  LeafTypes = {}
  GridSel = "g2"
  UnOps = {"+", "-", "~", "!"}
  CastTypes = {"i", "ul"}
  BinOps = {"+", "<", ">>"}
  UseCond = FALSE
  LvTypes = {}
  AsgOps = {}
  IncOps = {}
  UseEnum = FALSE
  UseLit = TRUE
  BfWidths = {}
  MaxDepth = 1
  MaxLeaves = 2
  MaxStack = 2
  MinParen = TRUE
  TwoPhase = FALSE
  Rnd = FALSE
  PtrLv = FALSE
INIT Init
NEXT Next
INVARIANT EmitInv
