CONSTANTS
  Fam = "mac"
  NM = 2
  KindSet = {"obj", "f1"}
  MaxBody = 2
  MaxInv = 4
  BodyAlpha = {"x", "f", "g", "("}
  InvAlpha = {"f", "g", "(", ")"}
  VarWs = FALSE
  InvHead = TRUE
  InvBal = TRUE
  NameScheme = 1
  MaxLines = 1
  MaxNest = 1
  CondSet = {"0"}
  LineSet = {"endif"}
  MaxD = 0
  AtomSet = {"0"}
  GapSet = {"sp"}
  OpSet = {"+"}
INIT Init
NEXT Next
INVARIANT EmitInv
