CONSTANTS
  Names = {"a", "b", "c"}
  ShapeIds = {1, 2, 3, 4, 5, 6, 7, 8, 9, 10, 11}
  ExtNames = {"a", "c"}
  MaxMods = 4
  MaxExt = 2
  MaxToggle = 2
  IllMaxStep = 2
  AvoidErrors = FALSE
  Depth = 7
INIT Init
NEXT Next
VIEW View
ACTION_CONSTRAINT Emit
INVARIANTS BindLatest LocalBinding RedefRejected ConstructErrors UndefinedReported EnvIsLatest Shape
PROPERTIES OldBindingsStable CallValuesStable
