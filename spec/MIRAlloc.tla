------------------------------ MODULE MIRAlloc ------------------------------
(* The memory contract between MIR and the user's allocators                 *)
(* (CUSTOM-ALLOCATORS.md, mir-alloc.h, mir-code-alloc.h), as a ledger.       *)
(*                                                                           *)
(*   live   block id  -> true size of every block the library holds          *)
(*   code   region id -> [len, writable]; writable = set of page numbers of   *)
(*          the region on which write access was requested (PROT_WRITE_EXEC)  *)
(*          and execute access (PROT_READ_EXEC) was not requested since       *)
(*   phase  "idle" (no context) / "run" (MIR_init2 .. MIR_finish) / "done"    *)
(*                                                                           *)
(* One action per call of a MIR_alloc_t / MIR_code_alloc_t member.  Every     *)
(* action is a guard + ledger update; a call whose guard is false has no      *)
(* transition.  There is deliberately NO action for a raw libc call made by   *)
(* the library (RawMalloc, RawFree, RawMmap ...), for a write into code       *)
(* memory outside a write window (WriteFault), for the release of a pointer   *)
(* the allocator never returned (ForeignFree) or for a write into a released  *)
(* block (UseAfterFree): a behaviour containing one is not a behaviour of     *)
(* this specification.                                                        *)
(*                                                                           *)
(* Block and region ids are fresh (strictly increasing): an id that was       *)
(* released can never become live again, so "Free only if live" excludes      *)
(* double free.  `freed` is a history variable used by the model-checking     *)
(* configuration only (TrackFreed = TRUE) to state that independently.        *)
EXTENDS Integers, FiniteSets, TLC

CONSTANTS PageSize,    \* granularity of mem_protect (mprotect semantics)
          TrackFreed   \* BOOLEAN: maintain the history variable `freed`

VARIABLES live, code, phase, maxid, maxr, freed
vars == <<live, code, phase, maxid, maxr, freed>>

NULL == 0

Without(f, x) == [y \in DOMAIN f \ {x} |-> f[y]]
With(f, x, v) == [y \in DOMAIN f \cup {x} |-> IF y = x THEN v ELSE f[y]]

(* pages touched by the byte range [off, off+len) (empty when len = 0 and off is aligned) *)
Pages(off, len) == (off \div PageSize) .. ((off + len - 1) \div PageSize)
NPages(len) == (len + PageSize - 1) \div PageSize

Init ==
  /\ live = <<>> /\ code = <<>> /\ phase = "idle"
  /\ maxid = 0 /\ maxr = 0 /\ freed = {}

(* MIR_init2 (alloc, code_alloc) is entered *)
Start ==
  /\ phase = "idle" /\ phase' = "run"
  /\ UNCHANGED <<live, code, maxid, maxr, freed>>

(* alloc->malloc (size) returned block id *)
Malloc(id, size) ==
  /\ phase = "run" /\ id > maxid /\ size >= 0
  /\ live' = With(live, id, size) /\ maxid' = id
  /\ UNCHANGED <<code, phase, maxr, freed>>

(* alloc->calloc (num, esz): a block of num * esz bytes *)
Calloc(id, num, esz) == num >= 0 /\ esz >= 0 /\ Malloc(id, num * esz)

(* alloc->realloc (old, oldSize, newSize) returned block new.                 *)
(* The contract: old_size "denotes the size of the allocation realloc is      *)
(* invoked on" -- an allocator without native realloc copies old_size bytes.  *)
(* realloc (NULL, ..) is malloc (standard C semantics); there is no previous  *)
(* allocation, so the only size that is true of it is 0.                      *)
Realloc(old, oldSize, newSize, new) ==
  /\ phase = "run" /\ new > maxid /\ newSize >= 0
  /\ IF old = NULL
       THEN /\ oldSize = 0
            /\ live' = With(live, new, newSize)
            /\ freed' = freed
       ELSE /\ old \in DOMAIN live
            /\ live[old] = oldSize
            /\ live' = With(Without(live, old), new, newSize)
            /\ freed' = IF TrackFreed THEN freed \cup {old} ELSE freed
  /\ maxid' = new
  /\ UNCHANGED <<code, phase, maxr>>

(* alloc->free (id); free (NULL) is a no-op *)
Free(id) ==
  /\ phase = "run"
  /\ IF id = NULL
       THEN UNCHANGED <<live, freed>>
       ELSE /\ id \in DOMAIN live
            /\ live' = Without(live, id)
            /\ freed' = IF TrackFreed THEN freed \cup {id} ELSE freed
  /\ UNCHANGED <<code, phase, maxid, maxr>>

(* code_alloc->mem_map (len) returned region r: neither writable nor executable yet *)
MemMap(r, len) ==
  /\ phase = "run" /\ r > maxr /\ len > 0
  /\ code' = With(code, r, [len |-> len, writable |-> {}]) /\ maxr' = r
  /\ UNCHANGED <<live, phase, maxid, freed>>

(* code_alloc->mem_protect (base(r) + off, len, prot), prot \in {"W", "X"}      *)
(* (PROT_WRITE_EXEC / PROT_READ_EXEC).  mprotect semantics: the address is     *)
(* page aligned, the range lies inside one mapped region, whole pages change.  *)
Protect(r, off, len, prot) ==
  /\ phase = "run" /\ r \in DOMAIN code
  /\ off >= 0 /\ len >= 0 /\ off % PageSize = 0 /\ off + len <= code[r].len
  /\ prot \in {"W", "X"}
  /\ code' = [code EXCEPT ![r].writable = IF prot = "W" THEN @ \cup Pages(off, len)
                                                         ELSE @ \ Pages(off, len)]
  /\ UNCHANGED <<live, phase, maxid, maxr, freed>>

(* code_alloc->mem_unmap (base(r) + off, len): exactly one whole mapping *)
Unmap(r, off, len) ==
  /\ phase = "run" /\ r \in DOMAIN code
  /\ off = 0 /\ len = code[r].len
  /\ code' = Without(code, r)
  /\ UNCHANGED <<live, phase, maxid, maxr, freed>>

(* bytes of pages lo..hi of region r were observed to change *)
CodeWrite(r, lo, hi) ==
  /\ phase = "run" /\ r \in DOMAIN code
  /\ lo <= hi /\ (lo .. hi) \subseteq code[r].writable
  /\ UNCHANGED vars

(* MIR_finish returned: everything has been given back *)
Finish ==
  /\ phase = "run"
  /\ DOMAIN live = {} /\ DOMAIN code = {}
  /\ phase' = "done"
  /\ UNCHANGED <<live, code, maxid, maxr, freed>>

(* the next, unrelated execution *)
Reset ==
  /\ phase = "done"
  /\ live' = <<>> /\ code' = <<>> /\ phase' = "idle"
  /\ maxid' = 0 /\ maxr' = 0 /\ freed' = {}

(* ------------------------------------------------------------------------ *)
(* Model checking the contract itself with small constants (MIRAlloc_mc.cfg) *)
CONSTANTS MaxId, Sizes, MaxRegion, Lens
Ids == 0 .. MaxId
Offs == 0 .. (2 * PageSize + 1)

Next ==
  \/ Start \/ Finish \/ Reset
  \/ \E id \in Ids, s \in Sizes : Malloc(id, s) \/ Calloc(id, s, 2)
  \/ \E old \in Ids, new \in Ids, os \in Sizes \cup {4}, ns \in Sizes : Realloc(old, os, ns, new)
  \/ \E id \in Ids : Free(id)
  \/ \E r \in 1 .. MaxRegion, l \in Lens : MemMap(r, l)
  \/ \E r \in 0 .. MaxRegion, o \in Offs, l \in Offs, p \in {"W", "X"} : Protect(r, o, l, p)
  \/ \E r \in 0 .. MaxRegion, o \in {0, PageSize}, l \in Lens : Unmap(r, o, l)
  \/ \E r \in 0 .. MaxRegion, lo \in 0 .. 2, hi \in 0 .. 2 : CodeWrite(r, lo, hi)

Spec == Init /\ [][Next]_vars

TypeOK ==
  /\ phase \in {"idle", "run", "done"}
  /\ maxid \in 0 .. MaxId /\ maxr \in 0 .. MaxRegion
  /\ DOMAIN live \subseteq 1 .. MaxId
  /\ \A id \in DOMAIN live : live[id] \in Nat
  /\ DOMAIN code \subseteq 1 .. MaxRegion
  /\ \A r \in DOMAIN code : code[r].len \in Lens /\ code[r].writable \subseteq 0 .. (NPages(code[r].len) - 1)
  /\ freed \subseteq 1 .. MaxId

LedgerInv ==
  /\ \A id \in DOMAIN live : id # NULL /\ id <= maxid          \* ids are fresh
  /\ \A r \in DOMAIN code : r <= maxr
  /\ freed \cap DOMAIN live = {}                                \* released blocks stay released
  /\ freed \subseteq 1 .. maxid
  /\ phase = "idle" => DOMAIN live = {} /\ DOMAIN code = {} /\ maxid = 0 /\ maxr = 0
  /\ phase = "done" => DOMAIN live = {} /\ DOMAIN code = {}     \* nothing survives Finish

(* no step releases a block twice, resurrects one, or changes the size of a live block;  *)
(* a block leaves the ledger only by Free/Realloc, a region only by Unmap                *)
NoDoubleFree ==
  [][ (phase' # "idle") =>
        /\ freed \subseteq freed'
        /\ \A id \in freed : id \notin DOMAIN live'
        /\ \A id \in DOMAIN live \cap DOMAIN live' : live'[id] = live[id]
        /\ \A id \in DOMAIN live \ DOMAIN live' : id \in freed' ]_vars

(* a page becomes writable only by a Protect "W" step that covers it; a region disappears  *)
(* only by an Unmap of exactly that mapping                                               *)
WriteNeedsWindow ==
  [][ /\ \A r \in DOMAIN code' : \A p \in code'[r].writable :
            \/ r \in DOMAIN code /\ p \in code[r].writable
            \/ \E o \in Offs, l \in Offs : Protect(r, o, l, "W") /\ p \in Pages(o, l)
      /\ \A r \in DOMAIN code \ DOMAIN code' : phase' = "idle" \/ Unmap(r, 0, code[r].len) ]_vars

=============================================================================
