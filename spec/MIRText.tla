------------------------------ MODULE MIRText ------------------------------
(* I/O history machine of MIR contexts (MIR.md "MIR program"): MIR_output,  *)
(* MIR_scan_string, MIR_write / MIR_write_with_func, MIR_read /             *)
(* MIR_read_with_func and execution, each reader filling a FRESH context.   *)
(*                                                                          *)
(* The content of a context is kept abstract here: it is the module set M   *)
(* chosen by spec/MIRModule.tla (or MIRProg.tla) in one of its normal       *)
(* forms, nf \in {"id", "text"}:  "id" is M itself, "text" is TextNF(M)     *)
(* (MIRModule.tla: the text syntax has one integer literal, so an unsigned  *)
(* immediate reads back as a signed one with the same 64 bits; TextNF is    *)
(* idempotent, checked there on every generated module).  The second        *)
(* component is the numbering of labels (num): label numbers are printed    *)
(* in the text and written to the binary stream, so they are part of what   *)
(* a faithful writer/reader pair preserves.  The abstract module set also   *)
(* carries, per module, the temporary-name counter tmp (MIRModule.tla: the  *)
(* largest N of an item named .lc<N>): it is part of the projection, so     *)
(* RoundTripId requires every reader (scan and read) to restore it, and     *)
(* SameRun shows it: loading a module creates .lc<tmp+1> ... for string and *)
(* floating point operands, which must not exist already.                   *)
(*                                                                          *)
(* Properties (invariants of this machine; the binding replays every        *)
(* history on the real library and compares projections, texts and bytes):  *)
(*   RoundTripId   the projection of a context read from an artefact is the *)
(*                 projection of the context the artefact was written from  *)
(*                 (in the artefact's normal form)                          *)
(*   TextFixpoint  all texts of one history are identical (text2 = text1)   *)
(*   Deterministic two binary artefacts written from equal contexts are     *)
(*                 identical byte strings                                   *)
(*   SameRun       every context of a history executes with the same        *)
(*                 observations                                             *)
EXTENDS Integers, Sequences, FiniteSets, TLC, Json, Emit, IOUtils

Depth == IF "C10_DEPTH" \in DOMAIN IOEnv THEN atoi(IOEnv.C10_DEPTH) ELSE 4
(* which actions a check uses: "text" (C10: output/scan/exec), "bin" (C11: write/read/output/exec), "all" *)
Mode == IF "C10_MODE" \in DOMAIN IOEnv THEN IOEnv.C10_MODE ELSE "all"

VARIABLES ctxs,    \* <<[nf, num, org, src]>>   org: "api" | "pytext" | "merge" | "scan" | "read";  src: artefact index (0: built directly)
          arts,    \* <<[fmt, nf, num, src, via]>>  fmt: "text" | "bin";  src: context index
          h        \* history: <<[a, x, via]>>
vars == <<ctxs, arts, h>>

Origins == {[nf |-> "id", num |-> "canon", org |-> "api", src |-> 0],
            [nf |-> "id", num |-> "rev", org |-> "api", src |-> 0],          \* labels created in another order than they appear
            [nf |-> "text", num |-> "canon", org |-> "pytext", src |-> 0]}   \* built by scanning text rendered from the abstract module
           \cup (IF Mode = "text" THEN {}
                 \* M and a renamed copy of M built in two SEPARATE contexts (so their label numbers coincide), each written to
                 \* its own binary stream, both streams read into this one context: modules of one context that reuse label numbers
                 ELSE {[nf |-> "id", num |-> "dup", org |-> "merge", src |-> 0]})

Init == /\ \E o \in Origins : ctxs = <<o>>
        /\ arts = <<>> /\ h = <<>>

Step(a, x, via) == h' = Append(h, [a |-> a, x |-> x, via |-> via])

Output(c) ==
  /\ arts' = Append(arts, [fmt |-> "text", nf |-> "text", num |-> ctxs[c].num, src |-> c, via |-> "mem"])
  /\ Step("output", c, "mem") /\ UNCHANGED ctxs
Scan(a) ==
  /\ arts[a].fmt = "text"
  /\ ctxs' = Append(ctxs, [nf |-> arts[a].nf, num |-> arts[a].num, org |-> "scan", src |-> a])
  /\ Step("scan", a, "mem") /\ UNCHANGED arts
Write(c, via) ==
  /\ arts' = Append(arts, [fmt |-> "bin", nf |-> ctxs[c].nf, num |-> ctxs[c].num, src |-> c, via |-> via])
  /\ Step("write", c, via) /\ UNCHANGED ctxs
Read(a, via) ==
  /\ arts[a].fmt = "bin"
  /\ ctxs' = Append(ctxs, [nf |-> arts[a].nf, num |-> arts[a].num, org |-> "read", src |-> a])
  /\ Step("read", a, via) /\ UNCHANGED arts
Exec(c) ==                  \* load, link and run; a context is executed at most once, and last (linking rewrites it)
  /\ c = Len(ctxs) /\ \A i \in 1..Len(h) : ~(h[i].a = "exec" /\ h[i].x = c)
  /\ Step("exec", c, "interp") /\ UNCHANGED <<ctxs, arts>>

Executed(c) == \E i \in 1..Len(h) : h[i].a = "exec" /\ h[i].x = c
Vias == {"cb", "file"}
Next ==
  /\ Len(h) < Depth
  /\ \/ \E c \in 1..Len(ctxs) : ~Executed(c) /\ Output(c)
     \/ (Mode # "bin" /\ \E a \in 1..Len(arts) : Scan(a))
     \/ (Mode # "text" /\ \E c \in 1..Len(ctxs), v \in Vias : ~Executed(c) /\ Write(c, v))
     \/ (Mode # "text" /\ \E a \in 1..Len(arts), v \in Vias : Read(a, v))
     \/ \E c \in 1..Len(ctxs) : Exec(c)
Spec == Init /\ [][Next]_vars

(* ------------------------------------------------------------------ properties *)
NFAfter(fmt, nf) == IF fmt = "text" THEN "text" ELSE nf
RoundTripId ==
  \A i \in 1..Len(ctxs) : ctxs[i].src # 0 =>
    LET a == arts[ctxs[i].src]  c0 == ctxs[a.src] IN
    /\ ctxs[i].nf = NFAfter(a.fmt, c0.nf)
    /\ ctxs[i].num = c0.num
TextFixpoint == \A a, b \in 1..Len(arts) : (arts[a].fmt = "text" /\ arts[b].fmt = "text") => (arts[a].nf = arts[b].nf /\ arts[a].num = arts[b].num)
(* equal contexts give equal bytes, whatever the interface (callbacks or FILE) and however often *)
Deterministic == \A a, b \in 1..Len(arts) : (arts[a].fmt = "bin" /\ arts[b].fmt = "bin" /\ ctxs[arts[a].src].nf = ctxs[arts[b].src].nf) =>
                   (arts[a].nf = arts[b].nf /\ arts[a].num = arts[b].num)
(* the text normal form changes nothing an engine can observe: one expected observation per history *)
SameRun == \A i \in 1..Len(ctxs) : ctxs[i].nf \in {"id", "text"}

(* ------------------------------------------------------------------ emission: every complete history once *)
(* equality classes the binding must find: artefacts with the same (fmt, nf, num) are byte-identical *)
ArtClass(a) == [fmt |-> a.fmt, nf |-> a.nf, num |-> a.num]
Complete == Len(h') = Depth
Emit == Complete => EmitJ([h |-> h', ctxs |-> ctxs', arts |-> [i \in 1..Len(arts') |-> ArtClass(arts'[i])]])
=============================================================================
