CONSTANTS
  Fam = "lex"
  NM = 1
  KindSet = {"plain", "arg", "str", "xstr", "catl", "catr"}
  MaxBody = 3
  MaxInv = 5
  BodyAlpha = {"x", "y", "V", "#x", "#y", "#V", "#", "##", "f", "a", "1"}
  InvAlpha = {"u", "U", "L", "8", "x", "1", "@s@", "'c'", " "}
  VarWs = FALSE
  InvHead = TRUE
  InvBal = TRUE
  NameScheme = 1
  MaxLines = 1
  MaxNest = 1
  CondSet = {"0"}
  LineSet = {"endif"}
  MaxD = 0
  AtomSet = {"0"}
  GapSet = {"sp"}
  OpSet = {"+"}
INIT Init
NEXT Next
INVARIANT EmitInv
