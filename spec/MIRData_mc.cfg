CONSTANTS
  Plan <- PlanQuick
INIT Init
NEXT Next
ACTION_CONSTRAINT Emit
INVARIANTS LayoutSane
