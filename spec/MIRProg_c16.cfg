CONSTANTS
  NSlots = 12
  Glob = "own"
  Abs = TRUE
  Lean = FALSE
  Vocab = "link"
INIT Init
NEXT Next
ACTION_CONSTRAINT EmitCase
INVARIANTS TypeOK RegsTyped
