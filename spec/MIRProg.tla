------------------------------ MODULE MIRProg ------------------------------
(* Nondeterministic construction of well-formed MIR programs (the MIRBuild   *)
(* of DESIGN.md) followed by their execution on the MIRSem machine.         *)
(*                                                                          *)
(* A behaviour: choose inputs, then for each of NSlots slots choose an      *)
(* instruction template and fill its holes one micro-step at a time (small  *)
(* branching factor, so TLC's simulator samples uniformly and BFS can       *)
(* enumerate tiny bounds), finalize (resolve slot labels to instruction     *)
(* indices), run the program with MIRSem.Step, emit the case.               *)
(* Every program has the shape  i64 main (p buf) : a prologue loading all   *)
(* registers from buf, the random slots, an epilogue storing all registers  *)
(* back; helper functions g1 (narrow parameter/result types), g2            *)
(* (recursive) and the external ext_i are callable.                         *)
EXTENDS MIRSem, Json, Emit, IOUtils

CONSTANTS NSlots,      \* number of random slots
          Vocab,       \* which template kinds are enabled
          Glob,        \* "no" | "own" | "calls": a global variable tied to a hard register is declared by main (and read, written,
                       \* used in arithmetic there) / also by helper g17 that main calls.  "calls" only where one engine runs everything.
          Abs,         \* TRUE: templates that address the caller's buffer by number (the harness maps it at AbsBaseNat)
          Lean         \* TRUE: no long-lived pointer registers and no global item (fewer loads that keep stores alive: the
                       \* dead-store and alias reasoning of the optimiser is then exercised on the alloca templates)

VARIABLES phase, slot, cur, body, slotpc, inputs, haveA
bvars == <<phase, slot, cur, body, slotpc, inputs, haveA>>
allvars == <<prog, frames, mem, log, status, why, result, steps, phase, slot, cur, body, slotpc, inputs, haveA>>

(* ---------------- register file of main ---------------------------------- *)
RBUF == 1   RFUEL == 8   RTMP == 9   RPA == 10   RTMP2 == 11
IRegs == 2..7   DRegs == 12..14   FRegs == 15..16   LRegs == 17..18
PRegs == 19..22   RPG == 23          \* pointers into the scratch area kept live over the whole body; address of gdat
RIDX == 24 + (2 * NSlots)   \* long-lived index register (not Lean): inputs[1] & 1
RCNT == 27 + (2 * NSlots)   \* counter of the post-increment loops (set to 0 in the prologue)
RSAVE == 26 + (2 * NSlots)  \* holds the native caller's contents of the global variable's hard register during main
GV == [k |-> "greg"]
(* one program in four declares and uses the global variable in main (functions with such variables are generated without SSA passes) *)
UseG == Glob # "no" /\ Len(inputs) >= 14 /\ inputs[14] = Zero64
RVAL == 25 + (2 * NSlots)   \* long-lived rarely used value (not Lean): inputs[2] + 5
MainRegTy == <<"i", "i", "i", "i", "i", "i", "i", "i", "i", "i", "i", "d", "d", "d", "f", "f", "ld", "ld", "i", "i", "i", "i", "i">>
             \o [i \in 1..NSlots |-> "i"]     \* one alloca pointer register per slot (24..): every such pointer has a single definition
             \o [i \in 1..NSlots |-> "i"]     \* one stack-mark register per slot (bstart/bend)
             \o <<"i", "i", "i", "i">>        \* RIDX, RVAL: long-lived, rarely used index (0 or 1) and value; RSAVE; RCNT
Reg(r) == [k |-> "reg", r |-> r]
Imm(w) == [k |-> "imm", w |-> w]
DRef == [k |-> "dref", b |-> 2]       \* address of the module's bss item gdat (memory block 2)
DRef4 == [k |-> "dref", b |-> 4]      \* address of main's label-reference section lr_main: one 8-byte lref item per lref1/lref2 slot
DRef5 == [k |-> "dref", b |-> 5]      \* address of the reference section rt: `ref gdat, 8` continued by an anonymous `ref g5`
DRef7 == [k |-> "dref", b |-> 7]      \* address of the data section gq: data i64 3 ; (anonymous) ld 2.5 ; (anonymous) i64 40 -- no gaps: 0, 8, 24
DRef3 == [k |-> "dref", b |-> 3]      \* address of the data section gd: data i32 11, -2, 2147483647 ; (anonymous) data i64 5
Mem(ty, disp, base, idx, scale) == [k |-> "mem", ty |-> ty, disp |-> disp, base |-> base, idx |-> idx, scale |-> scale, al |-> ""]
(* memory operand with an alias name: accesses with different non-empty alias names are promised not to overlap *)
MemA(ty, disp, al) == [k |-> "mem", ty |-> ty, disp |-> disp, base |-> RBUF, idx |-> 0, scale |-> 1, al |-> al]
BufSize == 320
FuelInit == 6

InsIn(op, d, s) == [op |-> op, d |-> d, s |-> s]
Br(op, l, s) == [op |-> op, l |-> l, s |-> s]

Prologue ==
  (IF ~UseG THEN <<>> ELSE <<InsIn("mov", Reg(RSAVE), <<GV>>)>>)      \* the hard register belongs to the native caller: saved here ...
  \o [i \in 1..6 |-> InsIn("mov", Reg(i + 1), <<Mem("i64", 8 * (i - 1), RBUF, 0, 1)>>)]
  \o (IF ~UseG THEN <<>> ELSE <<InsIn("mov", GV, <<Reg(4)>>)>>)
  \o [i \in 1..3 |-> InsIn("dmov", Reg(11 + i), <<Mem("d", 48 + (8 * (i - 1)), RBUF, 0, 1)>>)]
  \o [i \in 1..2 |-> InsIn("fmov", Reg(14 + i), <<Mem("f", 72 + (4 * (i - 1)), RBUF, 0, 1)>>)]
  \o [i \in 1..2 |-> InsIn("ldmov", Reg(16 + i), <<Mem("ld", 80 + (16 * (i - 1)), RBUF, 0, 1)>>)]
  \o <<InsIn("mov", Reg(RFUEL), <<Imm(FromNat(FuelInit))>>), InsIn("mov", Reg(RCNT), <<Imm(Zero64)>>), InsIn("mov", Reg(RTMP), <<Imm(Zero64)>>),
       InsIn("mov", Reg(RTMP2), <<Imm(Zero64)>>)>>
  \o (IF Lean THEN <<>> ELSE
      [i \in 1..4 |-> InsIn("add", Reg(18 + i), <<Reg(RBUF), Imm(FromNat(120 + (8 * i)))>>)]      \* p_i = buf + 128, 136, 144, 152
      \o <<InsIn("and", Reg(RIDX), <<Reg(2), Imm(One64)>>), InsIn("add", Reg(RVAL), <<Reg(3), Imm(FromNat(5))>>)>>
      \o <<InsIn("mov", Reg(RPG), <<DRef>>),
           InsIn("mov", Mem("i64", 0, RPG, 0, 1), <<Reg(2)>>), InsIn("mov", Mem("i64", 8, RPG, 0, 1), <<Reg(3)>>)>>)   \* gdat reset per call
Epilogue ==
  (IF Lean THEN <<>> ELSE
   <<InsIn("add", Reg(7), <<Reg(7), Mem("i64", 0, RPG, 0, 1)>>), InsIn("xor", Reg(6), <<Reg(6), Mem("i64", 8, RPG, 0, 1)>>)>>   \* gdat is observable
   \o [i \in 1..4 |-> InsIn("add", Reg(5), <<Reg(5), Mem("u8", 0, 18 + i, 0, 1)>>)]                 \* every p_i is still live here
   \o <<InsIn("add", Reg(4), <<Reg(4), Reg(RIDX)>>), InsIn("xor", Reg(3), <<Reg(3), Reg(RVAL)>>)>>)
  \o [i \in 1..6 |-> InsIn("mov", Mem("i64", 192 + (8 * (i - 1)), RBUF, 0, 1), <<Reg(i + 1)>>)]
  \o [i \in 1..3 |-> InsIn("dmov", Mem("d", 240 + (8 * (i - 1)), RBUF, 0, 1), <<Reg(11 + i)>>)]
  \o [i \in 1..2 |-> InsIn("fmov", Mem("f", 264 + (4 * (i - 1)), RBUF, 0, 1), <<Reg(14 + i)>>)]
  \o [i \in 1..2 |-> InsIn("ldmov", Mem("ld", 272 + (16 * (i - 1)), RBUF, 0, 1), <<Reg(16 + i)>>)]
  \o (IF ~UseG THEN <<>> ELSE <<InsIn("mov", GV, <<Reg(RSAVE)>>)>>)   \* ... and put back before main returns
  \o <<[op |-> "ret", s |-> <<Reg(2)>>]>>

(* ---------------- helper functions (fixed) ------------------------------- *)
(* g1 (i8 a, u16 b) -> i32 : a*3 + b         exercises argument narrowing and result extension *)
G1 == [name |-> "g1", params |-> <<"i8", "u16">>, res |-> <<"i32">>, regty |-> <<"i", "i", "i">>,
       insns |-> <<InsIn("mul", Reg(3), <<Reg(1), Imm(FromNat(3))>>), InsIn("add", Reg(3), <<Reg(3), Reg(2)>>),
                   [op |-> "ret", s |-> <<Reg(3)>>]>>]
(* g2 (i64 n, i64 acc) -> i64 : if n <= 0 then acc else g2 (n-1, acc+n)      recursion *)
G2 == [name |-> "g2", params |-> <<"i64", "i64">>, res |-> <<"i64">>, regty |-> <<"i", "i", "i">>,
       insns |-> <<Br("ble", 6, <<Reg(1), Imm(Zero64)>>), InsIn("add", Reg(2), <<Reg(2), Reg(1)>>),
                   InsIn("sub", Reg(1), <<Reg(1), Imm(One64)>>),
                   [op |-> "call", callee |-> [k |-> "func", f |-> 3], res |-> <<Reg(3)>>, args |-> <<Reg(1), Reg(2)>>],
                   [op |-> "ret", s |-> <<Reg(3)>>], [op |-> "ret", s |-> <<Reg(2)>>]>>]
(* g3 (i64 a, d x) -> (i64, d) : (a + 1, x + x) with a local alloca            multiple results, callee alloca *)
G3 == [name |-> "g3", params |-> <<"i64", "d">>, res |-> <<"i64", "d">>, regty |-> <<"i", "d", "i", "d">>,
       insns |-> <<[op |-> "alloca", d |-> Reg(3), s |-> <<Imm(FromNat(16))>>],
                   InsIn("mov", Mem("i64", 8, 3, 0, 1), <<Reg(1)>>),
                   InsIn("add", Reg(1), <<Mem("i64", 8, 3, 0, 1), Imm(One64)>>),
                   InsIn("dadd", Reg(4), <<Reg(2), Reg(2)>>),
                   [op |-> "ret", s |-> <<Reg(1), Reg(4)>>]>>]

(* g4 (i64 n, i64 v) -> i64 : variable-size alloca (forces bstart/bend when inlined), two returns *)
G4 == [name |-> "g4", params |-> <<"i64", "i32">>, res |-> <<"i64">>, regty |-> <<"i", "i", "i", "i">>,
       insns |-> <<InsIn("and", Reg(3), <<Reg(1), Imm(FromNat(24))>>), InsIn("add", Reg(3), <<Reg(3), Imm(FromNat(16))>>),
                   [op |-> "alloca", d |-> Reg(4), s |-> <<Reg(3)>>],
                   InsIn("mov", Mem("i64", 8, 4, 0, 1), <<Reg(2)>>),
                   Br("blt", 7, <<Reg(2), Imm(Zero64)>>),
                   [op |-> "ret", s |-> <<Mem("i64", 8, 4, 0, 1)>>],
                   InsIn("neg", Reg(2), <<Mem("i64", 8, 4, 0, 1)>>),
                   [op |-> "ret", s |-> <<Reg(2)>>]>>]

(* g5 (i64 v) -> i64 : logs through ext_i (9, v) and returns 2*v + 1          callback target / indirect callee *)
G5 == [name |-> "g5", params |-> <<"i64">>, res |-> <<"i64">>, regty |-> <<"i", "i">>,
       insns |-> <<[op |-> "call", callee |-> [k |-> "ext"], res |-> <<Reg(2)>>, args |-> <<Imm(FromNat(9)), Reg(1)>>],
                   InsIn("add", Reg(2), <<Reg(1), Reg(1)>>), InsIn("add", Reg(2), <<Reg(2), Imm(One64)>>),
                   [op |-> "ret", s |-> <<Reg(2)>>]>>]
Ref(f) == [k |-> "ref", f |-> f]
(* g6 (i64 a, i64 b) -> i16 : two returns, narrow result type (every ret must be narrowed, also after return merging) *)
G6 == [name |-> "g6", params |-> <<"i64", "i64">>, res |-> <<"i16">>, regty |-> <<"i", "i">>,
       insns |-> <<Br("bge", 3, <<Reg(1), Reg(2)>>), [op |-> "ret", s |-> <<Reg(1)>>],
                   Br("beq", 5, <<Reg(2), Imm(FromNat(12345))>>), [op |-> "ret", s |-> <<Reg(2)>>],      \* both a and b leave through an early ret
                   [op |-> "ret", s |-> <<Imm(FromNat(77))>>]>>]
(* g9 (i64 a) -> i64 : inner callee with its own top-level alloca *)
G9 == [name |-> "g9", params |-> <<"i64">>, res |-> <<"i64">>, regty |-> <<"i", "i", "i">>,
       insns |-> <<[op |-> "alloca", d |-> Reg(2), s |-> <<Imm(FromNat(16))>>],
                   InsIn("mov", Mem("i64", 0, 2, 0, 1), <<Reg(1)>>), InsIn("mov", Mem("i64", 8, 2, 0, 1), <<Imm(FromNat(5))>>),
                   InsIn("add", Reg(3), <<Mem("i64", 0, 2, 0, 1), Mem("i64", 8, 2, 0, 1)>>), [op |-> "ret", s |-> <<Reg(3)>>]>>]
(* g7 (i64 a) -> i64 : outer callee: alloca, calls g9, and uses its own buffer after the call (nested inlined frames) *)
G7 == [name |-> "g7", params |-> <<"i64">>, res |-> <<"i64">>, regty |-> <<"i", "i", "i">>,
       insns |-> <<[op |-> "alloca", d |-> Reg(2), s |-> <<Imm(FromNat(16))>>],
                   InsIn("mov", Mem("i64", 8, 2, 0, 1), <<Reg(1)>>),
                   InsIn("mov", Mem("i64", 0, 2, 0, 1), <<Imm(FromNat(1000))>>),
                   [op |-> "call", callee |-> [k |-> "func", f |-> 10], res |-> <<Reg(3)>>, args |-> <<Reg(1)>>],
                   InsIn("add", Reg(3), <<Reg(3), Mem("i64", 8, 2, 0, 1)>>), InsIn("add", Reg(3), <<Reg(3), Mem("i64", 0, 2, 0, 1)>>),
                   [op |-> "ret", s |-> <<Reg(3)>>]>>]
(* g8 () -> i64 : no arguments; increments the first word of the module's bss item gdat (memory block 2) *)
G8 == [name |-> "g8", params |-> <<>>, res |-> <<"i64">>, regty |-> <<"i", "i">>,
       insns |-> <<InsIn("mov", Reg(1), <<DRef>>), InsIn("add", Mem("i64", 0, 1, 0, 1), <<Mem("i64", 0, 1, 0, 1), Imm(FromNat(100))>>),
                   InsIn("mov", Reg(2), <<Mem("i64", 0, 1, 0, 1)>>), [op |-> "ret", s |-> <<Reg(2)>>]>>]
(* g10 (rblk:16 x, i64 v) : writes its results through the return block;  g11 (blk:16 x) -> i64 : by-value block, modifies its copy *)
G10 == [name |-> "g10", params |-> <<"rblk16", "i64">>, res |-> <<>>, regty |-> <<"i", "i", "i">>,
        insns |-> <<InsIn("mov", Mem("i64", 0, 1, 0, 1), <<Reg(2)>>), InsIn("add", Reg(3), <<Reg(2), Imm(FromNat(7))>>),
                    InsIn("mov", Mem("i64", 8, 1, 0, 1), <<Reg(3)>>), [op |-> "ret", s |-> <<>>]>>]
G11 == [name |-> "g11", params |-> <<"blk16">>, res |-> <<"i64">>, regty |-> <<"i", "i">>,
        insns |-> <<InsIn("add", Reg(2), <<Mem("i64", 0, 1, 0, 1), Mem("i64", 8, 1, 0, 1)>>),
                    InsIn("mov", Mem("i64", 0, 1, 0, 1), <<Imm(Zero64)>>), InsIn("mov", Mem("i64", 8, 1, 0, 1), <<Imm(Ones64)>>),
                    [op |-> "ret", s |-> <<Reg(2)>>]>>]
BlkArg(ty, r) == [k |-> "blk", ty |-> ty, r |-> r]
(* g12 (u64 a) -> d : signed conversion of an unsigned-typed parameter *)
G12 == [name |-> "g12", params |-> <<"u64">>, res |-> <<"d">>, regty |-> <<"i", "d">>,
        insns |-> <<InsIn("i2d", Reg(2), <<Reg(1)>>), [op |-> "ret", s |-> <<Reg(2)>>]>>]
(* g13 (d p1 .. d p9) -> d : more floating-point arguments than SSE argument registers; (p8 - p7) + p9 + p1 *)
G13 == [name |-> "g13", params |-> <<"d", "d", "d", "d", "d", "d", "d", "d", "d">>, res |-> <<"d">>,
        regty |-> <<"d", "d", "d", "d", "d", "d", "d", "d", "d", "d">>,
        insns |-> <<InsIn("dsub", Reg(10), <<Reg(8), Reg(7)>>), InsIn("dadd", Reg(10), <<Reg(10), Reg(9)>>),
                    InsIn("dadd", Reg(10), <<Reg(10), Reg(1)>>), [op |-> "ret", s |-> <<Reg(10)>>]>>]
(* g14 (i64 a, i64 b, i64 c, i64 d, blk1:16 x) -> i64 : a 16-byte INTEGER-class block ending exactly at the 6th integer register *)
G14 == [name |-> "g14", params |-> <<"i64", "i64", "i64", "i64", "blk1_16">>, res |-> <<"i64">>, regty |-> <<"i", "i", "i", "i", "i", "i">>,
        insns |-> <<InsIn("add", Reg(6), <<Mem("i64", 0, 5, 0, 1), Mem("i64", 8, 5, 0, 1)>>), InsIn("add", Reg(6), <<Reg(6), Reg(1)>>),
                    InsIn("sub", Reg(6), <<Reg(6), Reg(4)>>), InsIn("mov", Mem("i64", 8, 5, 0, 1), <<Imm(Ones64)>>),
                    [op |-> "ret", s |-> <<Reg(6)>>]>>]
(* g15 (p x, i64 v) -> i64 : x is the address of a variable of the caller (addr insn): returns the old value + v, stores v *)
G15 == [name |-> "g15", params |-> <<"p", "i64">>, res |-> <<"i64">>, regty |-> <<"i", "i", "i">>,
        insns |-> <<InsIn("mov", Reg(3), <<Mem("i64", 0, 1, 0, 1)>>), InsIn("add", Reg(3), <<Reg(3), Reg(2)>>),
                    InsIn("mov", Mem("i64", 0, 1, 0, 1), <<Reg(2)>>), [op |-> "ret", s |-> <<Reg(3)>>]>>]
(* g16 (i64 n, ...) -> i64, d : sums n variable i64 arguments, then doubles the double argument that follows them *)
G16 == [name |-> "g16", params |-> <<"i64">>, vararg |-> TRUE, res |-> <<"i64", "d">>, regty |-> <<"i", "i", "i", "i", "d">>,
        insns |-> <<[op |-> "alloca", d |-> Reg(2), s |-> <<Imm(FromNat(32))>>],
                    [op |-> "va_start", s |-> <<Reg(2)>>],
                    InsIn("mov", Reg(3), <<Imm(Zero64)>>),
                    Br("ble", 9, <<Reg(1), Imm(Zero64)>>),
                    [op |-> "va_arg", d |-> Reg(4), s |-> <<Reg(2)>>, ty |-> "i64"],
                    InsIn("add", Reg(3), <<Reg(3), Mem("i64", 0, 4, 0, 1)>>),
                    InsIn("sub", Reg(1), <<Reg(1), Imm(One64)>>),
                    [op |-> "jmp", l |-> 4],
                    [op |-> "va_arg", d |-> Reg(4), s |-> <<Reg(2)>>, ty |-> "d"],
                    InsIn("dmov", Reg(5), <<Mem("d", 0, 4, 0, 1)>>),
                    InsIn("dadd", Reg(5), <<Reg(5), Reg(5)>>),
                    [op |-> "va_end", s |-> <<Reg(2)>>],
                    [op |-> "ret", s |-> <<Reg(3), Reg(5)>>]>>]
(* g17 (i64 a) -> i64 : shares the global variable with main: gv := gv + a; returns gv + 1 *)
G17 == [name |-> "g17", params |-> <<"i64">>, res |-> <<"i64">>, regty |-> <<"i", "i">>, gvar |-> TRUE,
        insns |-> <<InsIn("add", GV, <<GV, Reg(1)>>), InsIn("mov", Reg(2), <<GV>>), InsIn("add", Reg(2), <<Reg(2), Imm(One64)>>),
                    [op |-> "ret", s |-> <<Reg(2)>>]>>]
(* g18 (blk:12 x, i64 v) -> i64, g19 (blk:20 x) -> i64, g20 (blk:4 x) -> i64 : by-value blocks whose size is not a multiple of 8;
   each reads its last bytes and changes its own copy *)
G18 == [name |-> "g18", params |-> <<"blk12", "i64">>, res |-> <<"i64">>, regty |-> <<"i", "i", "i">>,
        insns |-> <<InsIn("add", Reg(3), <<Mem("i64", 0, 1, 0, 1), Reg(2)>>), InsIn("add", Reg(3), <<Reg(3), Mem("i32", 8, 1, 0, 1)>>),
                    InsIn("mov", Mem("i32", 8, 1, 0, 1), <<Imm(Zero64)>>), InsIn("mov", Mem("i64", 0, 1, 0, 1), <<Imm(Ones64)>>),
                    [op |-> "ret", s |-> <<Reg(3)>>]>>]
G19 == [name |-> "g19", params |-> <<"blk20">>, res |-> <<"i64">>, regty |-> <<"i", "i">>,
        insns |-> <<InsIn("xor", Reg(2), <<Mem("i64", 0, 1, 0, 1), Mem("i64", 8, 1, 0, 1)>>), InsIn("add", Reg(2), <<Reg(2), Mem("u32", 16, 1, 0, 1)>>),
                    InsIn("mov", Mem("i32", 16, 1, 0, 1), <<Imm(Ones64)>>), InsIn("mov", Mem("i64", 8, 1, 0, 1), <<Imm(Zero64)>>),
                    [op |-> "ret", s |-> <<Reg(2)>>]>>]
G20 == [name |-> "g20", params |-> <<"blk4">>, res |-> <<"i64">>, regty |-> <<"i", "i">>,
        insns |-> <<InsIn("mov", Reg(2), <<Mem("i32", 0, 1, 0, 1)>>), InsIn("mov", Mem("u16", 2, 1, 0, 1), <<Imm(Zero64)>>),
                    InsIn("add", Reg(2), <<Reg(2), Mem("u16", 0, 1, 0, 1)>>), [op |-> "ret", s |-> <<Reg(2)>>]>>]
(* g21 (i64 a) -> u32 : a + 1 as an unsigned 32-bit result: the caller must see it zero-extended *)
G21 == [name |-> "g21", params |-> <<"i64">>, res |-> <<"u32">>, regty |-> <<"i", "i">>,
        insns |-> <<InsIn("add", Reg(2), <<Reg(1), Imm(One64)>>), [op |-> "ret", s |-> <<Reg(2)>>]>>]
(* g22 (i64 a) -> i64 : a four-way switch on a & 3 (a jump table with absolute addresses in the generated code) *)
G22 == [name |-> "g22", params |-> <<"i64">>, res |-> <<"i64">>, regty |-> <<"i", "i">>,
        insns |-> <<InsIn("and", Reg(2), <<Reg(1), Imm(FromNat(3))>>),
                    [op |-> "switch", s |-> <<Reg(2)>>, ls |-> <<3, 4, 5, 6>>],
                    [op |-> "ret", s |-> <<Imm(FromNat(1000))>>], [op |-> "ret", s |-> <<Reg(1)>>],
                    [op |-> "ret", s |-> <<Imm(FromNat(77))>>], [op |-> "ret", s |-> <<Reg(2)>>]>>]
(* g23 (i64 a) -> i64 : the rarely taken path is placed behind the final ret and jumps back (cold code after the return) *)
G23 == [name |-> "g23", params |-> <<"i64">>, res |-> <<"i64">>, regty |-> <<"i", "i">>,
        insns |-> <<Br("blt", 4, <<Reg(1), Imm(Zero64)>>), InsIn("add", Reg(2), <<Reg(1), Imm(One64)>>),
                    [op |-> "ret", s |-> <<Reg(2)>>],
                    InsIn("neg", Reg(1), <<Reg(1)>>), InsIn("add", Reg(2), <<Reg(1), Imm(FromNat(100))>>), InsIn("xor", Reg(2), <<Reg(2), Imm(FromNat(5))>>),
                    [op |-> "jmp", l |-> 3]>>]
(* g24 (f a, d b) -> d : a float parameter (passed as raw 32 bits, not promoted) ;  g25 (i64 a, blk1:8 x) -> i64 : an 8-byte INTEGER-class block
   (with g14's 16-byte one: two call signatures that differ only in the size of a register-passed block) *)
G24 == [name |-> "g24", params |-> <<"f", "d">>, res |-> <<"d">>, regty |-> <<"f", "d", "d">>,
        insns |-> <<InsIn("f2d", Reg(3), <<Reg(1)>>), InsIn("dadd", Reg(3), <<Reg(3), Reg(2)>>), [op |-> "ret", s |-> <<Reg(3)>>]>>]
G25 == [name |-> "g25", params |-> <<"i64", "blk1_8">>, res |-> <<"i64">>, regty |-> <<"i", "i", "i">>,
        insns |-> <<InsIn("add", Reg(3), <<Mem("i64", 0, 2, 0, 1), Reg(1)>>), InsIn("mov", Mem("i64", 0, 2, 0, 1), <<Imm(Ones64)>>),
                    [op |-> "ret", s |-> <<Reg(3)>>]>>]
(* g26 (i64 a, blk1:16 x) -> i64 : the signature of g25 with a 16-byte block *)
G26 == [name |-> "g26", params |-> <<"i64", "blk1_16">>, res |-> <<"i64">>, regty |-> <<"i", "i", "i">>,
        insns |-> <<InsIn("add", Reg(3), <<Mem("i64", 0, 2, 0, 1), Reg(1)>>), InsIn("xor", Reg(3), <<Reg(3), Mem("i64", 8, 2, 0, 1)>>),
                    [op |-> "ret", s |-> <<Reg(3)>>]>>]
FImm(fmt, x) == [k |-> "fimm", fmt |-> fmt, x |-> x]
FImmVals == {Fin(0, 1, 0), Fin(1, 3, -1), Fin(0, 5, -3), Fin(0, 3, 20), Fin(0, 13, -4), FZero(0), Fin(0, 3, -40), Fin(1, 7, -33)}

(* ---------------- domains of template holes ------------------------------ *)
SmallImms == {Zero64, One64, Ones64, FromNat(2), FromNat(3), FromNat(7), FromNat(255), FromNat(256), FromNat(65535),
              <<65535, 32767, 0, 0>>, <<0, 32768, 0, 0>>, <<0, 0, 1, 0>>, MinS64, MaxS64, <<21845, 21845, 21845, 21845>>}
IntMemTys == {"i8", "u8", "i16", "u16", "i32", "u32", "i64"}
(* alias discipline: name "A" only on bytes 128..143, name "B" only on bytes 144..159, so the promise is kept by construction *)
IntScratch == {Mem(ty, d, RBUF, 0, 1) : ty \in IntMemTys, d \in {128, 129, 132, 136, 144, 152}}
              \cup {MemA(ty, d, "A") : ty \in IntMemTys, d \in {128, 129, 132}}
              \cup {MemA(ty, d, "B") : ty \in IntMemTys, d \in {144, 148, 152}}
ISrc == {Reg(r) : r \in IRegs} \cup {Imm(w) : w \in SmallImms} \cup IntScratch
ISrcReg == {Reg(r) : r \in IRegs}
IDst == {Reg(r) : r \in IRegs} \cup {Mem(ty, d, RBUF, 0, 1) : ty \in {"i8", "i16", "u32", "i64"}, d \in {128, 136, 144}}
        \cup {MemA(ty, 128, "A") : ty \in {"i8", "u32", "i64"}} \cup {MemA(ty, 132, "A") : ty \in {"i16", "i64"}}
        \cup {MemA(ty, 144, "B") : ty \in {"i16", "i64"}} \cup {MemA(ty, 152, "B") : ty \in {"u8", "i32"}}
MemOps == {x \in IntScratch \cup IDst : x.k = "mem"}
ASSUME AliasPromiseKept ==
  \A x \in MemOps, y \in MemOps :
    (x.al # "" /\ y.al # "" /\ x.al # y.al) => (x.disp + TySize(x.ty) <= y.disp \/ y.disp + TySize(y.ty) <= x.disp)
SafeBin == (IntArith \cup IntCmp) \ {"div", "divs", "udiv", "udivs", "mod", "mods", "umod", "umods", "lsh", "lshs", "rsh", "rshs", "ursh", "urshs"}
Shifts64 == {"lsh", "rsh", "ursh"}   Shifts32 == {"lshs", "rshs", "urshs"}
Divs == {"div", "divs", "udiv", "udivs", "mod", "mods", "umod", "umods"}
FpRegsOf(fmt) == CASE fmt = "d" -> DRegs [] fmt = "f" -> FRegs [] fmt = "ld" -> LRegs
FpScratch(fmt) == CASE fmt = "d" -> {Mem("d", 160, RBUF, 0, 1), Mem("d", 168, RBUF, 0, 1)}
                    [] fmt = "f" -> {Mem("f", 176, RBUF, 0, 1), Mem("f", 180, RBUF, 0, 1)}
                    [] fmt = "ld" -> {Mem("ld", 112, RBUF, 0, 1)}
FSrc(fmt) == {Reg(r) : r \in FpRegsOf(fmt)} \cup FpScratch(fmt) \cup {FImm(fmt, x) : x \in FImmVals}
FDst(fmt) == {Reg(r) : r \in FpRegsOf(fmt)} \cup FpScratch(fmt)
FwdSlots == {s \in slot + 1..slot + 3 : s <= NSlots + 1}
BackSlots == 1..slot
Fmts == {"d", "f", "ld"}
Pfx(fmt) == fmt

KindsInt == {"ibin", "iun", "shift", "div", "br2", "br1", "loop", "ovf", "switch", "callg1", "callg2", "ext", "alloca", "jmpi", "idx",
             "pld", "pst", "alloca2", "gcall", "dload", "qload", "qloadf", "lref1", "lref2", "addrst", "addrld", "addrcall", "bsblk", "rload", "rcall", "lref3", "ext2", "alloca3", "br1i", "divm", "pidxst", "postinc"}
KindsFp == {"fbin", "fcmp", "fbr", "i2f", "f2i", "fmovm", "f2f", "callg3", "addrfp", "callva"}
(* "link": the constructs MIR_link rewrites (calls to inline, allocas, jumps and branch chains, memory operands) *)
KindsLink == {"callg1", "callg2", "callg3", "callg13", "ext", "alloca", "br2", "br1", "loop", "switch", "ibin", "idx", "jmpi", "ovf", "calla",
              "callg6", "callg7", "gcall", "rblk", "blkv", "blkv12", "blkv20", "blkv4", "callg21", "icall21", "callg22", "callg23", "callg24", "icall24", "callg25", "icall2526", "alloca2", "lref1", "lref2", "addrst", "addrcall", "bsblk", "callva", "rcall", "lref3", "ext2", "alloca3", "br1i", "divm", "postinc"}
KindsOf == IF Vocab = "int" THEN KindsInt ELSE IF Vocab = "link" THEN KindsLink
         ELSE IF Vocab = "exec" THEN {"callg1", "callg2", "callg3", "calla", "ext", "icall", "icall5", "cb", "jmpi", "switch", "br2", "loop",
                                      "ibin", "alloca", "fbin", "idx", "callg6", "callg7", "gcall", "rblk", "blkv", "blkv12", "blkv20", "blkv4", "callg21", "icall21", "callg22", "callg23", "callg24", "icall24", "callg25", "icall2526", "callg12", "callg13", "callg14", "fmovm", "lref1", "lref2", "addrcall", "addrld", "bsblk", "callva", "rload", "rcall", "lref3", "alloca3"}
         ELSE IF Vocab = "single" THEN (KindsInt \cup KindsFp \cup {"calla", "callg6", "callg7", "rblk", "blkv", "blkv12", "blkv20", "blkv4", "callg21", "icall21", "callg22", "callg23", "callg24", "icall24", "callg25", "icall2526", "callg12", "callg13",
                                                                      "callg14", "icall", "icall5"}) \ {"callg3", "callva"}   \* functions with at most one result
         ELSE KindsInt \cup KindsFp \cup {"calla", "callg6", "callg7", "rblk", "blkv", "blkv12", "blkv20", "blkv4", "callg21", "icall21", "callg22", "callg23", "callg24", "icall24", "callg25", "icall2526", "callg12", "callg13", "callg14"}
NeedFull == {"pld", "pst", "gcall", "pidxst"}
KindsGlob == IF ~UseG THEN {} ELSE {"gset", "gget", "gadd"} \cup (IF Glob = "calls" THEN {"gcall2"} ELSE {})
KindsAbs == IF Abs /\ Vocab \in {"all", "link", "int", "single"} THEN {"absld", "absst", "absd"} ELSE {}
Kinds == (IF Lean THEN KindsOf \ NeedFull ELSE KindsOf) \cup KindsAbs \cup KindsGlob

(* holes of each kind, in order; a hole name selects its domain below *)
PA == 23 + slot        \* the alloca pointer register of the current slot
RBS == 23 + NSlots + slot   \* the stack-mark register of the current slot
Holes(k) ==
  CASE k = "ibin" -> <<"safebin", "idst", "isrc", "isrc">>
    [] k = "iun" -> <<"iun", "idst", "isrc">>
    [] k = "shift" -> <<"shiftop", "idst", "isrc", "cnt">>
    [] k = "div" -> <<"divop", "idst", "isrc", "isrcreg">>
    [] k = "br2" -> <<"brop", "fwd", "isrc", "isrc">>
    [] k = "br1" -> <<"br1op", "fwd", "isrc">>
    [] k = "loop" -> <<"brop", "back", "isrc", "isrc">>
    [] k = "ovf" -> <<"ovfop", "ovfbr", "idst", "isrc", "isrc", "fwd">>
    [] k = "switch" -> <<"isrcreg", "fwd", "fwd", "fwd">>
    [] k = "callg1" -> <<"ireg", "isrc", "isrc">>
    [] k = "callg2" -> <<"ireg", "isrcreg", "isrc">>
    [] k = "ext" -> <<"ireg", "extid", "isrc">>
    [] k = "alloca" -> <<"asize", "isrc", "ireg">>
    [] k = "jmpi" -> <<"fwd">>
    [] k = "lref1" -> <<"fwd">>
    [] k = "lref2" -> <<"fwd", "anyslot">>
    [] k = "lref3" -> <<"fwd", "anyslot">>
    [] k = "postinc" -> <<"ireg", "cntk">>
    [] k = "ext2" -> <<"extop", "extop", "idst", "isrc">>
    [] k = "alloca3" -> <<"asz1", "asz2", "isrc", "ireg">>
    [] k = "br1i" -> <<"br1op", "fwd", "bimm">>
    [] k = "divm" -> <<"divop32", "idst", "isrcreg", "isrcreg", "imem32">>
    [] k = "pidxst" -> <<"imemty4", "preg", "isrcreg", "isrcreg", "scale124">>
    [] k = "idx" -> <<"isrcreg", "imemty", "ireg", "scale">>
    [] k = "gset" -> <<"isrc">>
    [] k = "gget" -> <<"ireg">>
    [] k = "gadd" -> <<"safebin", "isrc">>
    [] k = "gcall2" -> <<"ireg", "isrc">>
    [] k = "absld" -> <<"ireg", "imemty", "ascale", "aoff">>
    [] k = "absst" -> <<"imemty", "ascale", "aoff", "isrc">>
    [] k = "absd" -> <<"ireg", "imemty", "aoff">>
    [] k = "rload" -> <<"ireg", "imemty">>
    [] k = "rcall" -> <<"ireg", "isrc">>
    [] k = "bsblk" -> <<"ireg", "isrc", "asize">>
    [] k = "callva" -> <<"ireg", "nva", "isrc", "isrc", "isrc", "dsrc">>
    [] k = "addrst" -> <<"ireg", "aty", "isrc", "ireg">>
    [] k = "addrld" -> <<"ireg", "aty", "ireg">>
    [] k = "addrcall" -> <<"ireg", "ireg", "isrc">>
    [] k = "addrfp" -> <<"fmt", "fsrc">>
    [] k = "fbin" -> <<"fmt", "fop", "fdst", "fsrc", "fsrc">>
    [] k = "fcmp" -> <<"fmt", "fcmp", "ireg", "fsrc", "fsrc">>
    [] k = "fbr" -> <<"fmt", "fcmp", "fwd", "fsrc", "fsrc">>
    [] k = "i2f" -> <<"fmt", "i2fop", "fdst", "isrc">>
    [] k = "f2i" -> <<"fmt", "ireg", "fsrc">>
    [] k = "fmovm" -> <<"fmt", "fdst", "fsrc">>
    [] k = "f2f" -> <<"fmt", "fmt2", "fsrc">>
    [] k = "callg3" -> <<"ireg", "isrc">>
    [] k = "calla" -> <<"ireg", "isrc", "isrc">>
    [] k = "icall" -> <<"ireg", "isrc", "isrc">>
    [] k = "icall5" -> <<"ireg", "isrc">>
    [] k = "callg22" -> <<"ireg", "isrc">>
    [] k = "callg23" -> <<"ireg", "isrc">>
    [] k = "callg24" -> <<"ffreg", "dsrc">>
    [] k = "icall24" -> <<"ffreg", "dsrc">>
    [] k = "callg25" -> <<"ireg", "isrc", "isrc">>
    [] k = "icall2526" -> <<"ireg", "isrc", "isrc">>
    [] k = "callg21" -> <<"ireg", "isrc">>
    [] k = "icall21" -> <<"ireg", "isrc">>
    [] k = "cb" -> <<"ireg", "extid", "isrc">>
    [] k = "callg6" -> <<"ireg", "isrc", "isrc">>
    [] k = "callg7" -> <<"ireg", "isrc">>
    [] k = "gcall" -> <<"ireg", "ireg">>
    [] k = "rblk" -> <<"ireg", "isrc">>
    [] k = "blkv" -> <<"ireg", "isrc">>
    [] k = "blkv12" -> <<"ireg", "isrc", "isrc">>
    [] k = "blkv20" -> <<"ireg", "isrc", "isrc">>
    [] k = "blkv4" -> <<"ireg", "isrc">>
    [] k = "pld" -> <<"ireg", "imemty", "preg">>
    [] k = "pst" -> <<"imemty", "preg", "isrc">>
    [] k = "alloca2" -> <<"ireg", "isrc", "subld">>
    [] k = "dload" -> <<"ireg", "dmem">>
    [] k = "qload" -> <<"ireg", "qmem">>
    [] k = "qloadf" -> <<"qfmem">>
    [] k = "callg12" -> <<"isrc">>
    [] k = "callg13" -> <<"dsrc", "dsrc", "dsrc">>
    [] k = "callg14" -> <<"ireg", "isrc", "isrc", "isrc">>
CurFmt == cur.vals[1]       \* for fp kinds the first hole is the format
Dom(h) ==
  CASE h = "safebin" -> SafeBin [] h = "iun" -> IntUnary [] h = "idst" -> IDst [] h = "isrc" -> ISrc [] h = "isrcreg" -> ISrcReg
    [] h = "ireg" -> {Reg(r) : r \in IRegs}
    [] h = "shiftop" -> Shifts64 \cup Shifts32
    [] h = "cnt" -> {Imm(FromNat(n)) : n \in {0, 1, 5, 31}} \cup (IF cur.vals[1] \in Shifts64 THEN {Imm(FromNat(n)) : n \in {32, 63}} ELSE {})
    [] h = "divop" -> Divs
    [] h = "brop" -> IntBranch [] h = "br1op" -> Br1
    [] h = "fwd" -> FwdSlots [] h = "back" -> BackSlots [] h = "anyslot" -> FwdSlots \cup BackSlots
    [] h = "ovfop" -> IntOvf
    [] h = "ovfbr" -> {b \in OvfBr : FlagDefined(cur.vals[1], b)}
    [] h = "extid" -> {Imm(FromNat(n)) : n \in 1..3}
    [] h = "asize" -> {Imm(FromNat(n)) : n \in {16, 24, 40}}
    [] h = "imemty" -> IntMemTys [] h = "scale" -> {1, 2, 4, 8}
    [] h = "fmt" -> Fmts
    [] h = "fmt2" -> Fmts \ {CurFmt}
    [] h = "fop" -> {"add", "sub", "mul", "div"}
    [] h = "fcmp" -> FpCmp
    [] h = "fdst" -> FDst(CurFmt) [] h = "fsrc" -> FSrc(CurFmt)
    [] h = "i2fop" -> {"i2", "ui2"}
    [] h = "preg" -> PRegs
    [] h = "nva" -> 0..3 [] h = "cntk" -> {2, 3, 5}
    [] h = "extop" -> {"ext8", "ext16", "ext32", "uext8", "uext16", "uext32"}
    [] h = "asz1" -> {4, 8, 12, 20} [] h = "asz2" -> {8, 16, 24, 40}
    [] h = "bimm" -> {Imm(<<0, 0, 1, 0>>), Imm(<<0, 0, 3, 0>>), Imm(<<1, 0, 1, 0>>), Imm(Zero64), Imm(One64), Imm(MinS64), Imm(<<0, 32768, 0, 0>>)}
    [] h = "divop32" -> {"divs", "mods", "udivs", "umods"}
    [] h = "imem32" -> {"i32", "u32"}
    [] h = "imemty4" -> {"i8", "u8", "i16", "u16", "i32", "u32"} [] h = "scale124" -> {1, 2, 4}      \* stays inside bytes 128..159
    [] h = "ascale" -> {2, 4, 8} [] h = "aoff" -> {128, 136, 144, 152}
    [] h = "aty" -> {[insn |-> "addr", ty |-> "i64"], [insn |-> "addr32", ty |-> "i32"], [insn |-> "addr32", ty |-> "u32"],
                     [insn |-> "addr16", ty |-> "i16"], [insn |-> "addr16", ty |-> "u16"], [insn |-> "addr8", ty |-> "i8"],
                     [insn |-> "addr8", ty |-> "u8"]}
    [] h = "dmem" -> {Mem("i32", 0, RTMP, 0, 1), Mem("i32", 4, RTMP, 0, 1), Mem("u32", 8, RTMP, 0, 1), Mem("i64", 12, RTMP, 0, 1),
                      Mem("u8", 1, RTMP, 0, 1), Mem("i16", 6, RTMP, 0, 1)}
    [] h = "qmem" -> {Mem("i64", 0, RTMP, 0, 1), Mem("i64", 24, RTMP, 0, 1), Mem("u8", 24, RTMP, 0, 1), Mem("i32", 28, RTMP, 0, 1), Mem("u16", 2, RTMP, 0, 1)}
    [] h = "qfmem" -> {Mem("ld", 8, RTMP, 0, 1)}
    [] h = "dsrc" -> {Reg(r) : r \in DRegs}
    [] h = "ffreg" -> {Reg(r) : r \in FRegs}
    [] h = "subld" -> {Mem("u8", 12, PA, 0, 1), Mem("u16", 14, PA, 0, 1), Mem("i32", 12, PA, 0, 1), Mem("u8", 9, PA, 0, 1), Mem("i16", 10, PA, 0, 1)}

ExtOf(ty) == CASE ty = "i8" -> "ext8" [] ty = "u8" -> "uext8" [] ty = "i16" -> "ext16" [] ty = "u16" -> "uext16"
               [] ty = "i32" -> "ext32" [] ty = "u32" -> "uext32" [] OTHER -> "mov"
(* instruction records of a filled template; labels are SLOT numbers until Finalize *)
NextSlot == slot + 1
HasField(I, f) == f \in DOMAIN I
LrIdx == {i \in 1..Len(body) : HasField(body[i], "lr")}      \* the jmpi insns that own an lref item, in order
NLr == Cardinality(LrIdx)
Render(k, v) ==
  CASE k = "ibin" -> <<InsIn(v[1], v[2], <<v[3], v[4]>>)>>
    [] k = "iun" -> <<InsIn(v[1], v[2], <<v[3]>>)>>
    [] k = "shift" -> <<InsIn(v[1], v[2], <<v[3], v[4]>>)>>
    [] k = "div" -> <<InsIn("or", Reg(RTMP), <<v[4], Imm(One64)>>), InsIn(v[1], v[2], <<v[3], Reg(RTMP)>>)>>
    [] k = "br2" -> <<Br(v[1], v[2], <<v[3], v[4]>>)>>
    [] k = "br1" -> <<Br(v[1], v[2], <<v[3]>>)>>
    [] k = "loop" -> <<InsIn("sub", Reg(RFUEL), <<Reg(RFUEL), Imm(One64)>>), Br("ble", NextSlot, <<Reg(RFUEL), Imm(Zero64)>>),
                       Br(v[1], v[2], <<v[3], v[4]>>)>>
    [] k = "ovf" -> <<InsIn(v[1], v[3], <<v[4], v[5]>>), [op |-> v[2], l |-> v[6], s |-> <<>>]>>
    [] k = "switch" -> <<InsIn("and", Reg(RTMP), <<v[1], Imm(FromNat(3))>>),
                         [op |-> "switch", s |-> <<Reg(RTMP)>>, ls |-> <<v[2], v[3], v[4], NextSlot>>]>>
    [] k = "callg1" -> <<[op |-> "call", callee |-> [k |-> "func", f |-> 2], res |-> <<v[1]>>, args |-> <<v[2], v[3]>>]>>
    [] k = "callg2" -> <<InsIn("and", Reg(RTMP), <<v[2], Imm(FromNat(7))>>),
                         [op |-> "call", callee |-> [k |-> "func", f |-> 3], res |-> <<v[1]>>, args |-> <<Reg(RTMP), v[3]>>]>>
    [] k = "ext" -> <<[op |-> "call", callee |-> [k |-> "ext"], res |-> <<v[1]>>, args |-> <<v[2], v[3]>>]>>
    [] k = "alloca" -> <<[op |-> "alloca", d |-> Reg(PA), s |-> <<v[1]>>],
                         InsIn("mov", Mem("i64", 8, PA, 0, 1), <<v[2]>>),
                         InsIn("mov", Mem("i32", 4, PA, 0, 1), <<Imm(FromNat(77))>>),
                         InsIn("add", v[3], <<Mem("i64", 8, PA, 0, 1), Mem("u32", 4, PA, 0, 1)>>)>>
    [] k = "jmpi" -> <<[op |-> "laddr", d |-> Reg(RTMP2), l |-> v[1]], [op |-> "jmpi", s |-> <<Reg(RTMP2)>>]>>
    \* the global variable tied to a hard register: written, read, operand and destination of arithmetic, shared with a callee
    [] k = "gset" -> <<InsIn("mov", GV, <<v[1]>>)>>
    [] k = "gget" -> <<InsIn("mov", v[1], <<GV>>)>>
    [] k = "gadd" -> <<InsIn(v[1], GV, <<GV, v[2]>>)>>
    [] k = "gcall2" -> <<[op |-> "call", callee |-> [k |-> "func", f |-> 18], res |-> <<v[1]>>, args |-> <<v[2]>>]>>
    \* the buffer addressed by number: index * scale without base and displacement, and a displacement alone
    [] k = "absld" -> <<InsIn("mov", Reg(RTMP), <<Imm(FromNat((AbsBaseNat + v[4]) \div v[3]))>>),
                        InsIn("mov", v[1], <<Mem(v[2], 0, 0, RTMP, v[3])>>)>>
    [] k = "absst" -> <<InsIn("mov", Reg(RTMP), <<Imm(FromNat((AbsBaseNat + v[3]) \div v[2]))>>),
                        InsIn("mov", Mem(v[1], 0, 0, RTMP, v[2]), <<v[4]>>)>>
    [] k = "absd" -> <<InsIn("mov", v[1], <<Mem(v[2], AbsBaseNat + v[3], 0, 0, 1)>>)>>
    \* reference data items: a pointer to gdat + 8 and a function address, both read from the module's reference section
    [] k = "rload" -> <<InsIn("mov", Reg(RTMP), <<DRef5>>), InsIn("mov", Reg(RTMP), <<Mem("i64", 0, RTMP, 0, 1)>>),
                        InsIn("mov", v[1], <<Mem(v[2], 0, RTMP, 0, 1)>>)>>
    [] k = "rcall" -> <<InsIn("mov", Reg(RTMP), <<DRef5>>), InsIn("mov", Reg(RTMP2), <<Mem("i64", 8, RTMP, 0, 1)>>),
                        [op |-> "call", callee |-> [k |-> "reg", r |-> RTMP2, f |-> 6], res |-> <<v[1]>>, args |-> <<v[2]>>]>>
    \* a block with automatic release of its alloca memory (also executed repeatedly inside loops)
    [] k = "bsblk" -> <<[op |-> "bstart", d |-> Reg(RBS), s |-> <<>>], [op |-> "alloca", d |-> Reg(PA), s |-> <<v[3]>>],
                        InsIn("mov", Mem("i64", 8, PA, 0, 1), <<v[2]>>), InsIn("add", v[1], <<Mem("i64", 8, PA, 0, 1), Imm(FromNat(3))>>),
                        [op |-> "bend", s |-> <<Reg(RBS)>>]>>
    \* call of a MIR function with a variable number of arguments: n integers, then a double
    [] k = "callva" -> <<[op |-> "call", callee |-> [k |-> "func", f |-> 17], res |-> <<v[1], Reg(12)>>,
                          args |-> <<Imm(FromNat(v[2]))>> \o SubSeq(<<v[3], v[4], v[5]>>, 1, v[2]) \o <<v[6]>>]>>
    \* variables whose address is taken: store / load through the address (every width), a callee writing the caller's
    \* variable, an FP variable written through its address; the variable stays an ordinary register everywhere else
    \* after a narrow store only the stored bytes of the variable are defined: it is re-extended from its own width, as a compiler does
    [] k = "addrst" -> <<InsIn(v[2].insn, Reg(RTMP), <<v[1]>>), InsIn("mov", Mem(v[2].ty, 0, RTMP, 0, 1), <<v[3]>>),
                         InsIn(ExtOf(v[2].ty), v[1], <<v[1]>>), InsIn("add", v[4], <<v[1], Imm(One64)>>)>>
    [] k = "addrld" -> <<InsIn(v[2].insn, Reg(RTMP), <<v[1]>>), InsIn("mov", v[3], <<Mem(v[2].ty, 0, RTMP, 0, 1)>>)>>
    [] k = "addrcall" -> <<InsIn("addr", Reg(RTMP), <<v[1]>>),
                           [op |-> "call", callee |-> [k |-> "func", f |-> 16], res |-> <<v[2]>>, args |-> <<Reg(RTMP), v[3]>>]>>
    [] k = "addrfp" -> LET fr == Reg(CHOOSE r \in FpRegsOf(v[1]) : \A q \in FpRegsOf(v[1]) : r <= q) IN
                       <<InsIn("addr", Reg(RTMP), <<fr>>), InsIn(v[1] \o "mov", Mem(v[1], 0, RTMP, 0, 1), <<v[2]>>)>>
    \* computed jumps through label-reference data items of the function: the n-th lref slot owns bytes 8n..8n+7 of section lr_main;
    \* lref1: item `lref target` holds the label address; lref2: item `lref target, base` holds the distance from label base
    [] k = "lref1" -> <<InsIn("mov", Reg(RTMP), <<DRef4>>), InsIn("mov", Reg(RTMP2), <<Mem("i64", 8 * NLr, RTMP, 0, 1)>>),
                        [op |-> "jmpi", s |-> <<Reg(RTMP2)>>, lr |-> [l |-> v[1], l2 |-> 0, d |-> 0]]>>
    [] k = "lref2" -> <<[op |-> "laddr", d |-> Reg(RTMP2), l |-> v[2]], InsIn("mov", Reg(RTMP), <<DRef4>>),
                        InsIn("mov", Reg(RTMP), <<Mem("i64", 8 * NLr, RTMP, 0, 1)>>), InsIn("add", Reg(RTMP2), <<Reg(RTMP2), Reg(RTMP)>>),
                        [op |-> "jmpi", s |-> <<Reg(RTMP2)>>, lr |-> [l |-> v[1], l2 |-> v[2], d |-> 0]]>>
    \* a biased distance table entry `lref target, base, 1` (0 would mean "no handler"): the bias is taken off before use
    [] k = "lref3" -> <<[op |-> "laddr", d |-> Reg(RTMP2), l |-> v[2]], InsIn("mov", Reg(RTMP), <<DRef4>>),
                        InsIn("mov", Reg(RTMP), <<Mem("i64", 8 * NLr, RTMP, 0, 1)>>), InsIn("sub", Reg(RTMP), <<Reg(RTMP), Imm(One64)>>),
                        InsIn("add", Reg(RTMP2), <<Reg(RTMP2), Reg(RTMP)>>),
                        [op |-> "jmpi", s |-> <<Reg(RTMP2)>>, lr |-> [l |-> v[1], l2 |-> v[2], d |-> 1]]>>
    \* `while (c++ < K) n++;` as one block that is its own predecessor: the branch uses the value from before the increment
    [] k = "postinc" -> <<InsIn("mov", Reg(RTMP), <<Reg(RCNT)>>), InsIn("add", Reg(RCNT), <<Reg(RCNT), Imm(One64)>>),
                          InsIn("add", v[1], <<v[1], Imm(One64)>>), Br("blt", slot, <<Reg(RTMP), Imm(FromNat(v[2]))>>)>>
    \* two extension insns in a row (the optimiser combines them)
    [] k = "ext2" -> <<InsIn(v[1], Reg(RTMP), <<v[4]>>), InsIn(v[2], v[3], <<Reg(RTMP)>>)>>
    \* adjacent allocas of constant sizes (link-time consolidation): both blocks are written at their ends and read back
    [] k = "alloca3" -> <<[op |-> "alloca", d |-> Reg(PA), s |-> <<Imm(FromNat(v[1]))>>], [op |-> "alloca", d |-> Reg(RBS), s |-> <<Imm(FromNat(v[2]))>>],
                          InsIn("mov", Mem("i32", v[1] - 4, PA, 0, 1), <<Imm(FromNat(77))>>), InsIn("mov", Mem("i64", 0, RBS, 0, 1), <<v[3]>>),
                          InsIn("mov", Mem("i64", v[2] - 8, RBS, 0, 1), <<v[3]>>),
                          InsIn("add", v[4], <<Mem("i32", v[1] - 4, PA, 0, 1), Mem("i64", 0, RBS, 0, 1)>>)>>
    \* one-operand branches on constants (rewritten at link time)
    [] k = "br1i" -> <<Br(v[1], v[2], <<v[3]>>)>>
    \* 32-bit division insns with the divisor in memory and a dividend register with an arbitrary upper half
    [] k = "divm" -> <<InsIn("or", Reg(RTMP), <<v[4], Imm(One64)>>), InsIn("mov", Mem("i32", 132, RBUF, 0, 1), <<Reg(RTMP)>>),
                       InsIn(v[1], v[2], <<v[3], Mem(v[5], 132, RBUF, 0, 1)>>)>>
    \* store through base + index * scale with a long-lived base register
    [] k = "pidxst" -> <<InsIn("mov", Mem(v[1], 0, v[2], RIDX, v[5]), <<Reg(RVAL)>>)>>
    [] k = "idx" -> <<InsIn("and", Reg(RTMP), <<v[1], Imm(FromNat(3))>>),
                      InsIn("mov", v[3], <<Mem(v[2], 128, RBUF, RTMP, v[4])>>)>>
    [] k = "fbin" -> <<InsIn(v[1] \o v[2], v[3], <<v[4], v[5]>>)>>
    [] k = "fcmp" -> <<InsIn(v[1] \o v[2], v[3], <<v[4], v[5]>>)>>
    [] k = "fbr" -> <<Br(v[1] \o "b" \o v[2], v[3], <<v[4], v[5]>>)>>
    [] k = "i2f" -> <<InsIn(v[2] \o v[1], v[3], <<v[4]>>)>>
    [] k = "f2i" -> <<InsIn(v[1] \o "2i", v[2], <<v[3]>>)>>
    [] k = "fmovm" -> <<InsIn(v[1] \o "mov", v[2], <<v[3]>>)>>
    [] k = "f2f" -> <<InsIn(v[1] \o "2" \o v[2], Reg(CHOOSE r \in FpRegsOf(v[2]) : \A q \in FpRegsOf(v[2]) : r <= q), <<v[3]>>)>>
    [] k = "callg3" -> <<[op |-> "call", callee |-> [k |-> "func", f |-> 4], res |-> <<v[1], Reg(12)>>, args |-> <<v[2], Reg(13)>>]>>
    [] k = "calla" -> <<[op |-> "call", callee |-> [k |-> "func", f |-> 5], res |-> <<v[1]>>, args |-> <<v[2], v[3]>>]>>
    [] k = "callg6" -> <<[op |-> "call", callee |-> [k |-> "func", f |-> 7], res |-> <<v[1]>>, args |-> <<v[2], v[3]>>]>>
    [] k = "callg7" -> <<[op |-> "call", callee |-> [k |-> "func", f |-> 8], res |-> <<v[1]>>, args |-> <<v[2]>>]>>
    \* load from the global, call a function without arguments that changes it, then the single use of the loaded value
    [] k = "gcall" -> <<InsIn("mov", Reg(RTMP), <<Mem("i64", 0, RPG, 0, 1)>>),
                        [op |-> "call", callee |-> [k |-> "func", f |-> 9], res |-> <<v[1]>>, args |-> <<>>],
                        InsIn("add", v[2], <<Reg(RTMP), v[1]>>)>>
    \* return-block argument: the callee writes through the caller's block;  by-value block: the caller's block is unchanged
    [] k = "rblk" -> <<[op |-> "alloca", d |-> Reg(PA), s |-> <<Imm(FromNat(16))>>],
                       InsIn("mov", Mem("i64", 0, PA, 0, 1), <<Imm(FromNat(3))>>), InsIn("mov", Mem("i64", 8, PA, 0, 1), <<Imm(FromNat(4))>>),
                       [op |-> "call", callee |-> [k |-> "func", f |-> 11], res |-> <<>>, args |-> <<BlkArg("rblk16", PA), v[2]>>],
                       InsIn("sub", v[1], <<Mem("i64", 8, PA, 0, 1), Mem("i64", 0, PA, 0, 1)>>),
                       InsIn("add", v[1], <<v[1], Mem("i64", 0, PA, 0, 1)>>)>>
    [] k = "blkv" -> <<[op |-> "alloca", d |-> Reg(PA), s |-> <<Imm(FromNat(16))>>],
                       InsIn("mov", Mem("i64", 0, PA, 0, 1), <<v[2]>>), InsIn("mov", Mem("i64", 8, PA, 0, 1), <<Imm(FromNat(11))>>),
                       [op |-> "call", callee |-> [k |-> "func", f |-> 12], res |-> <<v[1]>>, args |-> <<BlkArg("blk16", PA)>>],
                       InsIn("add", v[1], <<v[1], Mem("i64", 8, PA, 0, 1)>>), InsIn("xor", v[1], <<v[1], Mem("i64", 0, PA, 0, 1)>>)>>
    \* by-value blocks of 12, 20 and 4 bytes: the last bytes are behind the last whole 8-byte word
    [] k = "blkv12" -> <<[op |-> "alloca", d |-> Reg(PA), s |-> <<Imm(FromNat(16))>>],
                         InsIn("mov", Mem("i64", 0, PA, 0, 1), <<v[2]>>), InsIn("mov", Mem("i32", 8, PA, 0, 1), <<v[3]>>),
                         [op |-> "call", callee |-> [k |-> "func", f |-> 19], res |-> <<v[1]>>, args |-> <<BlkArg("blk12", PA), v[2]>>],
                         InsIn("add", v[1], <<v[1], Mem("i32", 8, PA, 0, 1)>>), InsIn("xor", v[1], <<v[1], Mem("i64", 0, PA, 0, 1)>>)>>
    [] k = "blkv20" -> <<[op |-> "alloca", d |-> Reg(PA), s |-> <<Imm(FromNat(32))>>],
                         InsIn("mov", Mem("i64", 0, PA, 0, 1), <<v[2]>>), InsIn("mov", Mem("i64", 8, PA, 0, 1), <<Imm(FromNat(11))>>),
                         InsIn("mov", Mem("i32", 16, PA, 0, 1), <<v[3]>>),
                         [op |-> "call", callee |-> [k |-> "func", f |-> 20], res |-> <<v[1]>>, args |-> <<BlkArg("blk20", PA)>>],
                         InsIn("add", v[1], <<v[1], Mem("i32", 16, PA, 0, 1)>>), InsIn("xor", v[1], <<v[1], Mem("i64", 8, PA, 0, 1)>>)>>
    [] k = "blkv4" -> <<[op |-> "alloca", d |-> Reg(PA), s |-> <<Imm(FromNat(16))>>],
                        InsIn("mov", Mem("i32", 0, PA, 0, 1), <<v[2]>>),
                        [op |-> "call", callee |-> [k |-> "func", f |-> 21], res |-> <<v[1]>>, args |-> <<BlkArg("blk4", PA)>>],
                        InsIn("add", v[1], <<v[1], Mem("i32", 0, PA, 0, 1)>>)>>
    \* read-only data section of the module: a named data item continued by an anonymous one
    [] k = "dload" -> <<InsIn("mov", Reg(RTMP), <<DRef3>>), InsIn("mov", v[1], <<v[2]>>)>>
    \* a section whose members all have sizes that are multiples of 8, one of them a long double at offset 8 (16-byte aligned in C, not here)
    [] k = "qload" -> <<InsIn("mov", Reg(RTMP), <<DRef7>>), InsIn("mov", v[1], <<v[2]>>)>>
    [] k = "qloadf" -> <<InsIn("mov", Reg(RTMP), <<DRef7>>), InsIn("ldmov", Reg(17), <<v[1]>>)>>
    [] k = "callg12" -> <<[op |-> "call", callee |-> [k |-> "func", f |-> 13], res |-> <<Reg(14)>>, args |-> <<v[1]>>]>>
    [] k = "callg13" -> <<[op |-> "call", callee |-> [k |-> "func", f |-> 14], res |-> <<Reg(12)>>,
                           args |-> <<v[1], v[2], v[3], v[1], v[2], v[3], v[1], v[2], v[3]>>]>>
    [] k = "callg14" -> <<[op |-> "alloca", d |-> Reg(PA), s |-> <<Imm(FromNat(16))>>],
                          InsIn("mov", Mem("i64", 0, PA, 0, 1), <<v[2]>>), InsIn("mov", Mem("i64", 8, PA, 0, 1), <<Imm(FromNat(21))>>),
                          [op |-> "call", callee |-> [k |-> "func", f |-> 15], res |-> <<v[1]>>,
                           args |-> <<v[3], Imm(FromNat(2)), Imm(FromNat(3)), v[4], BlkArg("blk1_16", PA)>>],
                          InsIn("add", v[1], <<v[1], Mem("i64", 8, PA, 0, 1)>>)>>
    \* accesses through the long-lived pointer registers, zero displacement
    [] k = "pld" -> <<InsIn("mov", v[1], <<Mem(v[2], 0, v[3], 0, 1)>>)>>
    [] k = "pst" -> <<InsIn("mov", Mem(v[1], 0, v[2], 0, 1), <<v[3]>>)>>
    \* alloca block written wide and read back narrower at an inner offset
    [] k = "alloca2" -> <<[op |-> "alloca", d |-> Reg(PA), s |-> <<Imm(FromNat(32))>>],
                          InsIn("mov", Mem("i64", 8, PA, 0, 1), <<v[2]>>), InsIn("mov", v[1], <<v[3]>>)>>
    \* indirect calls: the function address travels through a register
    [] k = "icall" -> <<InsIn("mov", Reg(RTMP2), <<Ref(2)>>),
                        [op |-> "call", callee |-> [k |-> "reg", r |-> RTMP2, f |-> 2], res |-> <<v[1]>>, args |-> <<v[2], v[3]>>]>>
    [] k = "icall5" -> <<InsIn("mov", Reg(RTMP2), <<Ref(6)>>),
                         [op |-> "call", callee |-> [k |-> "reg", r |-> RTMP2, f |-> 6], res |-> <<v[1]>>, args |-> <<v[2]>>]>>
    \* an unsigned 32-bit result, called directly (may be inlined) and through a register (never inlined)
    [] k = "callg24" -> <<[op |-> "call", callee |-> [k |-> "func", f |-> 25], res |-> <<Reg(12)>>, args |-> <<v[1], v[2]>>]>>
    [] k = "icall24" -> <<InsIn("mov", Reg(RTMP2), <<Ref(25)>>),
                          [op |-> "call", callee |-> [k |-> "reg", r |-> RTMP2, f |-> 25], res |-> <<Reg(13)>>, args |-> <<v[1], v[2]>>]>>
    [] k = "callg25" -> <<[op |-> "alloca", d |-> Reg(PA), s |-> <<Imm(FromNat(16))>>],
                          InsIn("mov", Mem("i64", 0, PA, 0, 1), <<v[2]>>),
                          [op |-> "call", callee |-> [k |-> "func", f |-> 26], res |-> <<v[1]>>, args |-> <<v[3], BlkArg("blk1_8", PA)>>],
                          InsIn("add", v[1], <<v[1], Mem("i64", 0, PA, 0, 1)>>)>>
    \* the 8-byte and the 16-byte block signature called through registers one after the other (never inlined: real calls in every engine)
    [] k = "icall2526" -> <<[op |-> "alloca", d |-> Reg(PA), s |-> <<Imm(FromNat(16))>>],
                            InsIn("mov", Mem("i64", 0, PA, 0, 1), <<v[2]>>), InsIn("mov", Mem("i64", 8, PA, 0, 1), <<Imm(FromNat(77))>>),
                            InsIn("mov", Reg(RTMP2), <<Ref(26)>>),
                            [op |-> "call", callee |-> [k |-> "reg", r |-> RTMP2, f |-> 26], res |-> <<v[1]>>, args |-> <<v[3], BlkArg("blk1_8", PA)>>],
                            InsIn("mov", Reg(RTMP2), <<Ref(27)>>),
                            [op |-> "call", callee |-> [k |-> "reg", r |-> RTMP2, f |-> 27], res |-> <<Reg(RTMP)>>, args |-> <<v[1], BlkArg("blk1_16", PA)>>],
                            InsIn("add", v[1], <<v[1], Reg(RTMP)>>)>>
    [] k = "callg23" -> <<[op |-> "call", callee |-> [k |-> "func", f |-> 24], res |-> <<v[1]>>, args |-> <<v[2]>>]>>
    [] k = "callg22" -> <<[op |-> "call", callee |-> [k |-> "func", f |-> 23], res |-> <<v[1]>>, args |-> <<v[2]>>]>>
    [] k = "callg21" -> <<[op |-> "call", callee |-> [k |-> "func", f |-> 22], res |-> <<v[1]>>, args |-> <<v[2]>>]>>
    [] k = "icall21" -> <<InsIn("mov", Reg(RTMP2), <<Ref(22)>>),
                          [op |-> "call", callee |-> [k |-> "reg", r |-> RTMP2, f |-> 22], res |-> <<v[1]>>, args |-> <<v[2]>>]>>
    \* C callback re-entering MIR: ext_cb (id, &g5, v)
    [] k = "cb" -> <<[op |-> "call", callee |-> [k |-> "cb"], res |-> <<v[1]>>, args |-> <<v[2], Ref(6), v[3]>>]>>

(* ---------------- inputs -------------------------------------------------- *)
InGridI == {Zero64, One64, Ones64, FromNat(2), FromNat(100), MinS64, MaxS64, <<0, 32768, 0, 0>>, <<65535, 32767, 0, 0>>,
            <<4660, 22136, 39612, 57072>>, Neg64(FromNat(7)), <<255, 0, 0, 0>>}
InGridF == {FZero(0), FZero(1), Fin(0, 1, 0), Fin(1, 3, -1), Fin(0, 5, 0), Fin(0, 1, 10), Fin(1, 7, 2), Inf(0), NaN, Fin(0, 3, -2)}
NIn == 14       \* 6 ints, 3 doubles, 2 floats, 2 long doubles; the 14th choice is not an input value: does main use the global variable
InDom(i) == IF i <= 6 THEN InGridI ELSE IF i = 14 THEN {Zero64, One64, FromNat(2), FromNat(3)} ELSE InGridF

FpCells(fmt, x, pad) == [i \in 1..pad |-> IF i <= TySize(fmt) THEN FpC(fmt, i, x) ELSE ByteC(0)]
WordCells(w) == [i \in 1..8 |-> ByteC(WordBytes(w)[i])]
InitBuf ==
  WordCells(inputs[1]) \o WordCells(inputs[2]) \o WordCells(inputs[3]) \o WordCells(inputs[4]) \o WordCells(inputs[5]) \o WordCells(inputs[6])
  \o FpCells("d", inputs[7], 8) \o FpCells("d", inputs[8], 8) \o FpCells("d", inputs[9], 8)
  \o FpCells("f", inputs[10], 4) \o FpCells("f", inputs[11], 4)
  \o FpCells("ld", inputs[12], 16) \o FpCells("ld", inputs[13], 16)
  \o FpCells("ld", inputs[13], 16)                 \* ld scratch 112..127
  \o [i \in 1..32 |-> ByteC((i * 37) % 256)]       \* integer scratch 128..159
  \o FpCells("d", inputs[8], 8) \o FpCells("d", inputs[7], 8)   \* 160, 168
  \o FpCells("f", inputs[11], 4) \o FpCells("f", inputs[10], 4) \* 176, 180
  \o [i \in 1..8 |-> ByteC(0)]                     \* 184..191
  \o [i \in 1..128 |-> ByteC(204)]                 \* output area 192..319

(* ---------------- the build / run state machine --------------------------- *)
NoCur == [kind |-> "", vals |-> <<>>]
EmptyProg == [funcs |-> <<>>]
Init ==
  /\ phase = "inputs" /\ slot = 0 /\ cur = NoCur /\ body = <<>> /\ slotpc = <<>> /\ inputs = <<>> /\ haveA = FALSE
  /\ prog = EmptyProg /\ frames = <<>> /\ mem = <<>> /\ log = <<>> /\ status = "build" /\ why = "" /\ result = <<>> /\ steps = 0

ChooseInput ==
  /\ phase = "inputs" /\ Len(inputs) < NIn
  /\ \E v \in InDom(Len(inputs) + 1) : inputs' = Append(inputs, v)
  /\ UNCHANGED <<phase, slot, cur, body, slotpc, haveA>> /\ UNCHANGED mvars
InputsDone ==
  /\ phase = "inputs" /\ Len(inputs) = NIn
  /\ phase' = "build" /\ slot' = 1 /\ slotpc' = <<Len(Prologue) + 1>>
  /\ UNCHANGED <<cur, body, inputs, haveA>> /\ UNCHANGED mvars

ChooseKind ==
  /\ phase = "build" /\ slot <= NSlots /\ cur.kind = ""
  /\ \E k \in Kinds : cur' = [kind |-> k, vals |-> <<>>]
  /\ UNCHANGED <<phase, slot, body, slotpc, inputs, haveA>> /\ UNCHANGED mvars
FillHole ==
  /\ phase = "build" /\ cur.kind # "" /\ Len(cur.vals) < Len(Holes(cur.kind))
  /\ \E v \in Dom(Holes(cur.kind)[Len(cur.vals) + 1]) : cur' = [cur EXCEPT !.vals = Append(@, v)]
  /\ UNCHANGED <<phase, slot, body, slotpc, inputs, haveA>> /\ UNCHANGED mvars
CloseSlot ==
  /\ phase = "build" /\ cur.kind # "" /\ Len(cur.vals) = Len(Holes(cur.kind))
  /\ body' = body \o Render(cur.kind, cur.vals)
  /\ slot' = slot + 1
  /\ slotpc' = Append(slotpc, Len(Prologue) + Len(body') + 1)
  /\ cur' = NoCur
  /\ haveA' = (haveA \/ cur.kind = "alloca")
  /\ UNCHANGED <<phase, inputs>> /\ UNCHANGED mvars

Resolve(I) ==
  LET I1 == IF HasField(I, "l") THEN [I EXCEPT !.l = slotpc[@]] ELSE I
      I2 == IF HasField(I1, "lr") THEN [I1 EXCEPT !.lr = [l |-> slotpc[@.l], l2 |-> IF @.l2 = 0 THEN 0 ELSE slotpc[@.l2], d |-> @.d]] ELSE I1
  IN IF HasField(I2, "ls") THEN [I2 EXCEPT !.ls = [i \in 1..Len(@) |-> slotpc[@[i]]]] ELSE I2
LrSeq == LET RECURSIVE Coll(_, _)
             Coll(i, acc) == IF i > Len(body) THEN acc
                             ELSE Coll(i + 1, IF HasField(body[i], "lr") THEN Append(acc, Resolve(body[i]).lr) ELSE acc)
         IN Coll(1, <<>>)
LrCellsOf(lrs) == LET RECURSIVE Cat(_, _)
                     Cat(i, acc) == IF i > Len(lrs) THEN acc
                                    ELSE Cat(i + 1, acc \o [j \in 1..8 |-> IF lrs[i].l2 = 0 THEN [k |-> "l", i |-> j, f |-> 1, l |-> lrs[i].l]
                                                                             ELSE [k |-> "ld", i |-> j, f |-> 1, a |-> lrs[i].l, b |-> lrs[i].l2, d |-> lrs[i].d]])
                 IN Cat(1, <<>>)
LrCells == LrCellsOf(LrSeq)
(* the memory a program starts with: caller's buffer, module bss item gdat, data section gd, main's lref section *)
InitMem(buf, lrs) ==
  <<[sz |-> BufSize, live |-> TRUE, cells |-> buf],
    [sz |-> 64, live |-> TRUE, cells |-> [i \in 1..64 |-> ByteC(0)]],
    [sz |-> 20, live |-> TRUE,
     cells |-> [i \in 1..20 |-> ByteC((<<11, 0, 0, 0>> \o <<254, 255, 255, 255>> \o <<255, 255, 255, 127>> \o <<5, 0, 0, 0, 0, 0, 0, 0>>)[i])]],
    [sz |-> 8 * Len(lrs), live |-> TRUE, cells |-> LrCellsOf(lrs)],
    [sz |-> 16, live |-> TRUE, cells |-> [j \in 1..16 |-> IF j <= 8 THEN [k |-> "p", i |-> j, b |-> 2, o |-> 8]
                                                            ELSE [k |-> "fnc", i |-> j - 8, f |-> 6]]],
    [sz |-> 8, live |-> TRUE, cells |-> OpaqueCells],        \* block 6 (GlobBlk): the global variable tied to a hard register
    [sz |-> 32, live |-> TRUE,                                \* block 7: section gq; the 6 bytes after the 10 of the long double are padding
     cells |-> WordCells(FromNat(3)) \o [i \in 1..16 |-> IF i <= 10 THEN FpC("ld", i, Fin(0, 5, -1)) ELSE [k |-> "u"]] \o WordCells(FromNat(40))]>>
InitFrames == <<[f |-> 1, id |-> 0, va |-> <<>>, pc |-> 1, regs |-> [r \in 1..Len(MainRegTy) |-> IF r = 1 THEN PtrV(1, 0) ELSE UndefV],
                 base |-> 7, ovf |-> NoOvf]>>
MainFunc ==
  [name |-> "main", params |-> <<"p">>, res |-> <<"i64">>, regty |-> MainRegTy, lrefs |-> LrSeq, gvar |-> UseG,
   insns |-> Prologue \o [i \in 1..Len(body) |-> Resolve(body[i])] \o Epilogue]
Finalize ==
  /\ phase = "build" /\ slot = NSlots + 1 /\ cur.kind = ""
  /\ phase' = "run"
  /\ prog' = [funcs |-> <<MainFunc, G1, G2, G3, G4, G5, G6, G7, G8, G9, G10, G11, G12, G13, G14, G15, G16, G17, G18, G19, G20, G21, G22, G23, G24, G25, G26>>]
  /\ mem' = InitMem(InitBuf, LrSeq)
  /\ frames' = InitFrames
  /\ status' = "run"
  /\ UNCHANGED <<log, why, result, steps, slot, cur, body, slotpc, inputs, haveA>>

Run == phase = "run" /\ status = "run" /\ Guarded /\ UNCHANGED bvars
Finish ==
  /\ phase = "run" /\ status \in {"done", "undef"}
  /\ phase' = "end"
  /\ UNCHANGED <<slot, cur, body, slotpc, inputs, haveA>> /\ UNCHANGED mvars

Next == ChooseInput \/ InputsDone \/ ChooseKind \/ FillHole \/ CloseSlot \/ Finalize \/ Run \/ Finish
Spec == Init /\ [][Next]_allvars

(* ---------------- observations and emission ------------------------------- *)
CellOut(c) == IF c.k = "b" THEN c.v ELSE c
Observable ==          \* nothing address-dependent in what the caller can see
  /\ \A i \in 1..Len(result) : result[i].t = "f" \/ (result[i].t = "i" /\ ~result[i].h)
  /\ \A i \in 1..BufSize : mem[1].cells[i].k \in {"b", "f", "u"}     \* "u": undefined bytes, masked in comparisons
Case ==
  [prog |-> prog, inputs |-> inputs, buf0 |-> [i \in 1..BufSize |-> CellOut(InitBuf[i])],
   status |-> (IF status = "done" /\ ~Observable THEN "undef" ELSE status),
   why |-> (IF status = "done" /\ ~Observable THEN "address-dependent observation" ELSE why),
   result |-> result, buf |-> [i \in 1..BufSize |-> CellOut(mem[1].cells[i])], log |-> log, steps |-> steps]
EmitCase == (phase' = "end") => EmitJ(Case)

(* ---------------- machine invariants (checked on every state) ------------- *)
TypeOK ==
  /\ status \in {"build", "run", "done", "undef"}
  /\ status = "run" => /\ Len(frames) >= 1
                       /\ \A i \in 1..Len(frames) : frames[i].pc >= 1
  /\ \A b \in 1..Len(mem) : mem[b].live => Len(mem[b].cells) = mem[b].sz          \* dead blocks keep their size only
(* typed registers hold values of their kind: an optimiser-independent sanity property of the semantics *)
RegsTyped ==
  status = "run" =>
    \A i \in 1..Len(frames) : \A r \in 1..Len(frames[i].regs) :
      LET v == frames[i].regs[r]  ty == prog.funcs[frames[i].f].regty[r] IN
      v.t = "u" \/ (ty = "i" /\ v.t \in {"i", "p", "l", "fn", "ld", "ra", "nv", "sm", "op"}) \/ (ty # "i" /\ v.t = "f" /\ InFmt(v.x, ty))
=============================================================================
