CONSTANTS
  NSlots = 12
  Vocab = "exec"
INIT Init
NEXT Next
ACTION_CONSTRAINT EmitCase
INVARIANTS TypeOK RegsTyped
