CONSTANTS
  NSlots = 12
  Glob = "own"
  Abs = FALSE
  Lean = FALSE
  Vocab = "exec"
INIT Init
NEXT Next
ACTION_CONSTRAINT EmitCase
INVARIANTS TypeOK RegsTyped
