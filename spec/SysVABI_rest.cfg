CONSTANTS
  B0 = {8}
  B1 = {8}
  B2 = {8}
  B3 = {16}
  B4 = {16}
  Depth = 14
  SimLens = {8, 16, 24}
  MaxRes = 4
  ResAlphabet = {"i8", "u8", "i16", "u16", "i32", "u32", "i64", "u64", "p", "f", "d", "ld"}
INIT InitRes
NEXT NextRes
ACTION_CONSTRAINT EmitRes
