CONSTANTS
  Fam = "mac"
  NM = 2
  KindSet = {"obj", "f1", "f2", "fv", "f1v"}
  MaxBody = 5
  MaxInv = 6
  BodyAlpha = {"x", "y", "V", "#x", "##", "f", "ff", "a", "1"}
  InvAlpha = {"f", "ff", "a", "1", "(", ")", ","}
  VarWs = FALSE
  InvHead = TRUE
  InvBal = TRUE
  NameScheme = 2
  MaxLines = 1
  MaxNest = 1
  CondSet = {"0"}
  LineSet = {"endif"}
  MaxD = 0
  AtomSet = {"0"}
  GapSet = {"sp"}
  OpSet = {"+"}
INIT Init
NEXT Next
INVARIANT EmitInv
