CONSTANTS
  B0 = {1, 8, 16, 20, 24, 40}
  B1 = {1, 4, 8, 9, 12, 16}
  B2 = {4, 8, 12, 16}
  B3 = {12, 16}
  B4 = {12, 16}
  Depth = 14
  SimLens = {8, 16, 24}
  MaxRes = 4
  ResAlphabet = {"i8", "u8", "i16", "u16", "i32", "u32", "i64", "u64", "p", "f", "d", "ld"}
INIT Init
NEXT Next
VIEW View
CONSTRAINT Bound
ACTION_CONSTRAINT EmitEdge
INVARIANTS Shape Disjoint Whole VaReadsPlacement
