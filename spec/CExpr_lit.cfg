CONSTANTS
  LeafTypes = {}
  GridSel = "g2"
  UnOps = {"+", "-", "~", "!"}
  CastTypes = {"i", "ul", "uc"}
  BinOps = {}
  UseCond = FALSE
  LvTypes = {}
  AsgOps = {}
  IncOps = {}
  UseEnum = FALSE
  UseLit = TRUE
  BfWidths = {}
  MaxDepth = 1
  MaxLeaves = 1
  MaxStack = 1
  MinParen = TRUE
  TwoPhase = FALSE
  Rnd = FALSE
  PtrLv = FALSE
INIT Init
NEXT Next
INVARIANT EmitInv
