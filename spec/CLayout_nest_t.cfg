CONSTANTS
  MaxM = 2
  MaxInner = 2
  MaxDepth = 1
  MaxNested = 1
  Atoms <- AtomsSmall
  InnerAtoms <- AtomsTiny
  NestKinds <- NestAll
INIT Init
NEXT Next
ACTION_CONSTRAINT Emit
INVARIANT Sane
