CONSTANTS
  NE = 4
  Depth = 6
INIT Init
NEXT Next
VIEW View
CONSTRAINT Bound
ACTION_CONSTRAINT EmitH
INVARIANTS Refines
