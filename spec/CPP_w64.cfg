CONSTANTS
  Fam = "w64"
  NM = 1
  KindSet = {"obj"}
  MaxBody = 1
  MaxInv = 1
  BodyAlpha = {"a"}
  InvAlpha = {"a"}
  VarWs = FALSE
  InvHead = TRUE
  NameScheme = 1
  MaxLines = 1
  MaxNest = 1
  CondSet = {"0"}
  LineSet = {"endif"}
  MaxD = 0
  AtomSet = {"0"}
  OpSet = {"+"}
INIT Init
NEXT Next
INVARIANT EmitInv
