CONSTANTS
  Fam = "w64"
  NM = 1
  KindSet = {"obj", "f0", "f1", "f2", "fv", "f1v"}
  MaxBody = 3
  MaxInv = 6
  BodyAlpha = {"x", "y", "V", "#x", "#y", "#V", "#", "##", "f", "a", "1"}
  InvAlpha = {"f", "a", "(", ")", ","}
  VarWs = FALSE
  InvHead = TRUE
  InvBal = TRUE
  NameScheme = 1
  MaxLines = 1
  MaxNest = 1
  CondSet = {"0"}
  LineSet = {"endif"}
  MaxD = 0
  AtomSet = {"0"}
  GapSet = {"sp"}
  OpSet = {"+"}
INIT Init
NEXT Next
INVARIANT EmitInv
