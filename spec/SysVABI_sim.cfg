CONSTANTS
  B0 = {1, 8, 16, 20, 24, 40}
  B1 = {1, 4, 8, 9, 12, 16}
  B2 = {4, 8, 12, 16}
  B3 = {12, 16}
  B4 = {12, 16}
  Depth = 24
  SimLens = {8, 16, 24}
  MaxRes = 4
  ResAlphabet = {"i8"}
INIT InitSim
NEXT NextSim
CONSTRAINT Bound
