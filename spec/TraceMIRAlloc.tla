---------------------------- MODULE TraceMIRAlloc ----------------------------
(* Trace validation (direction B): is the sequence of allocator calls that    *)
(* the real library made (recorded by harness/c17_ledger.c, one JSON object   *)
(* per line) a behaviour of MIRAlloc?  One trace action per event kind:       *)
(* IsEvent(kind) /\ <bind logged fields> /\ <MIRAlloc action>.  The search is *)
(* linear (every event carries all arguments).  An event kind without an      *)
(* action (RawMalloc, RawFree, RawMmap, WriteFault, AccessFault, ForeignFree, *)
(* ForeignRealloc, UseAfterFree, ...) or whose guard is false stops the       *)
(* search; the trace is accepted iff every event was consumed                 *)
(* (diameter - 1 = Len(Tr)), reported through EmitJ and POSTCONDITION.        *)
(* Several executions are concatenated with Reset events.                     *)
EXTENDS MIRAlloc, Sequences, Json, IOUtils, Emit

Tr == ndJsonDeserialize(IOEnv.TRACE)

VARIABLE i                       \* index of the next event
tvars == <<live, code, phase, maxid, maxr, freed, i>>

IsEvent(k) == i <= Len(Tr) /\ Tr[i].e = k
Ev == Tr[i]
Consume == i' = i + 1

TInit == Init /\ i = 1

TrStart    == IsEvent("Start")    /\ Start /\ Consume
(* The history alphabet: the API calls the drivers make between Start and Finish.  An Api event marks the      *)
(* beginning of a call; the allocator events up to the next marker belong to it.  The ledger contract is the    *)
(* same under every call, so the marker changes nothing, but a trace with a call outside the alphabet is not a  *)
(* history this specification speaks about.  "MIR_interp" followed by "call_main" under a lazy interface is     *)
(* tiered execution (interpret first, generate on the first call through the address);                          *)
(* "MIR_change_module_ctx" moves a module between two contexts that share one ledger.                           *)
ApiCalls == {"MIR_init2", "build_api", "MIR_scan_string", "MIR_read", "c2mir_init", "c2mir_compile",
             "MIR_output", "MIR_write", "MIR_load_module", "MIR_load_external", "MIR_change_module_ctx",
             "MIR_gen_init", "MIR_link", "MIR_gen", "MIR_interp", "call_main", "MIR_gen_finish",
             "c2mir_finish", "MIR_finish", "VARR", "HTAB"}
TrApi      == IsEvent("Api")      /\ Ev.f \in ApiCalls /\ phase = "run" /\ UNCHANGED vars /\ Consume
TrMalloc   == IsEvent("Malloc")   /\ Malloc(Ev.id, Ev.size) /\ Consume
TrCalloc   == IsEvent("Calloc")   /\ Calloc(Ev.id, Ev.num, Ev.esz) /\ Consume
TrRealloc  == IsEvent("Realloc")  /\ Realloc(Ev.old, Ev.osz, Ev.nsz, Ev.id) /\ Consume
TrFree     == IsEvent("Free")     /\ Free(Ev.id) /\ Consume
TrMemMap   == IsEvent("MemMap")   /\ MemMap(Ev.r, Ev.len) /\ Consume
TrProtect  == IsEvent("Protect")  /\ Protect(Ev.r, Ev.off, Ev.len, Ev.prot) /\ Consume
TrUnmap    == IsEvent("Unmap")    /\ Unmap(Ev.r, Ev.off, Ev.len) /\ Consume
TrWrite    == IsEvent("CodeWrite") /\ CodeWrite(Ev.r, Ev.lo, Ev.hi) /\ Consume
TrFinish   == IsEvent("Finish")   /\ Finish /\ Consume
TrReset    == IsEvent("Reset")    /\ Reset /\ Consume
(* Cut: written by the trace splitter (never by the ledger) behind the prefix of an execution that ended in a   *)
(* code-page fault, so that the executions after it in the same file are validated; the fault event itself has *)
(* no action, so the shard that holds it is rejected before its Cut.                                           *)
TrCut      == IsEvent("Cut") /\ phase = "run" /\ Consume
              /\ live' = <<>> /\ code' = <<>> /\ phase' = "idle" /\ maxid' = 0 /\ maxr' = 0 /\ freed' = {}

TNext == \/ TrStart \/ TrApi \/ TrMalloc \/ TrCalloc \/ TrRealloc \/ TrFree
         \/ TrMemMap \/ TrProtect \/ TrUnmap \/ TrWrite \/ TrFinish \/ TrReset \/ TrCut

TSpec == TInit /\ [][TNext]_tvars

(* the ledger invariants hold along the validated prefix as well *)
TraceInv ==
  /\ \A id \in DOMAIN live : id <= maxid
  /\ \A r \in DOMAIN code : r <= maxr
  /\ phase = "done" => DOMAIN live = {} /\ DOMAIN code = {}

Matched == TLCGet("stats").diameter - 1
TraceAccepted ==
  /\ EmitJ([total |-> Len(Tr), matched |-> Matched])
  /\ Matched = Len(Tr)
=============================================================================
