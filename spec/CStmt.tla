------------------------------- MODULE CStmt -------------------------------
(* Control flow of C11 statements (6.8): a continuation-stack semantics of  *)
(* if / else, while, do, for, switch (case labels, default, fall-through),  *)
(* break, continue, goto (forward, backward, into loops and switch bodies), *)
(* labels, return and compound statements.  The observable behaviour of a   *)
(* function body is the sequence of ev(k) calls it makes and the value it   *)
(* returns.  Controlling expressions are taken from a small menu whose      *)
(* evaluation is itself observable or stateful:                              *)
(*   0, 1            constants                                               *)
(*   cK++ < lim      a counter private to the expression (function scope,    *)
(*                   so it is NOT reset when an inner loop is re-entered)    *)
(*   ++cK <= lim     the same function of the counter, spelled differently   *)
(*   ev(n)           an event; its value is n                                *)
(*   (ev(n), cK++ < lim)                                                     *)
(*   cK++            (switch only) the value of the counter before the step  *)
(* Executions longer than Fuel steps (non-terminating or just long) are      *)
(* not emitted.                                                              *)
(*                                                                           *)
(* Generator: a statement tree is derived top-down; the state is the         *)
(* pre-order token list and the stack of open holes with their context       *)
(* (remaining depth, inside a loop, inside a switch).  TLC's breadth-first   *)
(* search therefore enumerates every tree within the bounds and -simulate    *)
(* samples bigger ones.                                                      *)
EXTENDS Integers, Sequences, FiniteSets, TLC, Json, Emit, IOUtils

CONSTANTS Prods,      \* productions used: subset of AllProds
          CondSel,    \* "small" | "mid" | "all": menu of controlling expressions
          SwSel,      \* "small" | "all": menu of switch bodies
          MaxDepth,   \* nesting depth of compound statements
          MaxToks,    \* number of statement nodes
          Labels,     \* label numbers available to `Ln:' and `goto Ln'
          Fuel,       \* bound on execution steps
          Rnd         \* BOOLEAN: pick one random alternative per step (for -simulate)

VARIABLES toks, holes, labs, gotos, dep, fin
vars == <<toks, holes, labs, gotos, dep, fin>>

Part == IF "PART" \in DOMAIN IOEnv THEN atoi(IOEnv.PART) ELSE 0
NParts == IF "NPARTS" \in DOMAIN IOEnv THEN atoi(IOEnv.NPARTS) ELSE 1

AllProds == {"ev", "break", "continue", "ret", "goto", "if1", "if2", "while", "do", "for", "switch", "seq2", "seq3", "label"}

(* ======================================================================= *)
(*                          ABSTRACT SYNTAX                                *)
(* ======================================================================= *)
(* controlling expression: [ck, n, id, lim] *)
Cnd(ck, n, id, lim) == [ck |-> ck, n |-> n, id |-> id, lim |-> lim]
NoC == Cnd("none", 0, 0, 0)
(* statement node (token): k kind, n number (event, return value, label), c controlling expression,             *)
(* i / t init and step event of a for (0 = empty), pat labels of the items of a switch body                      *)
Tok(k, n, c, i, t, pat) == [k |-> k, n |-> n, c |-> c, i |-> i, t |-> t, pat |-> pat]
Arity(tk) == CASE tk.k \in {"ev", "break", "continue", "ret", "goto"} -> 0
               [] tk.k \in {"if1", "while", "do", "for", "label"} -> 1
               [] tk.k \in {"if2", "seq2"} -> 2 [] tk.k = "seq3" -> 3
               [] tk.k = "switch" -> Len(tk.pat)
Node(tk, ch) == [k |-> tk.k, n |-> tk.n, c |-> tk.c, i |-> tk.i, t |-> tk.t, pat |-> tk.pat, ch |-> ch]

RECURSIVE ParseAt(_, _), ParseKids(_, _, _, _)
ParseKids(ts, pos, n, acc) ==
  IF n = 0 THEN [kids |-> acc, nx |-> pos]
  ELSE LET r == ParseAt(ts, pos) IN ParseKids(ts, r.nx, n - 1, Append(acc, r.node))
ParseAt(ts, pos) ==
  LET r == ParseKids(ts, pos + 1, Arity(ts[pos]), <<>>) IN [node |-> Node(ts[pos], r.kids), nx |-> r.nx]
Tree(ts) == ParseAt(ts, 1).node

(* ======================================================================= *)
(*                     SEMANTICS: CONTINUATION STACK                       *)
(* ======================================================================= *)
(* frames: S(s) execute s; LW(s) end of a while body (re-test); LD(s) end of a do body (test); LF(s) end of a    *)
(* for body (step, test); LFt(s) test of a for; SW end of a switch body                                          *)
Fr(f, s) == [f |-> f, s |-> s]
Dummy == Node(Tok("ev", 0, NoC, 0, 0, <<>>), <<>>)
IsLoop(fr) == fr.f \in {"LW", "LD", "LF", "LFt"}

EvalC(c, st, evs) ==
  CASE c.ck = "c" -> [v |-> c.n, st |-> st, evs |-> evs]
    [] c.ck = "none" -> [v |-> 1, st |-> st, evs |-> evs]
    [] c.ck \in {"cnt", "pcnt"} -> [v |-> IF st[c.id] < c.lim THEN 1 ELSE 0, st |-> [st EXCEPT ![c.id] = @ + 1], evs |-> evs]
    [] c.ck = "ev" -> [v |-> c.n, st |-> st, evs |-> Append(evs, c.n)]
    [] c.ck = "evcnt" -> [v |-> IF st[c.id] < c.lim THEN 1 ELSE 0, st |-> [st EXCEPT ![c.id] = @ + 1], evs |-> Append(evs, c.n)]
    [] c.ck = "cntv" -> [v |-> st[c.id], st |-> [st EXCEPT ![c.id] = @ + 1], evs |-> evs]

RECURSIVE DropToBreak(_), DropToLoop(_)
DropToBreak(K) == IF IsLoop(Head(K)) \/ Head(K).f = "SW" THEN Tail(K) ELSE DropToBreak(Tail(K))
DropToLoop(K) == IF IsLoop(Head(K)) THEN K ELSE DropToLoop(Tail(K))

SFrames(ss, from) == [j \in 1..(Len(ss) - from + 1) |-> Fr("S", ss[from + j - 1])]
Nil == <<Fr("NIL", Dummy)>>
(* the continuation that starts at label l inside s, when the continuation after s is k *)
RECURSIVE FindL(_, _, _), FindInSeq(_, _, _, _)
FindInSeq(l, ss, i, k) ==
  IF i > Len(ss) THEN Nil
  ELSE LET r == FindL(l, ss[i], SFrames(ss, i + 1) \o k) IN IF r # Nil THEN r ELSE FindInSeq(l, ss, i + 1, k)
FindL(l, s, k) ==
  CASE s.k = "label" -> IF s.n = l THEN <<Fr("S", s.ch[1])>> \o k ELSE FindL(l, s.ch[1], k)
    [] s.k \in {"seq2", "seq3"} -> FindInSeq(l, s.ch, 1, k)
    [] s.k = "if1" -> FindL(l, s.ch[1], k)
    [] s.k = "if2" -> LET r == FindL(l, s.ch[1], k) IN IF r # Nil THEN r ELSE FindL(l, s.ch[2], k)
    [] s.k = "while" -> FindL(l, s.ch[1], <<Fr("LW", s)>> \o k)
    [] s.k = "do" -> FindL(l, s.ch[1], <<Fr("LD", s)>> \o k)
    [] s.k = "for" -> FindL(l, s.ch[1], <<Fr("LF", s)>> \o k)
    [] s.k = "switch" -> FindInSeq(l, s.ch, 1, <<Fr("SW", Dummy)>> \o k)
    [] OTHER -> Nil

(* index of the item of a switch body selected by value v: a case label with that value, else default, else 0 *)
RECURSIVE FirstWith(_, _, _)
FirstWith(pat, i, v) == IF i > Len(pat) THEN 0 ELSE IF \E j \in 1..Len(pat[i]) : pat[i][j] = v THEN i ELSE FirstWith(pat, i + 1, v)
SwTarget(pat, v) == LET i == FirstWith(pat, 1, v) IN IF i # 0 THEN i ELSE FirstWith(pat, 1, -1)

EvEvent(n, evs) == IF n = 0 THEN evs ELSE Append(evs, n)
RECURSIVE Run(_, _, _, _, _)
Run(root, K, st, evs, fuel) ==
  IF fuel = 0 THEN [ok |-> FALSE, evs |-> evs, ret |-> 0]
  ELSE IF K = <<>> THEN [ok |-> TRUE, evs |-> evs, ret |-> 0]          \* falls off the end: the rendered body ends in return 0
  ELSE LET fr == Head(K)  rest == Tail(K)  s == fr.s  f == fuel - 1 IN
    CASE fr.f = "SW" -> Run(root, rest, st, evs, f)
      [] fr.f = "LW" -> Run(root, <<Fr("S", s)>> \o rest, st, evs, f)
      [] fr.f = "LD" -> LET r == EvalC(s.c, st, evs) IN
                          Run(root, IF r.v # 0 THEN <<Fr("S", s.ch[1]), Fr("LD", s)>> \o rest ELSE rest, r.st, r.evs, f)
      [] fr.f = "LF" -> Run(root, <<Fr("LFt", s)>> \o rest, st, EvEvent(s.t, evs), f)
      [] fr.f = "LFt" -> LET r == EvalC(s.c, st, evs) IN
                          Run(root, IF r.v # 0 THEN <<Fr("S", s.ch[1]), Fr("LF", s)>> \o rest ELSE rest, r.st, r.evs, f)
      [] fr.f = "S" ->
         CASE s.k = "ev" -> Run(root, rest, st, Append(evs, s.n), f)
           [] s.k \in {"seq2", "seq3"} -> Run(root, SFrames(s.ch, 1) \o rest, st, evs, f)
           [] s.k = "label" -> Run(root, <<Fr("S", s.ch[1])>> \o rest, st, evs, f)
           [] s.k = "if1" -> LET r == EvalC(s.c, st, evs) IN
                               Run(root, IF r.v # 0 THEN <<Fr("S", s.ch[1])>> \o rest ELSE rest, r.st, r.evs, f)
           [] s.k = "if2" -> LET r == EvalC(s.c, st, evs) IN
                               Run(root, <<Fr("S", IF r.v # 0 THEN s.ch[1] ELSE s.ch[2])>> \o rest, r.st, r.evs, f)
           [] s.k = "while" -> LET r == EvalC(s.c, st, evs) IN
                               Run(root, IF r.v # 0 THEN <<Fr("S", s.ch[1]), Fr("LW", s)>> \o rest ELSE rest, r.st, r.evs, f)
           [] s.k = "do" -> Run(root, <<Fr("S", s.ch[1]), Fr("LD", s)>> \o rest, st, evs, f)
           [] s.k = "for" -> Run(root, <<Fr("LFt", s)>> \o rest, st, EvEvent(s.i, evs), f)
           [] s.k = "switch" -> LET r == EvalC(s.c, st, evs)
                                    i == SwTarget(s.pat, r.v)
                                IN Run(root, IF i = 0 THEN rest ELSE SFrames(s.ch, i) \o <<Fr("SW", Dummy)>> \o rest, r.st, r.evs, f)
           [] s.k = "break" -> Run(root, DropToBreak(rest), st, evs, f)
           [] s.k = "continue" -> Run(root, DropToLoop(rest), st, evs, f)
           [] s.k = "ret" -> [ok |-> TRUE, evs |-> evs, ret |-> s.n]
           [] s.k = "goto" -> Run(root, FindL(s.n, root, <<>>), st, evs, f)
Exec(root, n) == Run(root, <<Fr("S", root)>>, [i \in 1..n |-> 0], <<>>, Fuel)

(* ======================================================================= *)
(*                               SPELLING                                  *)
(* ======================================================================= *)
NS(n) == ToString(n)
CText(c) ==
  CASE c.ck = "c" -> NS(c.n) [] c.ck = "none" -> ""
    [] c.ck = "cnt" -> "c" \o NS(c.id) \o "++ < " \o NS(c.lim)
    [] c.ck = "pcnt" -> "++c" \o NS(c.id) \o " <= " \o NS(c.lim)
    [] c.ck = "ev" -> "ev(" \o NS(c.n) \o ")"
    [] c.ck = "evcnt" -> "(ev(" \o NS(c.n) \o "), c" \o NS(c.id) \o "++ < " \o NS(c.lim) \o ")"
    [] c.ck = "cntv" -> "c" \o NS(c.id) \o "++"
EvText(n) == IF n = 0 THEN "" ELSE "ev(" \o NS(n) \o ")"
RECURSIVE Sp(_), SpItems(_, _, _), SpLabels(_, _), SpSeq(_, _)
SpLabels(ls, j) == IF j > Len(ls) THEN "" ELSE (IF ls[j] = -1 THEN "default: " ELSE "case " \o NS(ls[j]) \o ": ") \o SpLabels(ls, j + 1)
SpItems(s, i, acc) == IF i > Len(s.ch) THEN acc ELSE SpItems(s, i + 1, acc \o SpLabels(s.pat[i], 1) \o Sp(s.ch[i]) \o " ")
SpSeq(ch, i) == IF i > Len(ch) THEN "" ELSE Sp(ch[i]) \o " " \o SpSeq(ch, i + 1)
Sp(s) ==
  CASE s.k = "ev" -> "ev(" \o NS(s.n) \o ");"
    [] s.k = "break" -> "break;" [] s.k = "continue" -> "continue;"
    [] s.k = "ret" -> "return " \o NS(s.n) \o ";"
    [] s.k = "goto" -> "goto L" \o NS(s.n) \o ";"
    [] s.k = "label" -> "L" \o NS(s.n) \o ": " \o Sp(s.ch[1])
    [] s.k \in {"seq2", "seq3"} -> "{ " \o SpSeq(s.ch, 1) \o "}"
    [] s.k = "if1" -> "if (" \o CText(s.c) \o ") " \o Sp(s.ch[1])
       (* an if without else as the then-part would capture the else: brace it *)
    [] s.k = "if2" -> "if (" \o CText(s.c) \o ") " \o (IF s.ch[1].k \in {"if1", "if2", "while", "for", "label"} THEN "{ " \o Sp(s.ch[1]) \o " }" ELSE Sp(s.ch[1]))
                       \o " else " \o Sp(s.ch[2])
    [] s.k = "while" -> "while (" \o CText(s.c) \o ") " \o Sp(s.ch[1])
    [] s.k = "do" -> "do " \o Sp(s.ch[1]) \o " while (" \o CText(s.c) \o ");"
    [] s.k = "for" -> "for (" \o EvText(s.i) \o "; " \o CText(s.c) \o "; " \o EvText(s.t) \o ") " \o Sp(s.ch[1])
    [] s.k = "switch" -> "switch (" \o CText(s.c) \o ") { " \o SpItems(s, 1, "") \o "}"

(* ======================================================================= *)
(*                               GENERATOR                                 *)
(* ======================================================================= *)
Pick(S) == IF Rnd /\ S # {} THEN {RandomElement(S)} ELSE S
(* hole context: d remaining depth, lp inside a loop, sw inside a switch *)
Hole(d, lp, sw) == [d |-> d, lp |-> lp, sw |-> sw]
Pos == Len(toks) + 1                               \* position (pre-order index) of the node being created
(* menus; every event number is derived from the position so that no two nodes emit the same event *)
IfConds == LET all == {Cnd("c", 0, 0, 0), Cnd("c", 1, 0, 0), Cnd("cnt", 0, Pos, 1), Cnd("ev", 100 + Pos, 0, 0), Cnd("ev", 0, 0, 0)}
           IN CASE CondSel = "small" -> {Cnd("c", 0, 0, 0), Cnd("cnt", 0, Pos, 1)}
                [] CondSel = "mid" -> {Cnd("c", 0, 0, 0), Cnd("c", 1, 0, 0), Cnd("cnt", 0, Pos, 1)} [] OTHER -> all
LoopConds == LET all == {Cnd("c", 0, 0, 0), Cnd("c", 1, 0, 0), Cnd("cnt", 0, Pos, 1), Cnd("cnt", 0, Pos, 2), Cnd("pcnt", 0, Pos, 2),
                         Cnd("evcnt", 100 + Pos, Pos, 2), Cnd("ev", 0, 0, 0)}
             IN CASE CondSel = "small" -> {Cnd("cnt", 0, Pos, 2), Cnd("pcnt", 0, Pos, 2)}
                  [] CondSel = "mid" -> {Cnd("c", 0, 0, 0), Cnd("cnt", 0, Pos, 2), Cnd("pcnt", 0, Pos, 2), Cnd("c", 1, 0, 0)} [] OTHER -> all
ForConds == LoopConds \cup (IF CondSel = "all" THEN {NoC} ELSE {})
ForEvs == IF CondSel = "small" THEN {<<0, 200 + Pos>>} ELSE {<<0, 0>>, <<300 + Pos, 200 + Pos>>, <<0, 200 + Pos>>}
SwExprs == IF SwSel = "small" THEN {Cnd("cntv", 0, Pos, 0)}
           ELSE {Cnd("c", 0, 0, 0), Cnd("c", 1, 0, 0), Cnd("c", 5, 0, 0), Cnd("cntv", 0, Pos, 0), Cnd("ev", 100 + Pos, 0, 0)}
SwPats == IF SwSel = "small" THEN {<< <<0>>, <<1>> >>, << <<-1>>, <<1>> >>}
          ELSE {<< <<0>>, <<1>> >>, << <<1>>, <<-1>> >>, << <<-1>>, <<1>> >>, << <<0, 1>>, <<-1>> >>, << <<1>>, <<>>, <<0>> >>,
                << <<2>>, <<-1>>, <<0>> >>, << <<100 + Pos>>, <<0, -1>> >>}

Fill(tk, newholes) == toks' = Append(toks, tk) /\ holes' = newholes \o Tail(holes)
KindIndex(k) == CASE k = "if1" -> 0 [] k = "if2" -> 1 [] k = "while" -> 2 [] k = "do" -> 3 [] k = "for" -> 4 [] k = "switch" -> 5
                  [] k = "seq2" -> 6 [] k = "seq3" -> 7 [] k = "label" -> 8 [] OTHER -> 9
MineK(k) == toks # <<>> \/ (KindIndex(k) % NParts) = Part
Prod(k) ==
  LET h == Head(holes)
      sub(lp, sw) == Hole(h.d - 1, lp, sw)
      E == Tok(k, 0, NoC, 0, 0, <<>>)
  IN /\ k \in Prods /\ Len(toks) < MaxToks /\ MineK(k)
     /\ UNCHANGED fin /\ dep' = (IF MaxDepth - h.d > dep THEN MaxDepth - h.d ELSE dep)
     /\ CASE k = "ev" -> Fill([E EXCEPT !.n = Pos], <<>>) /\ UNCHANGED <<labs, gotos>>
          [] k = "break" -> (h.lp \/ h.sw) /\ Fill(E, <<>>) /\ UNCHANGED <<labs, gotos>>
          [] k = "continue" -> h.lp /\ Fill(E, <<>>) /\ UNCHANGED <<labs, gotos>>
          [] k = "ret" -> Fill([E EXCEPT !.n = Pos], <<>>) /\ UNCHANGED <<labs, gotos>>
          [] k = "goto" -> (\E l \in Pick(Labels) : Fill([E EXCEPT !.n = l], <<>>) /\ gotos' = gotos \cup {l}) /\ UNCHANGED labs
          [] k = "label" -> h.d > 0 /\ (\E l \in Pick(Labels \ labs) : Fill([E EXCEPT !.n = l], <<sub(h.lp, h.sw)>>) /\ labs' = labs \cup {l})
                            /\ UNCHANGED gotos
          [] k = "if1" -> h.d > 0 /\ (\E c \in Pick(IfConds) : Fill([E EXCEPT !.c = c], <<sub(h.lp, h.sw)>>)) /\ UNCHANGED <<labs, gotos>>
          [] k = "if2" -> h.d > 0 /\ (\E c \in Pick(IfConds) : Fill([E EXCEPT !.c = c], <<sub(h.lp, h.sw), sub(h.lp, h.sw)>>))
                          /\ UNCHANGED <<labs, gotos>>
          [] k = "while" -> h.d > 0 /\ (\E c \in Pick(LoopConds) : Fill([E EXCEPT !.c = c], <<sub(TRUE, FALSE)>>)) /\ UNCHANGED <<labs, gotos>>
          [] k = "do" -> h.d > 0 /\ (\E c \in Pick(LoopConds) : Fill([E EXCEPT !.c = c], <<sub(TRUE, FALSE)>>)) /\ UNCHANGED <<labs, gotos>>
          [] k = "for" -> h.d > 0 /\ (\E c \in Pick(ForConds) : \E it \in Pick(ForEvs) :
                                        Fill([E EXCEPT !.c = c, !.i = it[1], !.t = it[2]], <<sub(TRUE, FALSE)>>)) /\ UNCHANGED <<labs, gotos>>
          [] k = "switch" -> h.d > 0 /\ (\E c \in Pick(SwExprs) : \E p \in Pick(SwPats) :
                                           Fill([E EXCEPT !.c = c, !.pat = p], [j \in 1..Len(p) |-> sub(h.lp, TRUE)])) /\ UNCHANGED <<labs, gotos>>
          [] k = "seq2" -> h.d > 0 /\ Fill(E, <<sub(h.lp, h.sw), sub(h.lp, h.sw)>>) /\ UNCHANGED <<labs, gotos>>
          [] k = "seq3" -> h.d > 0 /\ Fill(E, <<sub(h.lp, h.sw), sub(h.lp, h.sw), sub(h.lp, h.sw)>>) /\ UNCHANGED <<labs, gotos>>

Init == toks = <<>> /\ holes = <<Hole(MaxDepth, FALSE, FALSE)>> /\ labs = {} /\ gotos = {} /\ dep = 0 /\ fin = FALSE
Finish == holes = <<>> /\ ~fin /\ gotos \subseteq labs /\ fin' = TRUE /\ UNCHANGED <<toks, holes, labs, gotos, dep>>
Next == ~fin /\ (IF holes = <<>> THEN Finish ELSE \E k \in Pick({p \in Prods : Rnd => ENABLED Prod(p)}) : Prod(k))

(* ---------------------------------------------------------------- emission *)
Kinds(ts) == {ts[i].k : i \in 1..Len(ts)}
             \cup (IF \E i \in 1..Len(ts) : ts[i].k \in {"while", "do", "for"} /\ ts[i].c.ck \in {"cnt", "evcnt"} THEN {"postinc_loop"} ELSE {})
CntIds(ts) == {i \in 1..Len(ts) : ts[i].c.ck \in {"cnt", "pcnt", "evcnt", "cntv"}}
RECURSIVE JoinK(_, _)
JoinK(ts, i) == IF i > Len(ts) THEN "" ELSE ts[i].k \o (IF i < Len(ts) THEN "." ELSE "") \o JoinK(ts, i + 1)
SigOf(ts) == JoinK(ts, 1)
Case ==
  LET root == Tree(toks)
      r == Exec(root, Len(toks))
  IN IF r.ok THEN [body |-> Sp(root), cnt |-> CntIds(toks), ev |-> r.evs, ret |-> r.ret,
                   ft |-> Kinds(toks), sig |-> SigOf(toks), n |-> Len(toks), d |-> dep]
     ELSE [u |-> "fuel", n |-> Len(toks)]
EmitInv == fin => EmitJ(Case)
=============================================================================
