CONSTANTS
  Prods = {"ev", "break", "continue", "ret", "goto", "if1", "if2", "while", "do", "for", "switch", "seq2", "seq3", "label"}
  CondSel = "all"
  SwSel = "all"
  MaxDepth = 3
  MaxToks = 14
  Labels = {1, 2}
  Fuel = 300
  Rnd = TRUE
INIT Init
NEXT Next
INVARIANT EmitInv
