------------------------------ MODULE MIRInsn ------------------------------
(* Per-instruction semantics of MIR, transcribed from MIR.md ("MIR integer   *)
(* insns", "integer overflow insns", "floating point insns", "branch insns",*)
(* "comparison and branch insns").  Integer values are W64 words, FP values *)
(* are FPx values.  Every operator returns [ok, v]: ok = FALSE means MIR.md *)
(* leaves the result undefined (division by zero, INT_MIN / -1, shift count *)
(* outside the operand width, FP->int out of range) and such cases are      *)
(* never replayed.  32-bit ("S") results are returned zero-extended; only   *)
(* their low 32 bits are defined by the documentation.                      *)
EXTENDS Integers, Sequences, W64, FPx

Def(v) == [ok |-> TRUE, v |-> v]
Undef == [ok |-> FALSE, v |-> Zero64]
Bool64(b) == IF b THEN One64 ELSE Zero64

IntUnary == {"mov", "ext8", "ext16", "ext32", "uext8", "uext16", "uext32", "neg", "negs"}
IntArith == {"add", "adds", "sub", "subs", "mul", "muls", "div", "divs", "udiv", "udivs",
             "mod", "mods", "umod", "umods", "and", "ands", "or", "ors", "xor", "xors",
             "lsh", "lshs", "rsh", "rshs", "ursh", "urshs"}
IntCmp == {"eq", "eqs", "ne", "nes", "lt", "lts", "ult", "ults", "le", "les", "ule", "ules",
           "gt", "gts", "ugt", "ugts", "ge", "ges", "uge", "uges"}
IntOvf == {"addo", "addos", "subo", "subos", "mulo", "mulos", "umulo", "umulos"}
IntBinary == IntArith \cup IntCmp \cup IntOvf

Sem1(op, a) ==
  CASE op = "mov" -> Def(a)
    [] op = "ext8" -> Def(Ext8(a)) [] op = "ext16" -> Def(Ext16(a)) [] op = "ext32" -> Def(Ext32(a))
    [] op = "uext8" -> Def(UExt8(a)) [] op = "uext16" -> Def(UExt16(a)) [] op = "uext32" -> Def(UExt32(a))
    [] op = "neg" -> Def(Neg64(a))
    [] op = "negs" -> Def(Lo32(Neg64(a)))

ShiftCnt(b, width) == IF b[2] = 0 /\ b[3] = 0 /\ b[4] = 0 /\ b[1] < width THEN b[1] ELSE -1
S32(a) == Ext32(a)
U32(a) == UExt32(a)

(* comparison outcome as BOOLEAN; cmp in eq ne lt le gt ge *)
CmpW(cmp, signed, a, b) ==
  CASE cmp = "eq" -> a = b [] cmp = "ne" -> a # b
    [] cmp = "lt" -> IF signed THEN SLt64(a, b) ELSE ULt64(a, b)
    [] cmp = "le" -> IF signed THEN SLe64(a, b) ELSE ULe64(a, b)
    [] cmp = "gt" -> IF signed THEN SLt64(b, a) ELSE ULt64(b, a)
    [] cmp = "ge" -> IF signed THEN SLe64(b, a) ELSE ULe64(b, a)

Sem2(op, a, b) ==
  CASE op = "add" -> Def(Add64(a, b)) [] op = "adds" -> Def(Lo32(Add64(a, b)))
    [] op = "sub" -> Def(Sub64(a, b)) [] op = "subs" -> Def(Lo32(Sub64(a, b)))
    [] op = "mul" -> Def(Mul64(a, b)) [] op = "muls" -> Def(Lo32(Mul64(a, b)))
    [] op = "div" -> IF b = Zero64 \/ (a = MinS64 /\ b = Ones64) THEN Undef ELSE Def(SDiv64(a, b))
    [] op = "mod" -> IF b = Zero64 \/ (a = MinS64 /\ b = Ones64) THEN Undef ELSE Def(SRem64(a, b))
    [] op = "udiv" -> IF b = Zero64 THEN Undef ELSE Def(UDiv64(a, b))
    [] op = "umod" -> IF b = Zero64 THEN Undef ELSE Def(URem64(a, b))
    [] op = "divs" -> IF Lo32(b) = Zero64 \/ (Lo32(a) = <<0, 32768, 0, 0>> /\ Lo32(b) = <<65535, 65535, 0, 0>>) THEN Undef
                      ELSE Def(Lo32(SDiv64(S32(a), S32(b))))
    [] op = "mods" -> IF Lo32(b) = Zero64 \/ (Lo32(a) = <<0, 32768, 0, 0>> /\ Lo32(b) = <<65535, 65535, 0, 0>>) THEN Undef
                      ELSE Def(Lo32(SRem64(S32(a), S32(b))))
    [] op = "udivs" -> IF Lo32(b) = Zero64 THEN Undef ELSE Def(Lo32(UDiv64(U32(a), U32(b))))
    [] op = "umods" -> IF Lo32(b) = Zero64 THEN Undef ELSE Def(Lo32(URem64(U32(a), U32(b))))
    [] op = "and" -> Def(And64(a, b)) [] op = "ands" -> Def(Lo32(And64(a, b)))
    [] op = "or" -> Def(Or64(a, b)) [] op = "ors" -> Def(Lo32(Or64(a, b)))
    [] op = "xor" -> Def(Xor64(a, b)) [] op = "xors" -> Def(Lo32(Xor64(a, b)))
    [] op = "lsh" -> IF ShiftCnt(b, 64) < 0 THEN Undef ELSE Def(Shl64(a, ShiftCnt(b, 64)))
    [] op = "rsh" -> IF ShiftCnt(b, 64) < 0 THEN Undef ELSE Def(AShr64(a, ShiftCnt(b, 64)))
    [] op = "ursh" -> IF ShiftCnt(b, 64) < 0 THEN Undef ELSE Def(LShr64(a, ShiftCnt(b, 64)))
    [] op = "lshs" -> IF ShiftCnt(b, 32) < 0 THEN Undef ELSE Def(Lo32(Shl64(U32(a), ShiftCnt(b, 32))))
    [] op = "rshs" -> IF ShiftCnt(b, 32) < 0 THEN Undef ELSE Def(Lo32(AShr64(S32(a), ShiftCnt(b, 32))))
    [] op = "urshs" -> IF ShiftCnt(b, 32) < 0 THEN Undef ELSE Def(Lo32(LShr64(U32(a), ShiftCnt(b, 32))))
    [] op \in {"eq", "ne", "lt", "le", "gt", "ge"} -> Def(Bool64(CmpW(op, TRUE, a, b)))
    [] op \in {"ult", "ule", "ugt", "uge"} -> Def(Bool64(CmpW(SubSeq(op, 2, 3), FALSE, a, b)))
    [] op \in {"eqs", "nes", "lts", "les", "gts", "ges"} -> Def(Bool64(CmpW(SubSeq(op, 1, 2), TRUE, S32(a), S32(b))))
    [] op \in {"ults", "ules", "ugts", "uges"} -> Def(Bool64(CmpW(SubSeq(op, 2, 3), FALSE, U32(a), U32(b))))
    [] op = "addo" -> Def(Add64(a, b)) [] op = "subo" -> Def(Sub64(a, b))
    [] op = "mulo" -> Def(Mul64(a, b)) [] op = "umulo" -> Def(Mul64(a, b))
    [] op = "addos" -> Def(Lo32(Add64(a, b))) [] op = "subos" -> Def(Lo32(Sub64(a, b)))
    [] op = "mulos" -> Def(Lo32(Mul64(a, b))) [] op = "umulos" -> Def(Lo32(Mul64(a, b)))

(* overflow flags set by an overflow insn: [s |-> signed overflow, u |-> unsigned overflow/carry] *)
Fits32S(w) == Ext32(w) = w
OvfFlags(op, a, b) ==
  CASE op = "addo" -> [s |-> AddSOvf(a, b), u |-> AddUOvf(a, b)]
    [] op = "subo" -> [s |-> SubSOvf(a, b), u |-> SubUOvf(a, b)]
    [] op = "mulo" -> [s |-> SMulOvf(a, b), u |-> UMulOvf(a, b)]
    [] op = "umulo" -> [s |-> SMulOvf(a, b), u |-> UMulOvf(a, b)]
    [] op = "addos" -> [s |-> ~Fits32S(Add64(S32(a), S32(b))), u |-> Add64(U32(a), U32(b))[3] # 0]
    [] op = "subos" -> [s |-> ~Fits32S(Sub64(S32(a), S32(b))), u |-> ULt64(U32(a), U32(b))]
    [] op = "mulos" -> [s |-> ~Fits32S(Mul64(S32(a), S32(b))), u |-> LET p == Mul64(U32(a), U32(b)) IN p[3] # 0 \/ p[4] # 0]
    [] op = "umulos" -> [s |-> ~Fits32S(Mul64(S32(a), S32(b))), u |-> LET p == Mul64(U32(a), U32(b)) IN p[3] # 0 \/ p[4] # 0]
(* which flag a branch may consume after which producer: MIR.md pairs bo/bno with the signed   *)
(* insns and ubo/ubno with unsigned ones; for add/sub both are meaningful; for mulo only the    *)
(* signed flag and for umulo only the unsigned flag is defined.                                *)
FlagDefined(op, br) ==
  CASE op \in {"addo", "addos", "subo", "subos"} -> TRUE
    [] op \in {"mulo", "mulos"} -> br \in {"bo", "bno"}
    [] op \in {"umulo", "umulos"} -> br \in {"ubo", "ubno"}
OvfTaken(br, fl) == CASE br = "bo" -> fl.s [] br = "bno" -> ~fl.s [] br = "ubo" -> fl.u [] br = "ubno" -> ~fl.u

(* integer compare-and-branch: name b<cmp>[s] / ub<cmp>[s]; bt/bf[s] on one operand *)
IntBranch == {"beq", "beqs", "bne", "bnes", "blt", "blts", "ublt", "ublts", "ble", "bles", "uble", "ubles",
              "bgt", "bgts", "ubgt", "ubgts", "bge", "bges", "ubge", "ubges"}
BranchCmpOp(op) == IF SubSeq(op, 1, 1) = "u" THEN "u" \o SubSeq(op, 3, Len(op)) ELSE SubSeq(op, 2, Len(op))
Taken2(op, a, b) == Sem2(BranchCmpOp(op), a, b).v = One64
Taken1(op, a) ==
  CASE op = "bt" -> a # Zero64 [] op = "bf" -> a = Zero64
    [] op = "bts" -> Lo32(a) # Zero64 [] op = "bfs" -> Lo32(a) = Zero64

(* ---------------- floating point: prefix f/d/ld selects the format ------ *)
FpArith == {"add", "sub", "mul", "div"}
FpCmp == {"eq", "ne", "lt", "le", "gt", "ge"}
FSem2(fmt, op, x, y) ==     \* returns an FPx value (possibly Inexact)
  CASE op = "add" -> FAdd(x, y, fmt) [] op = "sub" -> FSub(x, y, fmt)
    [] op = "mul" -> FMul(x, y, fmt) [] op = "div" -> FDiv(x, y, fmt)
FCmp64(op, x, y) == Bool64(FCmp(op, x, y))
=============================================================================
