CONSTANTS
  MaxCalls = 3
INIT Init
NEXT Next
ACTION_CONSTRAINT EmitFull
INVARIANTS LinkedBeforeCall
PROPERTIES Monotone
