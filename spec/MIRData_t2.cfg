CONSTANTS
  Plan <- PlanDeep
INIT Init
NEXT Next
ACTION_CONSTRAINT Emit
INVARIANTS LayoutSane
