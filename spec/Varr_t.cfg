CONSTANTS
  InitCap = 2
  Vals = {7, 9}
  MaxCap = 4
  Depth = 5
INIT Init
NEXT Next
VIEW View
CONSTRAINT Bound
ACTION_CONSTRAINT EmitH
INVARIANTS Shape
