CONSTANTS
  InitCap = 0
  Vals = {7, 9, 11}
  MaxCap = 100
  Depth = 3
INIT Init
NEXT Next
VIEW View
CONSTRAINT Bound
ACTION_CONSTRAINT EmitH
INVARIANTS Shape
