CONSTANTS
  InitCap = 0
  Vals = {7, 9}
  MaxCap = 100
  Depth = 4
INIT Init
NEXT Next
VIEW View
CONSTRAINT Bound
ACTION_CONSTRAINT EmitH
INVARIANTS Shape
