------------------------------- MODULE HTab -------------------------------
(* mir-htab.h: implementation-shaped hash table (open addressing over an     *)
(* `entries` index array pointing into an `els` array, tombstones, rebuild  *)
(* when the element array is full) together with the abstract map it must   *)
(* refine.  One action per public operation (HTAB_DO with each action,      *)
(* HTAB_CLEAR, HTAB_FOREACH_ELEM).  The history variable h carries, per     *)
(* step, the operation, the values the abstract map predicts and the        *)
(* projection of the implementation-shaped state; it is hidden by VIEW.     *)
EXTENDS Integers, Sequences, FiniteSets, TLC, Json, Emit

CONSTANTS NK,        \* keys are 1..NK
          NV,        \* element versions 1..NV (distinguish REPLACE from INSERT)
          HashVals,  \* candidate hash values (0 is HTAB_DELETED_HASH)
          MinSize,   \* argument of HTAB_CREATE
          MaxSize,   \* state constraint: els array size
          Depth      \* history length bound

VARIABLES hf,        \* the user's hash function  Keys -> HashVals
          size,      \* length of entries (= 2 * length of els)
          entries,   \* [0..size-1 -> Int]   EMPTY / DELETED / index into els
          els,       \* [0..size/2-1 -> [hash, k, v]]  (Nil beyond elsBound)
          elsNum, elsBound,
          amap,      \* abstract map: function from a subset of Keys to Vals
          h          \* history

Keys == 1..NK
Vals == 1..NV
EMPTY == -1
DELETED == -2
Nil == [hash |-> 0, k |-> 0, v |-> 0]
ElsSize == size \div 2

impl == <<hf, size, entries, els, elsNum, elsBound>>
vars == <<hf, size, entries, els, elsNum, elsBound, amap, h>>
View == <<hf, size, entries, els, elsNum, elsBound, amap>>

RECURSIVE InitSize(_)
InitSize(s) == IF MinSize > s THEN InitSize(2 * s) ELSE s

HashOf(k) == IF hf[k] = 0 THEN 1 ELSE hf[k]     \* "if (hash == HTAB_DELETED_HASH) hash += 1"

(* The probe loop of HTAB_DO.  Returns [found, ent]: found => ent is the   *)
(* entry holding the element; ~found => ent is the entry an insertion uses *)
(* (the LAST deleted entry seen, as the code overwrites first_deleted_entry *)
(* on every tombstone, else the empty entry that ended the search).         *)
RECURSIVE Probe(_, _, _, _, _, _, _, _)
Probe(ent, el, sz, hash, k, ind, peterb, fdel) ==
  LET ei == ent[ind] IN
  IF ei = EMPTY THEN [found |-> FALSE, ent |-> IF fdel # -1 THEN fdel ELSE ind]
  ELSE IF ei # DELETED /\ el[ei].hash = hash /\ el[ei].k = k THEN [found |-> TRUE, ent |-> ind]
  ELSE LET p2 == peterb \div 2048
       IN Probe(ent, el, sz, hash, k, (5 * ind + p2 + 1) % sz, p2, IF ei = DELETED THEN ind ELSE fdel)

Find(ent, el, sz, k) == Probe(ent, el, sz, HashOf(k), k, HashOf(k) % sz, HashOf(k), -1)

(* Re-insertion of the live elements els[i..bound-1] into a table of size sz *)
RECURSIVE Rebuild(_, _, _, _, _, _, _)
Rebuild(ent, el, sz, old, i, bound, nb) ==
  IF i >= bound THEN [ent |-> ent, el |-> el, nb |-> nb]
  ELSE IF old[i].hash = 0 THEN Rebuild(ent, el, sz, old, i + 1, bound, nb)
  ELSE LET r == Find(ent, el, sz, old[i].k)
       IN Rebuild([ent EXCEPT ![r.ent] = nb], [el EXCEPT ![nb] = old[i]], sz, old, i + 1, bound, nb + 1)

(* State after the optional rebuild that precedes an INSERT/REPLACE *)
Grown ==
  IF elsBound = ElsSize
  THEN LET sz == 2 * size
           r == Rebuild([i \in 0..sz - 1 |-> EMPTY], [i \in 0..ElsSize * 2 - 1 |-> Nil], sz, els, 0, elsBound, 0)
       IN [size |-> sz, entries |-> r.ent, els |-> r.el, bound |-> r.nb]
  ELSE [size |-> size, entries |-> entries, els |-> els, bound |-> elsBound]

Live(el, bound) == SelectSeq([i \in 1..bound |-> el[i - 1]], LAMBDA e: e.hash # 0)
Proj(sz, el, num, bound) ==
  [size |-> sz, num |-> num, bound |-> bound, live |-> [i \in 1..Len(Live(el, bound)) |-> <<Live(el, bound)[i].k, Live(el, bound)[i].v>>]]

Rec(op, k, v, ret, res, freed) == [op |-> op, k |-> k, v |-> v, ret |-> ret, res |-> res, freed |-> freed]

(* ---- abstract expectations (what a map says), independent of the impl vars *)
AHas(k) == k \in DOMAIN amap
ARet(k) == IF AHas(k) THEN 1 ELSE 0

Init ==
  /\ hf \in [Keys -> HashVals]
  /\ size = 2 * InitSize(2)
  /\ entries = [i \in 0..size - 1 |-> EMPTY]
  /\ els = [i \in 0..(size \div 2) - 1 |-> Nil]
  /\ elsNum = 0 /\ elsBound = 0
  /\ amap = <<>>
  /\ h = <<>>

Step(rec, sz, el, num, bound) == h' = Append(h, [r |-> rec, p |-> Proj(sz, el, num, bound)])

DoFind(k) ==
  LET r == Find(entries, els, size, k) IN
  /\ UNCHANGED <<hf, size, entries, els, elsNum, elsBound, amap>>
  /\ Step(Rec("find", k, 0, ARet(k), IF AHas(k) THEN amap[k] ELSE 0, <<>>), size, els, elsNum, elsBound)
  /\ Assert(r.found = AHas(k), "find: impl/abstract disagree")
  /\ Assert(r.found => els[entries[r.ent]].v = amap[k], "find: wrong element")

DoInsert(k, v, replace) ==
  LET g == Grown
      r == Find(g.entries, g.els, g.size, k)
      newel == [hash |-> HashOf(k), k |-> k, v |-> v]
      old == IF AHas(k) THEN amap[k] ELSE 0
  IN
  /\ UNCHANGED hf
  /\ size' = g.size
  /\ IF r.found
     THEN /\ entries' = g.entries
          /\ els' = IF replace THEN [g.els EXCEPT ![g.entries[r.ent]] = newel] ELSE g.els
          /\ elsNum' = elsNum /\ elsBound' = g.bound
     ELSE /\ entries' = [g.entries EXCEPT ![r.ent] = g.bound]
          /\ els' = [g.els EXCEPT ![g.bound] = newel]
          /\ elsNum' = elsNum + 1 /\ elsBound' = g.bound + 1
  /\ amap' = IF AHas(k) /\ ~replace THEN amap
             ELSE [x \in DOMAIN amap \cup {k} |-> IF x = k THEN v ELSE amap[x]]
  /\ Step(Rec(IF replace THEN "replace" ELSE "insert", k, v, ARet(k),
              IF AHas(k) /\ ~replace THEN old ELSE v,
              IF AHas(k) /\ replace THEN <<<<k, old>>>> ELSE <<>>), size', els', elsNum', elsBound')
  /\ Assert(r.found = AHas(k), "insert: impl/abstract disagree")

DoDelete(k) ==
  LET r == Find(entries, els, size, k) IN
  /\ UNCHANGED <<hf, size, elsBound>>
  /\ IF r.found
     THEN /\ entries' = [entries EXCEPT ![r.ent] = DELETED]
          /\ els' = [els EXCEPT ![entries[r.ent]] = Nil]
          /\ elsNum' = elsNum - 1
     ELSE UNCHANGED <<entries, els, elsNum>>
  /\ amap' = [x \in DOMAIN amap \ {k} |-> amap[x]]
  /\ Step(Rec("delete", k, 0, ARet(k), 0, IF AHas(k) THEN <<<<k, amap[k]>>>> ELSE <<>>), size, els', elsNum', elsBound)
  /\ Assert(r.found = AHas(k), "delete: impl/abstract disagree")

DoClear ==
  /\ UNCHANGED <<hf, size>>
  /\ entries' = [i \in 0..size - 1 |-> EMPTY]
  /\ els' = [i \in 0..ElsSize - 1 |-> Nil]
  /\ elsNum' = 0 /\ elsBound' = 0
  /\ amap' = <<>>
  /\ Step(Rec("clear", 0, 0, 0, 0, Proj(size, els, elsNum, elsBound).live), size, els', 0, 0)

Next ==
  \/ \E k \in Keys : DoFind(k) \/ DoDelete(k)
  \/ \E k \in Keys, v \in Vals : DoInsert(k, v, FALSE) \/ DoInsert(k, v, TRUE)
  \/ DoClear

Spec == Init /\ [][Next]_vars

(* ---------------- properties (checked in every reachable state) ---------- *)
LiveSet == {<<e.k, e.v>> : e \in {els[i] : i \in 0..elsBound - 1} \ {Nil}}
Refines ==                               \* the table holds exactly the abstract map
  /\ LiveSet = {<<k, amap[k]>> : k \in DOMAIN amap}
  /\ elsNum = Cardinality(DOMAIN amap)
  /\ Len(Live(els, elsBound)) = elsNum   \* no duplicates among live slots
Reachable ==                             \* every live element is found by the probe sequence
  \A k \in DOMAIN amap : Find(entries, els, size, k).found
Shape ==
  /\ elsBound <= ElsSize
  /\ Cardinality({i \in 0..size - 1 : entries[i] # EMPTY}) <= ElsSize   \* probe loop terminates
  /\ \A i \in 0..size - 1 : entries[i] >= 0 => entries[i] < elsBound /\ els[entries[i]] # Nil
  /\ \A i, j \in 0..size - 1 : i # j /\ entries[i] >= 0 => entries[i] # entries[j]

(* simulation: a fixed hash function over a larger key universe; emit only complete histories *)
HashSeq == <<0, 5, 6, 2053, 1, 4101, 5, 0, 2048, 7>>
InitSim ==
  /\ hf = [k \in Keys |-> HashSeq[(k % Len(HashSeq)) + 1]]
  /\ size = 2 * InitSize(2)
  /\ entries = [i \in 0..size - 1 |-> EMPTY]
  /\ els = [i \in 0..(size \div 2) - 1 |-> Nil]
  /\ elsNum = 0 /\ elsBound = 0 /\ amap = <<>> /\ h = <<>>
EmitEnd == (Len(h') = Depth) => EmitJ([hf |-> [k \in Keys |-> hf[k]], min |-> MinSize, h |-> h'])

Bound == Len(h) <= Depth /\ ElsSize <= MaxSize
Emit == EmitJ([hf |-> [k \in Keys |-> hf[k]], min |-> MinSize, h |-> h'])
=============================================================================
