CONSTANTS
  N = 2
  SrcVecs <- SrcAllC
  Globals <- BenignGlobals
  Depth = 18
INIT Init
NEXT Next
VIEW View
CONSTRAINT Bound
ACTION_CONSTRAINT EmitStep
INVARIANTS TypeOK Isolation NoSharedWrite
