CONSTANTS
  MaxMods = 1
  MaxItems = 7
  MaxInsns = 6
  MinItems = 4
  MinInsns = 3
  Grid = "full"
  Preamble = FALSE
  Header = "free"
  OneFree = FALSE
  NonFinite = FALSE
INIT Init
NEXT Next
ACTION_CONSTRAINT EmitModule
INVARIANTS WellFormed NFIdempotent
