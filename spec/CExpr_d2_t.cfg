CONSTANTS
  LeafTypes = {"uc", "i", "ul"}
  GridSel = "g2"
  UnOps = {"-", "~", "!"}
  CastTypes = {"B", "sc", "us", "l"}
  BinOps = {"+", "-", "*", "/", "<<", ">>", "<", "&&"}
  UseCond = TRUE
  LvTypes = {}
  AsgOps = {}
  IncOps = {}
  UseEnum = FALSE
  UseLit = FALSE
  BfWidths = {}
  MaxDepth = 2
  MaxLeaves = 3
  MaxStack = 3
  MinParen = TRUE
  TwoPhase = FALSE
  Rnd = FALSE
  PtrLv = FALSE
INIT Init
NEXT Next
INVARIANT EmitInv
