CONSTANTS
  NSlots = 12
  Glob = "no"
  Abs = FALSE
  Lean = FALSE
  Vocab = "all"
INIT Init
NEXT Next
ACTION_CONSTRAINT EmitCase
INVARIANTS TypeOK RegsTyped
