INIT Init
NEXT Next
ACTION_CONSTRAINT EmitResult
