CONSTANTS
  Fam = "mac"
  NM = 1
  KindSet = {"f1", "f2", "fv", "f1v"}
  MaxBody = 5
  MaxInv = 6
  BodyAlpha = {"x", "y", "V", "##", "a", "1", "(", "#x", "f"}
  InvAlpha = {"f", "a", "1", "(", ")", ","}
  VarWs = FALSE
  InvHead = TRUE
  NameScheme = 1
  MaxLines = 1
  MaxNest = 1
  CondSet = {"0"}
  LineSet = {"endif"}
  MaxD = 0
  AtomSet = {"0"}
  OpSet = {"+"}
INIT Init
NEXT Next
INVARIANT EmitInv
