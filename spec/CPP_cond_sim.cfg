CONSTANTS
  Fam = "cond"
  NM = 1
  KindSet = {"obj", "f0", "f1", "f2", "fv", "f1v"}
  MaxBody = 3
  MaxInv = 6
  BodyAlpha = {"x", "y", "V", "#x", "#y", "#V", "#", "##", "f", "a", "1"}
  InvAlpha = {"f", "a", "(", ")", ","}
  VarWs = FALSE
  InvHead = TRUE
  InvBal = TRUE
  NameScheme = 1
  MaxLines = 12
  MaxNest = 3
  CondSet = {"0", "1", "defD", "ndefD", "U", "D", "BAD", "m1", "0u", "ifdef"}
  LineSet = {"elif", "else", "endif", "def", "undef"}
  MaxD = 0
  AtomSet = {"0"}
  GapSet = {"sp"}
  OpSet = {"+"}
INIT Init
NEXT Next
INVARIANT EmitInv
