------------------------------- MODULE MIRExec -------------------------------
(* Execution interfaces (C03).  A linked program of two modules: module 1    *)
(* holds the helper functions (called directly, through a function address  *)
(* in a register, recursively, and from a C callback), module 2 holds two   *)
(* entry functions eA and eB that import them.  The link chooses one        *)
(* interface for every function - or one for the helper module, linked       *)
(* first, and another for the entry module, loaded and linked afterwards     *)
(* (calls then cross between interpreted and generated code through the     *)
(* public addresses); afterwards entries are called in any order through    *)
(* MIR_interp or through their public address.                              *)
(*                                                                          *)
(* Implementation-shaped state: what each function's public address (thunk) *)
(* currently leads to.  The property - behaviour is the same for every      *)
(* interface and every order of first calls, and the public address stays   *)
(* valid across the switch from stub to code - is phrased on the history:   *)
(* every Call event expects the interface-independent result of that entry. *)
EXTENDS Integers, Sequences, FiniteSets, TLC, Json, Emit

CONSTANTS MaxCalls
Entries == {"eA", "eB"}
Helpers == {"g1", "g2", "g3", "g4", "g5"}
Funcs == Entries \cup Helpers
Ifaces == {"interp", "gen", "lazy", "bb"}
Levels == {0, 1, 2, 3}

VARIABLES iface,      \* interface of the entry module ("none" before the link)
          ihelp,      \* interface of the helper module
          level, target, ncalls, h
vars == <<iface, ihelp, level, target, ncalls, h>>
View == <<iface, ihelp, level, target, ncalls>>

(* helpers an entry may reach (statically): all of them; g2 and g5 can be re-entered *)
Reach(e) == Helpers

Init == iface = "none" /\ ihelp = "none" /\ level = 0 /\ target = [f \in Funcs |-> "undef"] /\ ncalls = 0 /\ h = <<>>

TargetOf(i) == CASE i = "interp" -> "interp_shim" [] i = "gen" -> "code" [] i = "lazy" -> "lazy_wrapper" [] i = "bb" -> "bb_wrapper"
(* i: interface of the entry module, ih: of the helper module (two MIR_link calls when they differ; mixed links at level 2 only) *)
Link(i, ih, l) ==
  /\ iface = "none"
  /\ ih # i => l = 2
  /\ iface' = i /\ ihelp' = ih /\ level' = (IF i = "interp" /\ ih = "interp" THEN 0 ELSE l)
  /\ target' = [f \in Funcs |-> TargetOf(IF f \in Entries THEN i ELSE ih)]
  /\ UNCHANGED ncalls
  /\ h' = Append(h, [a |-> "link", i |-> i, ih |-> ih, l |-> level'])

(* via = "api": MIR_interp (only meaningful with the interpreter interface), via = "addr": through item->addr *)
Call(e, via) ==
  /\ iface # "none" /\ ncalls < MaxCalls
  /\ via = "api" => iface = "interp"
  /\ ncalls' = ncalls + 1
  /\ target' = [f \in Funcs |->
                  IF f \in {e} \cup Reach(e)
                  THEN (CASE target[f] = "lazy_wrapper" -> "code"          \* first call generates the function
                          [] target[f] = "bb_wrapper" -> "bb_code"        \* first call starts per-block generation
                          [] OTHER -> target[f])
                  ELSE target[f]]
  /\ UNCHANGED <<iface, ihelp, level>>
  /\ h' = Append(h, [a |-> "call", e |-> e, via |-> via, first |-> target[e] \in {"lazy_wrapper", "bb_wrapper"}])

Next == (\E i \in Ifaces, ih \in Ifaces, l \in Levels : Link(i, ih, l)) \/ (\E e \in Entries, via \in {"api", "addr"} : Call(e, via))
Spec == Init /\ [][Next]_vars

(* once code, always code; a wrapper is left only by a call *)
Monotone == [][\A f \in Funcs : target[f] \in {"code", "bb_code"} => target'[f] = target[f]]_vars
LinkedBeforeCall == ncalls > 0 => iface # "none"
EmitFull == (ncalls' = MaxCalls /\ ncalls = MaxCalls - 1) => EmitJ([h |-> h'])
=============================================================================
