CONSTANTS
  NE = 5
  Depth = 7
INIT Init
NEXT Next
VIEW View
CONSTRAINT Bound
ACTION_CONSTRAINT EmitH
INVARIANTS Refines
