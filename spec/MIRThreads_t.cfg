CONSTANTS
  N = 3
  SrcVecs <- SrcAllMir
  Globals <- BenignGlobals
  Depth = 27
INIT Init
NEXT Next
VIEW View
CONSTRAINT Bound
ACTION_CONSTRAINT EmitStep
INVARIANTS TypeOK Isolation NoSharedWrite
