CONSTANTS
  MaxM = 4
  MaxInner = 2
  MaxDepth = 0
  MaxNested = 0
  Atoms <- AtomsEdge
  InnerAtoms <- AtomsTiny
  NestKinds <- NestPlain
INIT Init
NEXT Next
ACTION_CONSTRAINT Emit
INVARIANT Sane
