CONSTANTS
  B0 = {8}
  B1 = {8}
  B2 = {8}
  B3 = {16}
  B4 = {16}
  Depth = 1
  SimLens = {1}
  MaxRes = 1
  ResAlphabet = {"i8"}
INIT TInit
NEXT TNext
POSTCONDITION Accepted
