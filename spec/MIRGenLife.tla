----------------------------- MODULE MIRGenLife -----------------------------
(* Lifecycle of whole-function code generation as seen through the API       *)
(* (C16): link with an interface, explicit / eager / lazy generation,       *)
(* repeated generation, textual output, interpretation, calls through the   *)
(* public address, and a module loaded and linked later that calls and      *)
(* inlines the already generated functions.                                 *)
(*                                                                          *)
(* State is implementation-shaped: per function the thunk target and the    *)
(* machine-code identity; the properties are phrased over what the API      *)
(* shows: text (always the text recorded after the first link), entry       *)
(* address returned by MIR_gen (stable), and results (always the            *)
(* specification's).  Functions: "main" (entry, calls the helpers), "h1"    *)
(* (small, inlined into main at link), "h2" (recursive, called).            *)
EXTENDS Integers, Sequences, FiniteSets, TLC, Json, Emit, IOUtils

CONSTANTS Depth
DepthEnv == IF "C16_DEPTH" \in DOMAIN IOEnv THEN (CASE IOEnv.C16_DEPTH = "4" -> 4 [] IOEnv.C16_DEPTH = "5" -> 5 [] IOEnv.C16_DEPTH = "6" -> 6 [] OTHER -> 4) ELSE 4
Funcs == {"main", "h1", "h2"}
Ifaces == {"interp", "gen", "lazy"}

VARIABLES iface,      \* "none" before the first link
          target,     \* [Funcs -> {"undef", "interp", "lazywrap", "code"}]  what the public address leads to
          mcode,      \* [Funcs -> Nat] identity of the machine code (0 = none)
          serial,     \* generation counter
          later,      \* 0 = second module not loaded, 1 = loaded and linked
          h
vars == <<iface, target, mcode, serial, later, h>>
View == <<iface, target, mcode, later>>

Init == iface = "none" /\ target = [f \in Funcs |-> "undef"] /\ mcode = [f \in Funcs |-> 0] /\ serial = 0 /\ later = 0 /\ h = <<>>

Log(rec) == h' = Append(h, rec)

(* the set of functions a call of f executes as separate functions (h1 is inlined into main by the link) *)
Callees(f) == IF f = "main" THEN {"h2"} ELSE IF f = "h2" THEN {"h2"} ELSE {}

GenSet(S) ==      \* generate every function of S that has no code yet, in a fixed order
  LET todo == {f \in S : mcode[f] = 0}
      ord == CHOOSE sq \in [1..Cardinality(todo) -> todo] : \A i, j \in 1..Cardinality(todo) : i # j => sq[i] # sq[j]
  IN /\ mcode' = [f \in Funcs |-> IF f \in todo THEN serial + (CHOOSE i \in 1..Cardinality(todo) : ord[i] = f) ELSE mcode[f]]
     /\ serial' = serial + Cardinality(todo)
     /\ target' = [f \in Funcs |-> IF f \in S THEN "code" ELSE target[f]]

Link(i) ==
  /\ iface = "none"
  /\ iface' = i
  /\ IF i = "gen" THEN GenSet(Funcs)
     ELSE /\ target' = [f \in Funcs |-> IF i = "interp" THEN "interp" ELSE "lazywrap"]
          /\ UNCHANGED <<mcode, serial>>
  /\ UNCHANGED later
  /\ Log([a |-> "link", i |-> i])

(* explicit MIR_gen (f): returns the entry; asking again returns the same *)
Gen(f) ==
  /\ iface # "none"
  /\ GenSet({f})
  /\ UNCHANGED <<iface, later>>
  /\ Log([a |-> "gen", f |-> f, again |-> mcode[f] # 0])

Output(f) == iface # "none" /\ UNCHANGED <<iface, target, mcode, serial, later>> /\ Log([a |-> "output", f |-> f])

(* MIR_interp (main): interprets main; callees are reached through their public addresses *)
InterpCall ==
  /\ iface # "none"
  /\ IF \E g \in Callees("main") : target[g] = "lazywrap" THEN GenSet({g \in Callees("main") : target[g] = "lazywrap"})
     ELSE UNCHANGED <<target, mcode, serial>>
  /\ UNCHANGED <<iface, later>>
  /\ Log([a |-> "interp", f |-> "main"])

(* call of main through its public address *)
AddrCall ==
  /\ iface # "none"
  /\ LET lazy == {g \in {"main"} \cup Callees("main") : target[g] = "lazywrap"} IN
     IF lazy # {} THEN GenSet(lazy) ELSE UNCHANGED <<target, mcode, serial>>
  /\ UNCHANGED <<iface, later>>
  /\ Log([a |-> "call", f |-> "main"])

(* a second module, loaded and linked now, whose function calls h2 and inlines h1 of the first module *)
(* the interface given to this second MIR_link applies to the newly loaded module only and may differ from the first *)
LinkLater(i2) ==
  /\ iface # "none" /\ later = 0
  /\ later' = (CASE i2 = "interp" -> 1 [] i2 = "gen" -> 2 [] i2 = "lazy" -> 3)
  /\ UNCHANGED <<iface, target, mcode, serial>>
  /\ Log([a |-> "later", i |-> i2])
CallLate ==
  /\ later > 0
  /\ LET lazy == {g \in {"h1", "h2"} : target[g] = "lazywrap"} IN
     IF lazy # {} THEN GenSet({"h2"} \cap lazy) ELSE UNCHANGED <<target, mcode, serial>>
  /\ UNCHANGED <<iface, later>>
  /\ Log([a |-> "calllate", via |-> IF later = 1 THEN "interp" ELSE "addr"])
(* explicit MIR_gen of the later module's function (it inlines h1 and calls h2 directly) *)
GenLate ==
  /\ later > 0
  /\ UNCHANGED <<iface, target, mcode, serial, later>>
  /\ Log([a |-> "genlate"])

Next == \/ \E i \in Ifaces : Link(i)
        \/ \E f \in Funcs : Gen(f) \/ Output(f)
        \/ InterpCall \/ AddrCall \/ (\E i2 \in Ifaces : LinkLater(i2)) \/ CallLate \/ GenLate
Spec == Init /\ [][Next]_vars

(* ---- properties of the model (what the binding then demands of the code) ---- *)
GenIdempotent == [][\A f \in Funcs : mcode[f] # 0 => mcode'[f] = mcode[f]]_vars     \* code identity never changes once made
CodeImpliesTarget == \A f \in Funcs : target[f] = "code" => mcode[f] # 0
NoRegress == [][\A f \in Funcs : target[f] = "code" => target'[f] = "code"]_vars

Bound == Len(h) <= Depth
EmitH == EmitJ([h |-> h', mcode |-> [f \in Funcs |-> mcode'[f]]])
=============================================================================
