CONSTANTS
  N = 3
  SrcVecs <- SrcAny
  Globals <- BenignGlobals
  Depth = 27
INIT Init
NEXT Next
CONSTRAINT Bound
ACTION_CONSTRAINT EmitFull
INVARIANTS TypeOK Isolation NoSharedWrite
