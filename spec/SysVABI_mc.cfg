CONSTANTS
  B0 = {8, 20, 24}
  B1 = {8, 12, 16}
  B2 = {8, 16}
  B3 = {16}
  B4 = {16}
  Depth = 14
  SimLens = {8, 16, 24}
  MaxRes = 4
  ResAlphabet = {"i8", "u16", "i32", "u32", "i64", "f", "d", "ld"}
INIT Init
NEXT Next
VIEW View
CONSTRAINT Bound
ACTION_CONSTRAINT EmitEdge
INVARIANTS Shape Disjoint Whole VaReadsPlacement
