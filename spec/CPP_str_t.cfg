CONSTANTS
  Fam = "mac"
  NM = 1
  KindSet = {"f1", "f2", "fv", "f1v"}
  MaxBody = 2
  MaxInv = 5
  BodyAlpha = {"#x", "#y", "#V", "x", "a"}
  InvAlpha = {"f", "a", "(", ")", ",", "S1", "S2", "C1", "C2"}
  VarWs = TRUE
  InvHead = TRUE
  InvBal = TRUE
  NameScheme = 1
  MaxLines = 1
  MaxNest = 1
  CondSet = {"0"}
  LineSet = {"endif"}
  MaxD = 0
  AtomSet = {"0"}
  GapSet = {"sp"}
  OpSet = {"+"}
INIT Init
NEXT Next
INVARIANT EmitInv
