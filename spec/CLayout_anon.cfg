CONSTANTS
  MaxM = 2
  MaxInner = 2
  MaxDepth = 2
  MaxNested = 1
  Atoms <- AtomsMicro
  InnerAtoms <- AtomsMicro
  NestKinds <- NestAnon
INIT Init
NEXT Next
ACTION_CONSTRAINT Emit
INVARIANT Sane
