------------------------------ MODULE Bitmap ------------------------------
(* mir-bitmap.h.  A bitmap is implementation-shaped: [len, bits] where len  *)
(* is the number of 64-bit words currently in the vector (VARR length) and  *)
(* bits the set of bit numbers that are 1 (all < 64*len).  Each operation   *)
(* is transcribed from the header at word granularity (expand, per-word     *)
(* loop, bound, trunc) and compared with the set-algebra meaning.           *)
(* The state space is generated directly: Init chooses any three shapes,    *)
(* Next applies any one operation with any aliasing of dst/src1/src2/src3.  *)
EXTENDS Integers, Sequences, FiniteSets, TLC, Json, Emit

CONSTANTS U,          \* bit numbers used to build shapes and as single-bit arguments
          MaxLen,     \* max word length of an initial shape
          Ranges,     \* set of <<nb, len>> for the range operations
          TailChecked \* TRUE: `changed` also looks at destination words beyond the sources

VARIABLES bm, last, phase
vars == <<bm, last, phase>>

W == 64
NB == 3
Shapes == UNION {{[len |-> l, bits |-> s] : s \in SUBSET {b \in U : b < W * l}} : l \in 0..MaxLen}

Max(a, b) == IF a > b THEN a ELSE b
WordsFor(nbits) == (nbits + W - 1) \div W
Expand(b, nbits) == [b EXCEPT !.len = Max(b.len, WordsFor(nbits))]
Word(s, i) == {x \in s : x \div W = i}
(* index+1 of the last non-empty word among 0..n-1 (the code's `bound`) *)
BoundOf(s, n) == IF \E i \in 0..n - 1 : Word(s, i) # {} THEN 1 + CHOOSE i \in 0..n - 1 : Word(s, i) # {} /\ \A j \in i + 1..n - 1 : Word(s, j) = {} ELSE 0

(* ---- operations: each returns [bm2 (new value of dst), ret] ------------ *)
SetBit(b, n) == [b2 |-> [Expand(b, n + 1) EXCEPT !.bits = @ \cup {n}], ret |-> IF n \in b.bits THEN 0 ELSE 1]
ClearBit(b, n) == [b2 |-> [b EXCEPT !.bits = @ \ {n}], ret |-> IF n < W * b.len /\ n \in b.bits THEN 1 ELSE 0]
BitP(b, n) == IF n < W * b.len /\ n \in b.bits THEN 1 ELSE 0
Rng(nb, ln) == nb..nb + ln - 1
SetRange(b, nb, ln) == [b2 |-> [Expand(b, nb + ln) EXCEPT !.bits = @ \cup Rng(nb, ln)],
                        ret |-> IF Rng(nb, ln) \subseteq b.bits THEN 0 ELSE 1]
ClearRange(b, nb, ln) == [b2 |-> [Expand(b, nb + ln) EXCEPT !.bits = @ \ Rng(nb, ln)],
                          ret |-> IF Rng(nb, ln) \cap b.bits = {} THEN 0 ELSE 1]
Copy(d, s) == [b2 |-> s, ret |-> 0]
Clear(d) == [b2 |-> [len |-> 0, bits |-> {}], ret |-> 0]

(* bitmap_op2 / bitmap_op3 at word granularity.  new = set-level result. *)
OpN(d, srcLen, new) ==
  LET len == srcLen
      d1 == Expand(d, len * W)
      below == {x \in new : x < len * W}
      changedLoop == \E i \in 0..len - 1 : Word(d1.bits, i) # Word(below, i)
      tail == \E i \in len..d1.len - 1 : Word(d1.bits, i) # {}
      bound == BoundOf(below, len)
  IN [b2 |-> [len |-> bound, bits |-> below],
      ret |-> IF changedLoop \/ (TailChecked /\ tail) THEN 1 ELSE 0]

And2(d, a, b) == OpN(d, Max(a.len, b.len), a.bits \cap b.bits)
AndCompl2(d, a, b) == OpN(d, Max(a.len, b.len), a.bits \ b.bits)
Ior2(d, a, b) == OpN(d, Max(a.len, b.len), a.bits \cup b.bits)
IorAnd3(d, a, b, c) == OpN(d, Max(a.len, Max(b.len, c.len)), a.bits \cup (b.bits \cap c.bits))
IorAndCompl3(d, a, b, c) == OpN(d, Max(a.len, Max(b.len, c.len)), a.bits \cup (b.bits \ c.bits))

EqualP(a, b) == IF a.bits = b.bits THEN 1 ELSE 0
IntersectP(a, b) == IF a.bits \cap b.bits # {} THEN 1 ELSE 0
EmptyP(a) == IF a.bits = {} THEN 1 ELSE 0
Count(a) == Cardinality(a.bits)
MinBit(a) == IF a.bits = {} THEN 0 ELSE CHOOSE x \in a.bits : \A y \in a.bits : x <= y
MaxBit(a) == IF a.bits = {} THEN 0 ELSE CHOOSE x \in a.bits : \A y \in a.bits : x >= y

B == 1..NB
Init == bm \in [B -> Shapes] /\ last = <<>> /\ phase = 0

(* last = <<opcode, d, s1, s2, s3, arg1, arg2, ret, newlen, newbits, abstract_changed>> *)
Apply(op, d, s1, s2, s3, a1, a2, r) ==
  /\ phase = 0 /\ phase' = 1
  /\ bm' = [bm EXCEPT ![d] = r.b2]
  /\ last' = <<op, d, s1, s2, s3, a1, a2, r.ret, r.b2.len, r.b2.bits>>

Next ==
  \/ \E d \in B, n \in U : Apply(1, d, 0, 0, 0, n, 0, SetBit(bm[d], n))
  \/ \E d \in B, n \in U : Apply(2, d, 0, 0, 0, n, 0, ClearBit(bm[d], n))
  \/ \E d \in B, rg \in Ranges : Apply(3, d, 0, 0, 0, rg[1], rg[2], SetRange(bm[d], rg[1], rg[2]))
  \/ \E d \in B, rg \in Ranges : Apply(4, d, 0, 0, 0, rg[1], rg[2], ClearRange(bm[d], rg[1], rg[2]))
  \/ \E d \in B, s \in B : Apply(5, d, s, 0, 0, 0, 0, Copy(bm[d], bm[s]))
  \/ \E d \in B : Apply(6, d, 0, 0, 0, 0, 0, Clear(bm[d]))
  \/ \E d \in B, s1 \in B, s2 \in B : Apply(7, d, s1, s2, 0, 0, 0, And2(bm[d], bm[s1], bm[s2]))
  \/ \E d \in B, s1 \in B, s2 \in B : Apply(8, d, s1, s2, 0, 0, 0, AndCompl2(bm[d], bm[s1], bm[s2]))
  \/ \E d \in B, s1 \in B, s2 \in B : Apply(9, d, s1, s2, 0, 0, 0, Ior2(bm[d], bm[s1], bm[s2]))
  \/ \E d \in B, s1 \in B, s2 \in B, s3 \in B : Apply(10, d, s1, s2, s3, 0, 0, IorAnd3(bm[d], bm[s1], bm[s2], bm[s3]))
  \/ \E d \in B, s1 \in B, s2 \in B, s3 \in B : Apply(11, d, s1, s2, s3, 0, 0, IorAndCompl3(bm[d], bm[s1], bm[s2], bm[s3]))
  \* queries: d is the (unchanged) subject, result in ret
  \/ \E d \in B, n \in U : Apply(12, d, 0, 0, 0, n, 0, [b2 |-> bm[d], ret |-> BitP(bm[d], n)])
  \/ \E d \in B, s \in B : Apply(13, d, s, 0, 0, 0, 0, [b2 |-> bm[d], ret |-> EqualP(bm[d], bm[s])])
  \/ \E d \in B, s \in B : Apply(14, d, s, 0, 0, 0, 0, [b2 |-> bm[d], ret |-> IntersectP(bm[d], bm[s])])
  \/ \E d \in B : Apply(15, d, 0, 0, 0, 0, 0, [b2 |-> bm[d], ret |-> EmptyP(bm[d])])
  \/ \E d \in B : Apply(16, d, 0, 0, 0, 0, 0, [b2 |-> bm[d], ret |-> Count(bm[d])])
  \/ \E d \in B : Apply(17, d, 0, 0, 0, 0, 0, [b2 |-> bm[d], ret |-> MinBit(bm[d])])
  \/ \E d \in B : Apply(18, d, 0, 0, 0, 0, 0, [b2 |-> bm[d], ret |-> MaxBit(bm[d])])

Spec == Init /\ [][Next]_vars

(* ---------------- the property, phrased on the abstract sets ------------- *)
(* `changed` is reported exactly when the destination set changed. *)
ChangedExact ==
  [][ (last'[1] \in {1, 2, 3, 4, 7, 8, 9, 10, 11})
        => ((last'[8] = 1) <=> (bm'[last'[2]].bits # bm[last'[2]].bits)) ]_vars
(* representation invariant: no bit at or beyond 64*len *)
Canon == \A d \in B : \A x \in bm[d].bits : x < W * bm[d].len
(* sources that are not the destination are untouched *)
SourcesIntact == [][\A x \in B : x # last'[2] => bm'[x] = bm[x]]_vars

RangesQuick == {<<0,0>>, <<0,1>>, <<0,64>>, <<0,65>>, <<63,2>>, <<1,62>>, <<64,64>>, <<60,70>>, <<63,1>>, <<5,200>>}

RangesThorough == {<<0,64>>, <<63,2>>, <<64,65>>, <<127,2>>, <<1,190>>, <<128,64>>}

Emit == EmitJ(<<[d \in B |-> <<bm[d].len, bm[d].bits>>], last'>>)
=============================================================================
