INIT Init
NEXT Next
CONSTRAINT EmitRow
