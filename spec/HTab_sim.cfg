CONSTANTS
  NK = 12
  NV = 3
  HashVals = {0}
  MinSize = 1
  MaxSize = 100000
  Depth = 120
INIT InitSim
NEXT Next
CONSTRAINT Bound
ACTION_CONSTRAINT EmitEnd
INVARIANTS Refines Reachable Shape
