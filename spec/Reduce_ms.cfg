CONSTANTS
  BufLen = 8
  StartLen = 4
  MaxSymLen = 5
  Fixed = TRUE
  Mode = "enum"
  MaxCost = 1000000000
  NE = 0
  TagSymF = {0, 1, 2, 4, 5, 6, 7}
  TagRefF = {0, 1, 2, 3, 5, 30, 31}
  DataBytes = {97, 98}
  UintLead = {128, 129, 130, 131, 132, 133, 134, 135, 136, 137, 255, 64, 32, 16, 15, 8, 3}
  UintCont = {0, 1, 4, 8, 253, 255}
  ElemSet <- ElemsTiny
  SubstVals = {0}
INIT Init
NEXT Next
VIEW ViewD
INVARIANTS MemorySafe NoAssert
