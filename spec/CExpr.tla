------------------------------- MODULE CExpr -------------------------------
(* Typing and value of C11 integer expressions on x86-64 LP64 (C11 6.3.1.1  *)
(* ranks and integer promotions, 6.3.1.3 conversions, 6.3.1.8 usual          *)
(* arithmetic conversions, 6.4.4.1 types of integer constants, 6.5.x         *)
(* operators, 6.5.16 assignment).  Values are W64 words kept in the          *)
(* canonical form of their type: sign-extended to 64 bits for signed types, *)
(* zero-extended for unsigned types, 0/1 for _Bool.                          *)
(*                                                                           *)
(* Every operator yields [ty, v, ok].  ok = FALSE stands for undefined       *)
(* behaviour (signed overflow, division by zero, MIN / -1, MIN % -1, shift   *)
(* count negative or >= width of the promoted left operand, left shift of a  *)
(* negative value or one whose result is not representable, negation of      *)
(* MIN).  Two implementation-defined results are fixed as gcc documents      *)
(* them: conversion of an out-of-range value to a signed type is modular,    *)
(* >> of a negative value is arithmetic.  plain char is signed.              *)
(*                                                                           *)
(* The second half is a generator: expression trees are built bottom-up      *)
(* (reverse Polish: push leaf / apply operator to the top of a stack), each  *)
(* stack entry carrying type, value, definedness and its C spelling, so      *)
(* that TLC's breadth-first search enumerates every tree within the bounds   *)
(* of the configuration and -simulate samples larger ones.  A finished tree  *)
(* is emitted with its C text twice: `c' (leaves are constants: the whole    *)
(* tree is an integer constant expression) and `r' (leaves are objects).     *)
EXTENDS Integers, Sequences, FiniteSets, W64, TLC, Json, Emit, IOUtils

CONSTANTS LeafTypes,   \* types of object/constant leaves
          GridSel,     \* "g2" | "g3" | "g5" | "full": boundary grid per type
          UnOps,       \* subset of {"+", "-", "~", "!"}
          CastTypes,   \* target types of casts
          BinOps,      \* binary operator spellings (including "&&", "||", ",")
          UseCond,     \* BOOLEAN: ?:
          LvTypes,     \* types of the lvalue of assignments
          AsgOps,      \* subset of {"=", "+=", "-=", "*=", "/=", "%=", "<<=", ">>=", "&=", "|=", "^="}
          IncOps,      \* subset of {"++p", "p++", "--p", "p--"}
          UseEnum,     \* BOOLEAN: enumeration constants as leaves
          UseLit,      \* BOOLEAN: unsuffixed/suffixed literals whose type follows 6.4.4.1p5
          BfWidths,    \* widths of bit-field leaves and bit-field lvalues ({} = none)
          MaxDepth, MaxLeaves, MaxStack,
          MinParen,    \* BOOLEAN: spell with the fewest parentheses the grammar allows
          TwoPhase,    \* BOOLEAN: choose the kind of step first (balances -simulate)
          Rnd,         \* BOOLEAN: every parameter of a step is one random element (for -simulate) instead of all elements
          PtrLv        \* BOOLEAN: assignments and ++/-- are also made through a pointer to the object (*p op= e)

VARIABLES st, cnt, kind, fin
vars == <<st, cnt, kind, fin>>

Part == IF "PART" \in DOMAIN IOEnv THEN atoi(IOEnv.PART) ELSE 0
NParts == IF "NPARTS" \in DOMAIN IOEnv THEN atoi(IOEnv.NPARTS) ELSE 1

(* ======================================================================= *)
(*                       TYPES (C11 6.2.5, 6.3.1.1)                        *)
(* ======================================================================= *)
Types == {"B", "c", "sc", "uc", "s", "us", "i", "u", "l", "ul", "ll", "ull"}
Rank(t) == CASE t = "B" -> 0 [] t \in {"c", "sc", "uc"} -> 1 [] t \in {"s", "us"} -> 2
             [] t \in {"i", "u"} -> 3 [] t \in {"l", "ul"} -> 4 [] t \in {"ll", "ull"} -> 5
Width(t) == CASE t = "B" -> 1 [] t \in {"c", "sc", "uc"} -> 8 [] t \in {"s", "us"} -> 16
              [] t \in {"i", "u"} -> 32 [] OTHER -> 64                    \* LP64
SizeOf(t) == IF t = "B" THEN 1 ELSE Width(t) \div 8
Signed(t) == t \in {"c", "sc", "s", "i", "l", "ll"}
ToUnsigned(t) == CASE t = "i" -> "u" [] t = "l" -> "ul" [] t = "ll" -> "ull" [] OTHER -> t
CName(t) == CASE t = "B" -> "_Bool" [] t = "c" -> "char" [] t = "sc" -> "signed char" [] t = "uc" -> "unsigned char"
              [] t = "s" -> "short" [] t = "us" -> "unsigned short" [] t = "i" -> "int" [] t = "u" -> "unsigned"
              [] t = "l" -> "long" [] t = "ul" -> "unsigned long" [] t = "ll" -> "long long" [] t = "ull" -> "unsigned long long"

(* 6.3.1.1p2: every type of rank below int fits in int on this target *)
Promote(t) == IF Rank(t) < 3 THEN "i" ELSE t
(* 6.3.1.8 on promoted operands *)
UAC(a, b) ==
  IF a = b THEN a
  ELSE IF Signed(a) = Signed(b) THEN (IF Rank(a) > Rank(b) THEN a ELSE b)
  ELSE LET u == IF Signed(a) THEN b ELSE a
           s == IF Signed(a) THEN a ELSE b
       IN IF Rank(u) >= Rank(s) THEN u
          ELSE IF Width(s) > Width(u) THEN s
          ELSE ToUnsigned(s)
ArithType(ta, tb) == UAC(Promote(ta), Promote(tb))

(* 6.3.1.2, 6.3.1.3: conversion of a canonical 64-bit value to type t *)
Conv(t, w) ==
  CASE t = "B" -> IF w = Zero64 THEN Zero64 ELSE One64
    [] t \in {"c", "sc"} -> Ext8(w) [] t = "uc" -> UExt8(w)
    [] t = "s" -> Ext16(w) [] t = "us" -> UExt16(w)
    [] t = "i" -> Ext32(w) [] t = "u" -> UExt32(w)
    [] OTHER -> w
MaxOf(t) == CASE t = "B" -> One64 [] t \in {"c", "sc"} -> <<127, 0, 0, 0>> [] t = "uc" -> <<255, 0, 0, 0>>
              [] t = "s" -> <<32767, 0, 0, 0>> [] t = "us" -> <<65535, 0, 0, 0>>
              [] t = "i" -> <<65535, 32767, 0, 0>> [] t = "u" -> <<65535, 65535, 0, 0>>
              [] t \in {"l", "ll"} -> MaxS64 [] OTHER -> Ones64
MinOf(t) == IF Signed(t) THEN Not64(MaxOf(t)) ELSE Zero64
Bool64(b) == IF b THEN One64 ELSE Zero64
(* a bit-field of width w (1..32): value kept as the promoted type sees it *)
ConvBf(sg, w, v) == LET x == Shl64(v, 64 - w) IN IF sg THEN AShr64(x, 64 - w) ELSE LShr64(x, 64 - w)
BfPromoted(sg, w) == IF ~sg /\ w = 32 THEN "u" ELSE "i"

(* ======================================================================= *)
(*                      OPERATOR SEMANTICS (C11 6.5)                       *)
(* ======================================================================= *)
Res(t, v, ok) == [ty |-> t, v |-> v, ok |-> ok]

(* + - * in type t on operands already converted to t *)
AddLike(op, t, a, b) ==
  LET r == CASE op = "+" -> Add64(a, b) [] op = "-" -> Sub64(a, b) [] op = "*" -> Mul64(a, b)
      ovf == IF ~Signed(t) THEN FALSE
             ELSE IF Width(t) = 32 THEN Ext32(r) # r     \* 32-bit operands: the 64-bit result is exact
             ELSE CASE op = "+" -> AddSOvf(a, b) [] op = "-" -> SubSOvf(a, b) [] op = "*" -> SMulOvf(a, b)
  IN Res(t, Conv(t, r), ~ovf)
DivLike(op, t, a, b) ==
  IF b = Zero64 THEN Res(t, Zero64, FALSE)
  ELSE IF Signed(t) THEN
         IF a = MinOf(t) /\ b = Ones64 THEN Res(t, Zero64, FALSE)         \* 6.5.5p6
         ELSE Res(t, IF op = "/" THEN SDiv64(a, b) ELSE SRem64(a, b), TRUE)
       ELSE Res(t, IF op = "/" THEN UDiv64(a, b) ELSE URem64(a, b), TRUE)
BitLike(op, t, a, b) ==
  Res(t, Conv(t, CASE op = "&" -> And64(a, b) [] op = "|" -> Or64(a, b) [] op = "^" -> Xor64(a, b)), TRUE)
CmpLike(op, t, a, b) ==
  LET lt(x, y) == IF Signed(t) THEN SLt64(x, y) ELSE ULt64(x, y)
  IN Res("i", Bool64(CASE op = "<" -> lt(a, b) [] op = ">" -> lt(b, a) [] op = "<=" -> ~lt(b, a) [] op = ">=" -> ~lt(a, b)
                       [] op = "==" -> a = b [] op = "!=" -> a # b), TRUE)
(* 6.5.7: each operand promoted separately, result has the promoted left type *)
ShiftSem(op, tl, a, tr, b) ==
  LET w == Width(tl)
      cntok == ~(Signed(tr) /\ IsNeg64(b)) /\ b[2] = 0 /\ b[3] = 0 /\ b[4] = 0 /\ b[1] < w
      n == b[1]
  IN IF ~cntok THEN Res(tl, Zero64, FALSE)
     ELSE IF op = ">>" THEN Res(tl, IF Signed(tl) THEN AShr64(a, n) ELSE LShr64(a, n), TRUE)
     ELSE IF ~Signed(tl) THEN Res(tl, Conv(tl, Shl64(a, n)), TRUE)
     ELSE IF IsNeg64(a) THEN Res(tl, Zero64, FALSE)
     ELSE LET r == Shl64(a, n) IN Res(tl, r, LShr64(r, n) = a /\ ~IsNeg64(r) /\ Conv(tl, r) = r)

ArithOps == {"+", "-", "*"}
DivOps == {"/", "%"}
BitOps == {"&", "|", "^"}
CmpOps == {"<", "<=", ">", ">=", "==", "!="}
ShiftOps == {"<<", ">>"}
StrictBin == ArithOps \cup DivOps \cup BitOps \cup CmpOps \cup ShiftOps    \* both operands evaluated, no sequence point

(* binary operator on two evaluated operands given as (type, canonical value) *)
SemBin(op, ta, va, tb, vb) ==
  IF op \in ShiftOps THEN ShiftSem(op, Promote(ta), Conv(Promote(ta), va), Promote(tb), Conv(Promote(tb), vb))
  ELSE LET t == ArithType(ta, tb)
           a == Conv(t, va)
           b == Conv(t, vb)
       IN CASE op \in ArithOps -> AddLike(op, t, a, b)
            [] op \in DivOps -> DivLike(op, t, a, b)
            [] op \in BitOps -> BitLike(op, t, a, b)
            [] op \in CmpOps -> CmpLike(op, t, a, b)
SemUn(op, ta, va) ==
  LET t == Promote(ta)
      a == Conv(t, va)
  IN CASE op = "+" -> Res(t, a, TRUE)
       [] op = "-" -> Res(t, Conv(t, Neg64(a)), ~(Signed(t) /\ a = MinOf(t)))
       [] op = "~" -> Res(t, Conv(t, Not64(a)), TRUE)
       [] op = "!" -> Res("i", Bool64(a = Zero64), TRUE)
SemCast(t, va) == Res(t, Conv(t, va), TRUE)
(* E1 op= E2 (6.5.16.2): E1 = (T1)((E1) op (E2)); the value is that of E1 after the assignment *)
AsgRhs(op, tl, v0, tb, vb) ==      \* the value that is converted to the type of the left operand
  IF op = "=" THEN Res(tb, vb, TRUE) ELSE SemBin(SubSeq(op, 1, Len(op) - 1), tl, v0, tb, vb)
SemAsg(op, tl, v0, tb, vb) == LET r == AsgRhs(op, tl, v0, tb, vb) IN Res(tl, Conv(tl, r.v), r.ok)

(* 6.4.4.1p5: type of an integer constant; value given as an unsigned 64-bit word *)
FitsU(t, w) == CASE t = "i" -> w[3] = 0 /\ w[4] = 0 /\ w[2] < 32768 [] t = "u" -> w[3] = 0 /\ w[4] = 0
                 [] t \in {"l", "ll"} -> w[4] < 32768 [] OTHER -> TRUE
LitCands(hex, suf) ==
  CASE suf = "" -> IF hex THEN <<"i", "u", "l", "ul", "ll", "ull">> ELSE <<"i", "l", "ll">>
    [] suf = "U" -> <<"u", "ul", "ull">>
    [] suf = "L" -> IF hex THEN <<"l", "ul", "ll", "ull">> ELSE <<"l", "ll">>
    [] suf = "UL" -> <<"ul", "ull">>
    [] suf = "LL" -> IF hex THEN <<"ll", "ull">> ELSE <<"ll">>
    [] suf = "ULL" -> <<"ull">>
RECURSIVE FirstFit(_, _, _)
FirstFit(cands, i, w) == IF i > Len(cands) THEN "none" ELSE IF FitsU(cands[i], w) THEN cands[i] ELSE FirstFit(cands, i + 1, w)
LitType(hex, suf, w) == FirstFit(LitCands(hex, suf), 1, w)

(* ======================================================================= *)
(*                               SPELLING                                  *)
(* ======================================================================= *)
HexDig == <<"0", "1", "2", "3", "4", "5", "6", "7", "8", "9", "a", "b", "c", "d", "e", "f">>
Hex16(n) == HexDig[(n \div 4096) + 1] \o HexDig[((n \div 256) % 16) + 1] \o HexDig[((n \div 16) % 16) + 1] \o HexDig[(n % 16) + 1]
Hex64(w) == Hex16(w[4]) \o Hex16(w[3]) \o Hex16(w[2]) \o Hex16(w[1])
Hex32(w) == Hex16(w[2]) \o Hex16(w[1])
Suffix(t) == CASE t = "u" -> "U" [] t = "l" -> "L" [] t = "ul" -> "UL" [] t = "ll" -> "LL" [] t = "ull" -> "ULL" [] OTHER -> ""
(* a constant of exactly type t (rank >= int) and canonical value w, without relying on any conversion *)
BaseLit(t, w) ==
  LET h(x) == IF Width(t) = 32 THEN Hex32(x) ELSE Hex64(x)
  IN IF Signed(t) /\ IsNeg64(w) THEN "(-0x" \o h(Not64(w)) \o Suffix(t) \o " - 1)" ELSE "0x" \o h(w) \o Suffix(t)
LitOf(t, w) == IF Rank(t) >= 3 THEN BaseLit(t, w) ELSE "((" \o CName(t) \o ")" \o BaseLit("i", w) \o ")"

(* precedence of the root of a spelling: 1 comma, 2 assignment, 3 ?:, 4 ||, 5 &&, 6 |, 7 ^, 8 &, 9 equality,   *)
(* 10 relational, 11 shift, 12 additive, 13 multiplicative, 14 unary/cast, 15 postfix, 16 primary               *)
PrecBin(op) == CASE op = "," -> 1 [] op = "||" -> 4 [] op = "&&" -> 5 [] op = "|" -> 6 [] op = "^" -> 7 [] op = "&" -> 8
                 [] op \in {"==", "!="} -> 9 [] op \in {"<", "<=", ">", ">="} -> 10 [] op \in ShiftOps -> 11
                 [] op \in {"+", "-"} -> 12 [] op \in {"*", "/", "%"} -> 13
Tx(x, m) == IF m = "c" THEN x.c ELSE x.r
Wr(x, m, need) == IF x.p < (IF MinParen THEN need ELSE 16) THEN "(" \o Tx(x, m) \o ")" ELSE Tx(x, m)

(* ======================================================================= *)
(*                            BOUNDARY GRID                                *)
(* ======================================================================= *)
P5 == <<21845, 21845, 21845, 21845>>
PA == <<43690, 43690, 43690, 43690>>
GridOf(t) ==
  IF t = "B" THEN {Zero64, One64}
  ELSE LET mx == MaxOf(t)  mn == MinOf(t)
           g2 == {One64, IF Signed(t) THEN mn ELSE mx}
           g3 == g2 \cup {IF Signed(t) THEN mx ELSE Conv(t, PA)}
           g5 == g3 \cup {Zero64, Conv(t, Ones64), FromNat(Width(Promote(t)) - 1)}
           full == g5 \cup {FromNat(2), Sub64(mx, One64), Add64(mn, One64), Conv(t, P5), Conv(t, PA),
                            Conv(t, FromNat(Width(Promote(t)))), Conv(t, FromNat(7)), Conv(t, FromNat(8)), Conv(t, FromNat(15)),
                            Conv(t, FromNat(16)), Conv(t, FromNat(33)), Conv(t, FromNat(63)), Conv(t, FromNat(64)),
                            Conv(t, <<0, 32768, 0, 0>>), Conv(t, <<65535, 32767, 0, 0>>), Conv(t, <<0, 0, 1, 0>>),
                            Conv(t, <<32768, 0, 0, 0>>), Conv(t, <<128, 0, 0, 0>>), Conv(t, <<255, 0, 0, 0>>), Conv(t, <<65535, 0, 0, 0>>)}
       IN CASE GridSel = "g2" -> g2 [] GridSel = "g3" -> g3 [] GridSel = "g5" -> g5 [] OTHER -> full
EnumSet == {<<"E_0", Zero64>>, <<"E_1", One64>>, <<"E_M1", Ones64>>, <<"E_MAX", MaxOf("i")>>, <<"E_MIN", MinOf("i")>>, <<"E_31", FromNat(31)>>}
(* literals around the type boundaries of 6.4.4.1p5: <<decimal spelling, hex spelling, value>> *)
LitVals == {<<"1", "0x1", One64>>, <<"2147483647", "0x7fffffff", MaxOf("i")>>, <<"2147483648", "0x80000000", <<0, 32768, 0, 0>>>>,
            <<"4294967295", "0xffffffff", MaxOf("u")>>, <<"4294967296", "0x100000000", <<0, 0, 1, 0>>>>,
            <<"9223372036854775807", "0x7fffffffffffffff", MaxS64>>, <<"9223372036854775808", "0x8000000000000000", MinS64>>,
            <<"18446744073709551615", "0xffffffffffffffff", Ones64>>}
LitSufs == {"", "U", "L", "UL", "LL", "ULL"}
(* kinds of bit-field: <<"s" | "u" | "B", width>>  (signed int f:w, unsigned f:w, _Bool f:1) *)
BfKinds == {<<sg, w>> : sg \in {"s", "u"}, w \in BfWidths} \cup (IF BfWidths = {} THEN {} ELSE {<<"B", 1>>})
BfConv(k, v) == IF k[1] = "B" THEN Conv("B", v) ELSE ConvBf(k[1] = "s", k[2], v)
(* only values the member can hold: an out-of-range initialiser of a signed member would be implementation-defined *)
BfGrid(k) == {BfConv(k, x) : x \in {Zero64, One64, Ones64, P5, Shl64(One64, k[2] - 1)}}
BfProm(k) == IF k[1] = "B" THEN "i" ELSE BfPromoted(k[1] = "s", k[2])
BfDeclT(k) == IF k[1] = "B" THEN "B" ELSE IF k[1] = "s" THEN "i" ELSE "u"

(* ======================================================================= *)
(*                     GENERATOR: STACK OF SUBTREES                        *)
(* ======================================================================= *)
(* entry: ty, v, ok  semantics; c, r spellings; p precedence of the root; d depth; nl leaves;                     *)
(*        ice  usable where C requires an integer constant expression (no object, assignment, comma);             *)
(*        bf   is a bare bit-field designator or assignment to one (must be promoted by its parent);              *)
(*        uu   contains an unevaluated operand whose evaluation would be undefined;                               *)
(*        sg   signatures "<operator>:<operand types>" of every node, root last (attribution of a mismatch);     *)
(*        lv   declarations: [k, n, t, w, i, f0, f] (k: "v" object, "bf" bit-field object, "lv"/"lvbf" assigned   *)
(*             object, "lvp" object assigned through a pointer; t type; w bit-field width; i initialiser; f0/f canonical value before/after evaluation)    *)
Decl(k, n, t, w, i, f0, f) == [k |-> k, n |-> n, t |-> t, w |-> w, i |-> i, f0 |-> f0, f |-> f]
Ent(s, c, r, p, d, nl, ice, bf, uu, lv, sg) ==
  [ty |-> s.ty, v |-> s.v, ok |-> s.ok, c |-> IF ice THEN c ELSE "", r |-> r, p |-> p, d |-> d, nl |-> nl,
   ice |-> ice, bf |-> bf, uu |-> uu, lv |-> lv, sg |-> sg, bn |-> FALSE]
(* bn: some evaluated conversion to _Bool had an operand other than 0 and 1 (6.3.1.2 decides the result) *)
Bn(e, b) == [e EXCEPT !.bn = b]
NotBool(v) == v # Zero64 /\ v # One64
Unev(lv) == [i \in 1..Len(lv) |-> [lv[i] EXCEPT !.f = lv[i].f0]]
Max2(a, b) == IF a > b THEN a ELSE b

NS(n) == ToString(n)
BfName(k) == k[1] \o NS(k[2])
TyS(x) == IF x.bf THEN "bf" ELSE x.ty          \* operand type as the parent sees it (a bare bit-field is not yet promoted)
Sig2(op, x, y) == Append(x.sg \o y.sg, op \o ":" \o TyS(x) \o "," \o TyS(y))
LeafEnt(t, w, n) ==
  Ent(Res(t, w, TRUE), LitOf(t, w), "v" \o NS(n), 16, 0, 1, TRUE, FALSE, FALSE,
      <<Decl("v", "v" \o NS(n), t, 0, LitOf(t, w), Hex64(w), Hex64(w))>>, <<"leaf:" \o t>>)
EnumEnt(e) == Ent(Res("i", e[2], TRUE), e[1], e[1], 16, 0, 1, TRUE, FALSE, FALSE, <<>>, <<"enum">>)
LitEnt(l, hex, suf) ==
  LET sp == (IF hex THEN l[2] ELSE l[1]) \o suf IN
  Ent(Res(LitType(hex, suf, l[3]), l[3], TRUE), sp, sp, 16, 0, 1, TRUE, FALSE, FALSE, <<>>,
      <<"lit:" \o (IF hex THEN "hex" ELSE "dec") \o suf \o ":" \o LitType(hex, suf, l[3])>>)
BfEnt(k, w, n) ==
  Ent(Res(BfProm(k), w, TRUE), "", "b" \o NS(n) \o ".f", 15, 0, 1, FALSE, TRUE, FALSE,
      <<Decl("bf", "b" \o NS(n), BfDeclT(k), k[2], BaseLit(BfProm(k), w), Hex64(w), Hex64(w))>>, <<"bf:" \o BfName(k)>>)

UnEnt(op, x) ==
  LET sp(m) == op \o (IF op \in {"+", "-"} THEN " " ELSE "") \o Wr(x, m, 14)
  IN Bn(Ent(SemUn(op, x.ty, x.v), sp("c"), sp("r"), 14, x.d + 1, x.nl, x.ice, FALSE, x.uu, x.lv, Append(x.sg, op \o ":" \o TyS(x))), x.bn)
CastEnt(t, x) ==
  LET sp(m) == "(" \o CName(t) \o ")" \o Wr(x, m, 14)
  IN Bn(Ent(SemCast(t, x.v), sp("c"), sp("r"), 14, x.d + 1, x.nl, x.ice, FALSE, x.uu, x.lv, Append(x.sg, "(" \o t \o "):" \o TyS(x))),
        x.bn \/ (t = "B" /\ NotBool(x.v)))
BinText(op, x, y, m) == LET p == PrecBin(op) IN Wr(x, m, p) \o (IF op = "," THEN ", " ELSE " " \o op \o " ") \o Wr(y, m, p + 1)
(* evaluated-operand binary operators *)
BinEnt(op, x, y) ==
  Bn(Ent(SemBin(op, x.ty, x.v, y.ty, y.v), BinText(op, x, y, "c"), BinText(op, x, y, "r"), PrecBin(op),
         Max2(x.d, y.d) + 1, x.nl + y.nl, x.ice /\ y.ice, FALSE, x.uu \/ y.uu, x.lv \o y.lv, Sig2(op, x, y)), x.bn \/ y.bn)
(* && || (6.5.13, 6.5.14): the right operand is evaluated only if the left does not decide *)
LogRightEvaluated(op, x) == IF op = "&&" THEN x.v # Zero64 ELSE x.v = Zero64
LogEnt(op, x, y) ==
  LET ev == LogRightEvaluated(op, x)
      val == IF ev THEN Bool64(y.v # Zero64) ELSE Bool64(op = "||")
  IN Bn(Ent(Res("i", val, IF ev THEN y.ok ELSE TRUE), BinText(op, x, y, "c"), BinText(op, x, y, "r"), PrecBin(op),
         Max2(x.d, y.d) + 1, x.nl + y.nl, x.ice /\ y.ice, FALSE, x.uu \/ (IF ev THEN y.uu ELSE (y.uu \/ ~y.ok)),
         x.lv \o (IF ev THEN y.lv ELSE Unev(y.lv)), Sig2(op, x, y)), x.bn \/ (ev /\ y.bn))
CommaEnt(x, y) ==
  Bn(Ent(Res(y.ty, y.v, TRUE), "", BinText(",", x, y, "r"), 1, Max2(x.d, y.d) + 1, x.nl + y.nl, FALSE, FALSE, x.uu \/ y.uu, x.lv \o y.lv,
         Sig2(",", x, y)), x.bn \/ y.bn)
(* ?: (6.5.15): arithmetic operands, result converted to the usual-arithmetic-conversion type of both arms *)
CondEnt(x, y, z) ==
  LET t == ArithType(y.ty, z.ty)
      first == x.v # Zero64
      ch == IF first THEN y ELSE z
      ot == IF first THEN z ELSE y
      sp(m) == Wr(x, m, 4) \o " ? " \o Wr(y, m, 1) \o " : " \o Wr(z, m, 3)
  IN Bn(Ent(Res(t, Conv(t, ch.v), ch.ok), sp("c"), sp("r"), 3, Max2(x.d, Max2(y.d, z.d)) + 1, x.nl + y.nl + z.nl,
         x.ice /\ y.ice /\ z.ice, FALSE, x.uu \/ ch.uu \/ ot.uu \/ ~ot.ok,
         x.lv \o (IF first THEN y.lv \o Unev(z.lv) ELSE Unev(y.lv) \o z.lv),
         Append(x.sg \o y.sg \o z.sg, "?::" \o TyS(x) \o "," \o TyS(y) \o "," \o TyS(z))), x.bn \/ ch.bn)
(* assignment to a fresh object a<n> of type tl holding v0 *)
(* ptr: the object is designated as *p<n>, p<n> pointing to a<n> (6.5.3.2); afterwards a<n> itself is read *)
AsgEnt(op, tl, v0, y, n, ptr) ==
  LET s == SemAsg(op, tl, v0, y.ty, y.v)
      nm == "a" \o NS(n)
      lv == IF ptr THEN "*p" \o NS(n) ELSE nm
  IN Bn(Ent(s, "", lv \o " " \o op \o " " \o Wr(y, "r", 2), 2, y.d + 1, y.nl + 1, FALSE, FALSE, y.uu,
         <<Decl(IF ptr THEN "lvp" ELSE "lv", nm, tl, 0, LitOf(tl, v0), Hex64(v0), Hex64(s.v))>> \o y.lv,
         Append(y.sg, op \o (IF ptr THEN ":*" ELSE ":") \o tl \o "," \o TyS(y))),
        y.bn \/ (tl = "B" /\ NotBool(AsgRhs(op, tl, v0, y.ty, y.v).v)))
AsgBfEnt(op, k, v0, y, n) ==
  LET tp == BfProm(k)
      r == IF op = "=" THEN Res(tp, y.v, TRUE) ELSE SemBin(SubSeq(op, 1, Len(op) - 1), tp, v0, y.ty, y.v)
      nv == BfConv(k, r.v)
      nm == "a" \o NS(n)
  IN Bn(Ent(Res(tp, nv, r.ok), "", nm \o ".f " \o op \o " " \o Wr(y, "r", 2), 2, y.d + 1, y.nl + 1, FALSE, TRUE, y.uu,
         <<Decl("lvbf", nm, BfDeclT(k), k[2], BaseLit(tp, v0), Hex64(v0), Hex64(nv))>> \o y.lv,
         Append(y.sg, op \o ":bf" \o BfName(k) \o "," \o TyS(y))), y.bn \/ (k[1] = "B" /\ NotBool(r.v)))
(* ++ -- (6.5.2.4, 6.5.3.1): E += 1 / E -= 1; the postfix forms yield the old value *)
IncEnt(op, tl, v0, n, ptr) ==
  LET s == SemAsg(IF op \in {"++p", "p++"} THEN "+=" ELSE "-=", tl, v0, "i", One64)
      nm == "a" \o NS(n)
      pre == IF ptr THEN "*p" \o NS(n) ELSE nm             \* operand of a prefix operator (a unary-expression)
      pst == IF ptr THEN "(*p" \o NS(n) \o ")" ELSE nm      \* operand of a postfix operator (a postfix-expression)
      post == op \in {"p++", "p--"}
      sp == CASE op = "++p" -> "++" \o pre [] op = "--p" -> "--" \o pre [] op = "p++" -> pst \o "++" [] op = "p--" -> pst \o "--"
  IN Bn(Ent(Res(tl, IF post THEN v0 ELSE s.v, s.ok), "", sp, IF post THEN 15 ELSE 14, 1, 1, FALSE, FALSE, FALSE,
         <<Decl(IF ptr THEN "lvp" ELSE "lv", nm, tl, 0, LitOf(tl, v0), Hex64(v0), Hex64(s.v))>>, <<op \o (IF ptr THEN ":*" ELSE ":") \o tl>>),
        tl = "B" /\ NotBool(AsgRhs(IF op \in {"++p", "p++"} THEN "+=" ELSE "-=", tl, v0, "i", One64).v))

(* ---------------------------------------------------------------- steps *)
Top(k) == st[Len(st) - k]                      \* k = 0: top
Pop(k) == SubSeq(st, 1, Len(st) - k)
RECURSIVE SumNl(_, _)
SumNl(s, i) == IF i = 0 THEN 0 ELSE s[i].nl + SumNl(s, i - 1)
Leaves == SumNl(st, Len(st))
CanPush == Len(st) < MaxStack /\ Leaves < MaxLeaves /\ \A i \in 1..Len(st) : st[i].d < MaxDepth
(* the result of an application that is not the bottom entry must still be combinable *)
DepthOK(d, consumed) == d <= MaxDepth /\ (Len(st) - consumed > 0 => d < MaxDepth)
Mine(t, w) == st # <<>> \/ ((Rank(t) + w[1] + w[2] + w[3] + w[4]) % NParts) = Part
Push(e) == st' = Append(st, e) /\ cnt' = cnt + 1
Repl(k, e) == st' = Append(Pop(k), e) /\ cnt' = cnt

Pick(S) == IF Rnd /\ S # {} THEN {RandomElement(S)} ELSE S
Kinds == {"leaf", "enum", "lit", "bf", "un", "cast", "bin", "cond", "asg", "asgbf", "inc", "fin"}
DoLeaf == CanPush /\ \E t \in Pick(LeafTypes) : \E w \in Pick(GridOf(t)) : Mine(t, w) /\ Push(LeafEnt(t, w, cnt))
DoEnum == UseEnum /\ CanPush /\ \E e \in Pick(EnumSet) : Mine("i", e[2]) /\ Push(EnumEnt(e))
DoLit == UseLit /\ CanPush /\ \E l \in Pick(LitVals) : \E hex \in Pick(BOOLEAN) : \E suf \in Pick(LitSufs) :
           LitType(hex, suf, l[3]) # "none" /\ Mine("i", l[3]) /\ Push(LitEnt(l, hex, suf))
DoBf == CanPush /\ \E k \in Pick(BfKinds) : \E w \in Pick(BfGrid(k)) : Mine("i", w) /\ Push(BfEnt(k, w, cnt))
DoUn == Len(st) >= 1 /\ Top(0).ok /\ DepthOK(Top(0).d + 1, 1) /\ \E op \in Pick(UnOps) : Repl(1, UnEnt(op, Top(0)))
DoCast == Len(st) >= 1 /\ Top(0).ok /\ DepthOK(Top(0).d + 1, 1) /\ \E t \in Pick(CastTypes) : Repl(1, CastEnt(t, Top(0)))
DoBin1(op, x, y) ==
  CASE op \in StrictBin -> y.ok /\ Repl(2, BinEnt(op, x, y))
    [] op \in {"&&", "||"} -> (y.ok \/ ~LogRightEvaluated(op, x)) /\ Repl(2, LogEnt(op, x, y))
    [] op = "," -> y.ok /\ ~y.bf /\ Repl(2, CommaEnt(x, y))
DoBin == Len(st) >= 2 /\ Top(1).ok /\ DepthOK(Max2(Top(0).d, Top(1).d) + 1, 2) /\ \E op \in Pick(BinOps) : DoBin1(op, Top(1), Top(0))
DoCond == UseCond /\ Len(st) >= 3 /\ Top(2).ok /\ DepthOK(Max2(Top(0).d, Max2(Top(1).d, Top(2).d)) + 1, 3)
            /\ (IF Top(2).v # Zero64 THEN Top(1).ok ELSE Top(0).ok) /\ Repl(3, CondEnt(Top(2), Top(1), Top(0)))
DoAsg == Len(st) >= 1 /\ Top(0).ok /\ DepthOK(Top(0).d + 1, 1) /\ Leaves < MaxLeaves /\ \E op \in Pick(AsgOps) : \E t \in Pick(LvTypes) :
           \E v0 \in Pick(GridOf(t)) : \E ptr \in Pick(IF PtrLv THEN BOOLEAN ELSE {FALSE}) :
             st' = Append(Pop(1), AsgEnt(op, t, v0, Top(0), cnt, ptr)) /\ cnt' = cnt + 1
DoAsgBf == Len(st) >= 1 /\ Top(0).ok /\ DepthOK(Top(0).d + 1, 1) /\ Leaves < MaxLeaves /\ \E op \in Pick(AsgOps) : \E k \in Pick(BfKinds) :
           \E v0 \in Pick(BfGrid(k)) : st' = Append(Pop(1), AsgBfEnt(op, k, v0, Top(0), cnt)) /\ cnt' = cnt + 1
DoInc == CanPush /\ 1 <= MaxDepth /\ \E op \in Pick(IncOps) : \E t \in Pick(LvTypes) : \E v0 \in Pick(GridOf(t)) :
           \E ptr \in Pick(IF PtrLv THEN BOOLEAN ELSE {FALSE}) : Mine(t, v0) /\ Push(IncEnt(op, t, v0, cnt, ptr))
DoFin == Len(st) = 1 /\ fin' = TRUE /\ UNCHANGED <<st, cnt>>
Do(kd) ==
  CASE kd = "leaf" -> DoLeaf [] kd = "enum" -> DoEnum [] kd = "lit" -> DoLit [] kd = "bf" -> DoBf [] kd = "un" -> DoUn
    [] kd = "cast" -> DoCast [] kd = "bin" -> DoBin [] kd = "cond" -> DoCond [] kd = "asg" -> DoAsg [] kd = "asgbf" -> DoAsgBf
    [] kd = "inc" -> DoInc [] kd = "fin" -> DoFin

Init == st = <<>> /\ cnt = 0 /\ kind = "" /\ fin = FALSE
Next ==
  /\ ~fin
  /\ IF TwoPhase
     THEN \/ kind = "" /\ kind' \in {k \in Kinds : ENABLED Do(k)} /\ UNCHANGED <<st, cnt, fin>>
          \/ kind # "" /\ Do(kind) /\ kind' = "" /\ (kind # "fin" => fin' = fin)
     ELSE \E k \in Kinds : Do(k) /\ kind' = kind /\ (k # "fin" => fin' = fin)

(* a bare bit-field root is promoted explicitly by unary plus, so that its type is decided by 6.3.1.1 alone *)
Root == IF st[1].bf THEN [UnEnt("+", st[1]) EXCEPT !.ok = st[1].ok] ELSE st[1]
Case == LET e == Root IN
  IF e.ok THEN [c |-> e.c, r |-> e.r, ty |-> e.ty, v |-> Hex64(e.v), ice |-> e.ice, uu |-> e.uu, d |-> e.d, nl |-> e.nl, lv |-> e.lv, sg |-> e.sg, bn |-> e.bn]
  ELSE [u |-> 1, d |-> e.d]
EmitInv == fin => EmitJ(Case)
=============================================================================
