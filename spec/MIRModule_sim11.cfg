CONSTANTS
  MaxMods = 2
  MaxItems = 6
  MaxInsns = 6
  MinItems = 3
  MinInsns = 3
  Grid = "full"
  Preamble = FALSE
  Header = "free"
  OneFree = FALSE
  NonFinite = TRUE
INIT Init
NEXT Next
ACTION_CONSTRAINT EmitModule
INVARIANTS WellFormed NFIdempotent
