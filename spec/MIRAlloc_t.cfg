CONSTANTS
  PageSize = 2
  TrackFreed = TRUE
  MaxId = 4
  Sizes = {0, 1, 3}
  MaxRegion = 2
  Lens = {2, 4, 6}
INIT Init
NEXT Next
INVARIANTS TypeOK LedgerInv
PROPERTIES NoDoubleFree WriteNeedsWindow
