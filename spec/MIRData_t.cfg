CONSTANTS
  Plan <- PlanWide3
INIT Init
NEXT Next
ACTION_CONSTRAINT Emit
INVARIANTS LayoutSane
