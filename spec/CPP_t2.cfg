CONSTANTS
  Fam = "mac"
  NM = 2
  KindSet = {"obj", "f0", "f1"}
  MaxBody = 2
  MaxInv = 3
  BodyAlpha = {"x", "f", "g", "a", "(", ")"}
  InvAlpha = {"f", "g", "a", "(", ")"}
  VarWs = FALSE
  InvHead = TRUE
  InvBal = FALSE
  NameScheme = 1
  MaxLines = 1
  MaxNest = 1
  CondSet = {"0"}
  LineSet = {"endif"}
  MaxD = 0
  AtomSet = {"0"}
  GapSet = {"sp"}
  OpSet = {"+"}
INIT Init
NEXT Next
INVARIANT EmitInv
