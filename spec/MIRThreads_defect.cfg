CONSTANTS
  N = 2
  SrcVecs <- SrcMirOrAllC
  Globals <- DefectGlobals
  Depth = 18
INIT Init
NEXT Next
VIEW View
CONSTRAINT Bound
ACTION_CONSTRAINT EmitStep
INVARIANTS TypeOK Isolation NoSharedWrite
