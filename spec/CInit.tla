------------------------------- MODULE CInit -------------------------------
(* Initialisation of an aggregate by a brace-enclosed list (C11 6.7.9):     *)
(* positional and designated initialisers (.member, [index], .member.sub,   *)
(* .member[index]), nested lists, string literals for character arrays,     *)
(* bit-field members, partial lists (the rest is zero, 6.7.9p21) and a      *)
(* later initialiser overriding an earlier one for the same scalar          *)
(* (6.7.9p19).  The object is                                                *)
(*   struct In { signed char c; long d; };                                   *)
(*   struct S  { int a; short b[3]; struct In in; unsigned e : 5;            *)
(*               signed int g : 3; char s[4]; int f; };                      *)
(* and its value is the sequence of its 13 scalars                           *)
(*   a b[0] b[1] b[2] in.c in.d e g s[0] s[1] s[2] s[3] f                    *)
(* (member VALUES, not bytes: layout is another property).                   *)
(* Kept out on purpose (left to the two compilers' discretion or murky in    *)
(* the standard): brace elision, a positional initialiser right after a      *)
(* nested designator, initialising the same aggregate member twice (DR 413). *)
EXTENDS Integers, Sequences, FiniteSets, TLC, Json, Emit, IOUtils

CONSTANTS MaxItems      \* initialisers in the outer list
VARIABLES obj, txt, cur, used, n, fin, lastm, laststr, flags
vars == <<obj, txt, cur, used, n, fin, lastm, laststr, flags>>

Part == IF "PART" \in DOMAIN IOEnv THEN atoi(IOEnv.PART) ELSE 0
NParts == IF "NPARTS" \in DOMAIN IOEnv THEN atoi(IOEnv.NPARTS) ELSE 1

NS(i) == ToString(i)
(* members of struct S: name, kind (sc scalar, arr array of short, st struct In, chr array of char), first scalar, length *)
Mem == << [nm |-> "a", k |-> "sc", off |-> 1, len |-> 1], [nm |-> "b", k |-> "arr", off |-> 2, len |-> 3],
          [nm |-> "in", k |-> "st", off |-> 5, len |-> 2], [nm |-> "e", k |-> "sc", off |-> 7, len |-> 1],
          [nm |-> "g", k |-> "sc", off |-> 8, len |-> 1], [nm |-> "s", k |-> "chr", off |-> 9, len |-> 4],
          [nm |-> "f", k |-> "sc", off |-> 13, len |-> 1] >>
InNames == <<"c", "d">>
Zero13 == [i \in 1..13 |-> 0]
(* conversion on storing into scalar number i (6.3.1.3; only e can receive an out-of-range value: unsigned, modular) *)
Store(i, v) == IF i = 7 THEN v % 32 ELSE v
ScalarVals(m) == CASE m = 1 -> {1, -2} [] m = 4 -> {1, 37} [] m = 5 -> {-2, 3} [] m = 7 -> {7}

(* ---- a list of scalar initialisers for an array / struct In of length len: items <<des, v>>, des = 0 positional *)
RECURSIVE ListSem(_, _, _, _), ListFitsR(_, _, _, _), ListText(_, _, _)
ListSem(items, i, c, acc) ==                 \* acc: values (length len); c: index the next positional item goes to
  IF i > Len(items) THEN acc
  ELSE LET t == IF items[i][1] = 0 THEN c ELSE items[i][1] IN ListSem(items, i + 1, t + 1, [acc EXCEPT ![t] = items[i][2]])
ListFitsR(items, i, c, len) ==
  i > Len(items) \/ (LET t == IF items[i][1] = 0 THEN c ELSE items[i][1] IN t <= len /\ ListFitsR(items, i + 1, t + 1, len))
ListFits(items, len) == ListFitsR(items, 1, 1, len)
ListText(items, i, kind) ==
  IF i > Len(items) THEN ""
  ELSE (IF i > 1 THEN ", " ELSE "")
       \o (IF items[i][1] = 0 THEN "" ELSE IF kind = "st" THEN "." \o InNames[items[i][1]] \o " = " ELSE "[" \o NS(items[i][1] - 1) \o "] = ")
       \o NS(items[i][2]) \o ListText(items, i + 1, kind)
RECURSIVE Targets(_, _, _)
Targets(items, i, c) == IF i > Len(items) THEN <<>> ELSE LET t == IF items[i][1] = 0 THEN c ELSE items[i][1] IN <<t>> \o Targets(items, i + 1, t + 1)
Dup(items) == LET ts == Targets(items, 1, 1) IN Cardinality({ts[i] : i \in 1..Len(ts)}) < Len(ts)      \* some element is given twice
ArrLists == {<< <<0, 3>> >>, << <<0, 3>>, <<0, -4>> >>, << <<0, 3>>, <<0, -4>>, <<0, 5>> >>, << <<3, 3>> >>, << <<2, -4>>, <<0, 3>> >>,
             << <<0, 3>>, <<3, 5>> >>, << <<2, 3>>, <<1, -4>> >>, << <<0, 3>>, <<1, 6>> >>}
InLists == {<< <<0, -5>> >>, << <<0, -5>>, <<0, 6>> >>, << <<2, 6>> >>, << <<2, 6>>, <<1, -5>> >>, << <<1, -5>>, <<0, 6>> >>}
ChrLists == {<< <<0, 65>> >>, << <<0, 65>>, <<4, 66>> >>, << <<2, 67>>, <<0, 68>> >>}
Strings == {<<"ab", <<97, 98, 0, 0>>>>, <<"xyz", <<120, 121, 122, 0>>>>, <<"wxyz", <<119, 120, 121, 122>>>>, <<"", <<0, 0, 0, 0>>>>}

(* forms of one outer initialiser for member m: <<C text of the initialiser, values of the member's scalars>> *)
Forms(m) ==        \* <<text, values, some scalar given twice, is a string literal>>
  LET M == Mem[m] IN
  CASE M.k = "sc" -> {<<NS(v), <<Store(M.off, v)>>, FALSE, FALSE>> : v \in ScalarVals(m)}
    [] M.k = "arr" -> {<<"{" \o ListText(l, 1, "arr") \o "}", ListSem(l, 1, 1, <<0, 0, 0>>), Dup(l), FALSE>> : l \in {x \in ArrLists : ListFits(x, 3)}}
    [] M.k = "st" -> {<<"{" \o ListText(l, 1, "st") \o "}", ListSem(l, 1, 1, <<0, 0>>), Dup(l), FALSE>> : l \in InLists}
    [] M.k = "chr" -> {<<"{" \o ListText(l, 1, "arr") \o "}", ListSem(l, 1, 1, <<0, 0, 0, 0>>), Dup(l), FALSE>> : l \in ChrLists}
                      \cup {<<"\"" \o st[1] \o "\"", st[2], FALSE, TRUE>> : st \in Strings}
(* nested designators: .in.c / .in.d / .b[i] / .s[i] = v : <<text of the designator, scalar number, value>> *)
SubDes == {<<".in.c", 5, -5>>, <<".in.d", 6, 6>>, <<".b[0]", 2, 3>>, <<".b[2]", 4, -4>>, <<".s[1]", 10, 66>>, <<".s[3]", 12, 67>>}

SetRange(o, off, vals) == [i \in 1..13 |-> IF i >= off /\ i < off + Len(vals) THEN vals[i - off + 1] ELSE o[i]]
Sep == IF n = 0 THEN "" ELSE ", "
(* a whole member, positionally (des = FALSE) or as .member = ... ; an aggregate member may be given only once *)
Whole(m, des) ==
  /\ m <= 7 /\ (Mem[m].k # "sc" => (m \notin used /\ (m + 10) \notin used))
  /\ \E f \in Forms(m) :
       /\ obj' = SetRange(obj, Mem[m].off, f[2])
       /\ txt' = txt \o Sep \o (IF des THEN "." \o Mem[m].nm \o " = " ELSE "") \o f[1]
       /\ laststr' = f[4]
       (* flags name the shapes used to attribute a mismatch: ovr a scalar is given twice; pas a positional initialiser follows *)
       (* a string literal; sab a string literal for s together with an initialiser of e or g anywhere, or of f before it       *)
       /\ flags' = flags \cup (IF f[3] \/ (Mem[m].k = "sc" /\ m \in used) THEN {"ovr"} ELSE {})
                         \cup (IF ~des /\ laststr THEN {"pas"} ELSE {}) \cup (IF f[4] THEN {"str"} ELSE {}) \cup (IF f[4] /\ 7 \in used THEN {"sab"} ELSE {})
  /\ cur' = m + 1 /\ used' = used \cup {m} /\ n' = n + 1 /\ fin' = fin /\ lastm' = m
(* .member.sub = v: allowed while the member has not been given as a whole; the next initialiser must be designated (cur' = 0) *)
Sub ==
  /\ \E d \in SubDes :
       LET m == CHOOSE k \in 1..7 : d[2] >= Mem[k].off /\ d[2] < Mem[k].off + Mem[k].len IN
       /\ m \notin used
       /\ obj' = [obj EXCEPT ![d[2]] = d[3]]
       /\ txt' = txt \o Sep \o d[1] \o " = " \o NS(d[3])
       /\ used' = used \cup {m + 10}          \* partially given: not to be given as a whole afterwards
  /\ cur' = 0 /\ n' = n + 1 /\ fin' = fin /\ lastm' = 0 /\ laststr' = FALSE /\ flags' = flags
Mine(m) == n > 0 \/ (m % NParts) = Part
Init == obj = Zero13 /\ txt = "" /\ cur = 1 /\ used = {} /\ n = 0 /\ fin = FALSE /\ lastm = 0 /\ laststr = FALSE /\ flags = {}
Next ==
  /\ ~fin
  /\ \/ n < MaxItems /\ cur # 0 /\ Mine(cur) /\ Whole(cur, FALSE)
     \/ n < MaxItems /\ \E m \in 1..7 : Mine(m) /\ Whole(m, TRUE)
     \/ n < MaxItems /\ Mine(0) /\ Sub
     \/ fin' = TRUE /\ UNCHANGED <<obj, txt, cur, used, n, lastm, laststr, flags>>
(* an empty list {} is not C11: at least one initialiser *)
EmitInv == (fin /\ n > 0) => EmitJ([init |-> "{" \o txt \o "}", vals |-> obj, n |-> n, fl |-> flags \cup (IF "str" \in flags /\ (4 \in used \/ 5 \in used) THEN {"sab"} ELSE {})])
=============================================================================
