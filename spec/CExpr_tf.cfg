CONSTANTS
  LeafTypes = {"i", "u", "l", "ull"}
  GridSel = "full"
  UnOps = {}
  CastTypes = {}
  BinOps = {"+", "-", "*", "/", "%", "<<", ">>", "&", "|", "^", "<", "<=", ">", ">=", "==", "!=", "&&", "||", ","}
  UseCond = FALSE
  LvTypes = {}
  AsgOps = {}
  IncOps = {}
  UseEnum = FALSE
  UseLit = FALSE
  BfWidths = {}
  MaxDepth = 1
  MaxLeaves = 2
  MaxStack = 2
  MinParen = TRUE
  TwoPhase = FALSE
  Rnd = FALSE
  PtrLv = FALSE
INIT Init
NEXT Next
INVARIANT EmitInv
