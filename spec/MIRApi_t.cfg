CONSTANTS
  Names = {"a", "b"}
  RegNames = {"x", "y"}
  MaxMods = 2
  Depth = 7
INIT Init
NEXT Next
VIEW View
CONSTRAINT Bound
ACTION_CONSTRAINT Emit
INVARIANTS PrefixAccepted
