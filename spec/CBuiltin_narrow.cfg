CONSTANTS
  OpTypes = {"sc", "uc", "i", "ul"}
  ResTypes = {"sc", "uc", "s", "us"}
  GridSel = "g2"
  MaxVa = 0
  Variants = {"cv", "ri"}
INIT Init
NEXT Next
INVARIANT EmitInv
