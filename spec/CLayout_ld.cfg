CONSTANTS
  MaxM = 2
  MaxInner = 2
  MaxDepth = 1
  MaxNested = 1
  Atoms <- AtomsLd
  InnerAtoms <- AtomsLd
  NestKinds <- NestPlain
INIT Init
NEXT Next
ACTION_CONSTRAINT Emit
INVARIANT Sane
