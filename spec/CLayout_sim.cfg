CONSTANTS
  MaxM = 4
  MaxInner = 3
  MaxDepth = 2
  MaxNested = 2
  Atoms <- AtomsFull
  InnerAtoms <- AtomsFull
  NestKinds <- NestAll
INIT Init
NEXT NextSim
ACTION_CONSTRAINT EmitSim
INVARIANT SaneSim
