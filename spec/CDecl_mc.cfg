CONSTANTS
  MaxDecls = 3
INIT Init
NEXT Next
INVARIANT EmitInv
