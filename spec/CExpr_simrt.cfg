CONSTANTS
  LeafTypes = {"B", "c", "sc", "uc", "s", "us", "i", "u", "l", "ul", "ll", "ull"}
  GridSel = "full"
  UnOps = {"+", "-", "~", "!"}
  CastTypes = {"B", "c", "sc", "uc", "s", "us", "i", "u", "l", "ul", "ll", "ull"}
  BinOps = {"+", "-", "*", "/", "%", "<<", ">>", "&", "|", "^", "<", "<=", ">", ">=", "==", "!=", "&&", "||", ","}
  UseCond = TRUE
  LvTypes = {"B", "c", "sc", "uc", "s", "us", "i", "u", "l", "ul", "ll", "ull"}
  AsgOps = {"=", "+=", "-=", "*=", "/=", "%=", "<<=", ">>=", "&=", "|=", "^="}
  IncOps = {"++p", "p++", "--p", "p--"}
  UseEnum = TRUE
  UseLit = TRUE
  BfWidths = {1, 3, 8, 15, 31, 32}
  MaxDepth = 3
  MaxLeaves = 5
  MaxStack = 3
  MinParen = TRUE
  TwoPhase = TRUE
  Rnd = TRUE
  PtrLv = TRUE
INIT Init
NEXT Next
INVARIANT EmitInv
