CONSTANTS
  Fam = "mac"
  NM = 1
  KindSet = {"f1", "fv"}
  MaxBody = 2
  MaxInv = 5
  BodyAlpha = {"#x", "#V", "x", "a"}
  InvAlpha = {"f", "a", "(", ")", ",", "S2", "C1"}
  VarWs = TRUE
  InvHead = TRUE
  InvBal = TRUE
  NameScheme = 1
  MaxLines = 1
  MaxNest = 1
  CondSet = {"0"}
  LineSet = {"endif"}
  MaxD = 0
  AtomSet = {"0"}
  GapSet = {"sp"}
  OpSet = {"+"}
INIT Init
NEXT Next
INVARIANT EmitInv
