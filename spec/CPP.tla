-------------------------------- MODULE CPP --------------------------------
(* The C11 preprocessor (6.10) as far as property C09 needs it:              *)
(*   (mac)  macro replacement: Prosser's algorithm with hide sets            *)
(*          (expand / subst / glue / hsadd / stringize), with the C99        *)
(*          placemarkers for empty arguments next to ##, __VA_ARGS__,        *)
(*          argument pre-expansion, blue paint, rescanning with the rest of  *)
(*          the source;                                                      *)
(*   (lex)  translation phase 3 for pp-numbers: a maximal-munch lexer over  *)
(*          characters (6.4.8: e E p P followed by a sign continue a        *)
(*          pp-number in any radix), texts next to macro names and under    *)
(*          # and ##;                                                       *)
(*   (cond) the conditional-group stack of #if/#ifdef/#ifndef/#elif/#else/   *)
(*          #endif with a marker token in every group;                       *)
(*   (if)   #if expression evaluation in intmax_t/uintmax_t (6.10.1p4) on    *)
(*          64-bit words (lib/W64cpp.tla);                                   *)
(*   (w64)  a table of W64cpp operations for the host cross-check.           *)
(* Tokens are abstract symbols: a kind, a spelling (sequence of characters), *)
(* a hide set and "preceded by white space".  In spellings the character @  *)
(* stands for a double quote and $ for a backslash (the harness maps them).  *)
(* Results the standard leaves unspecified/undefined are tokens of kind      *)
(* "err" with spelling <<"U">>; ill-formed input (unterminated invocation,   *)
(* wrong argument count, evaluated bad #if) gives <<"I">>.  Such cases are   *)
(* emitted with st # "D" and never replayed.                                 *)
(* Every family is a generator: Next extends a partial case by one choice;   *)
(* breadth-first search enumerates all cases of the bound, -simulate draws   *)
(* random ones.  A finished case (ph = "done"/emit flag) is emitted once by  *)
(* the "invariant" EmitInv together with the expected result.                *)
EXTENDS Integers, Sequences, FiniteSets, TLC, Json, Emit, IOUtils, W64cpp

CONSTANTS Fam,        \* "mac" | "lex" | "cond" | "if" | "w64"   (lex reuses KindSet = contexts, InvAlpha = chunks, MaxInv)
          NM,         \* mac: number of macros (1..3)
          KindSet,    \* mac: subset of {"obj","f0","f1","f2","fv","f1v"}
          MaxBody,    \* mac: tokens per replacement list
          MaxInv,     \* mac: tokens of invocation text
          BodyAlpha,  \* mac: items allowed in replacement lists
          InvAlpha,   \* mac: items allowed in the invocation text
          InvHead,    \* mac: the invocation text starts with a macro name (tokens before it would only be copied)
          InvBal,     \* mac: the invocation text has balanced parentheses and commas only inside them
          VarWs,      \* mac: invocation tokens may lack preceding white space (stringification family)
          NameScheme, \* mac: 1 = macros f,g,fg   2 = macros f,ff,g
          MaxLines,   \* cond: directive lines
          MaxNest,    \* cond: nesting depth
          CondSet,    \* cond: controlling expressions used
          LineSet,    \* cond: line kinds used besides if-openers: subset of {"elif","else","endif","def","undef"}
          MaxD,       \* if: operator nesting depth
          AtomSet,    \* if: names of atoms used
          GapSet,     \* file: the gaps used (subset of {"no","sp","bc","bn","lc","nl","snl"}); KindSet = skeleton names
          OpSet       \* if: operators used ("u-","u~","u!","u+", binary spellings, "?:")

VARIABLES g, ph
vars == <<g, ph>>

Part == atoi(IOEnv.PART)          \* this JVM handles the first choices with index % NParts = Part
NParts == atoi(IOEnv.NPARTS)
Mine(i) == i % NParts = Part

Last(s) == s[Len(s)]
Front(s) == SubSeq(s, 1, Len(s) - 1)
RECURSIVE Flat(_)
Flat(ss) == IF ss = <<>> THEN <<>> ELSE Head(ss) \o Flat(Tail(ss))
RECURSIVE JoinC(_)                \* sequence of strings -> one string
JoinC(cs) == IF cs = <<>> THEN "" ELSE Head(cs) \o JoinC(Tail(cs))

(* ======================================================================= *)
(*                               TOKENS                                    *)
(* ======================================================================= *)
Lower == {"a", "b", "c", "d", "e", "f", "g", "h", "i", "j", "k", "l", "m", "n", "o", "p", "q", "r",
          "s", "t", "u", "v", "w", "x", "y", "z"}
Upper == {"A", "B", "C", "D", "E", "F", "G", "H", "I", "J", "K", "L", "M", "N", "O", "P", "Q", "R", "S", "T", "U", "V", "W", "X", "Y", "Z"}
Digits == {"0", "1", "2", "3", "4", "5", "6", "7", "8", "9"}
IsLetter(c) == c \in Lower \cup Upper \cup {"_"}
IsDigit(c) == c \in Digits
AllAlnum(sp) == \A i \in 1..Len(sp) : IsLetter(sp[i]) \/ IsDigit(sp[i])

(* What a spelling is when it is (re)lexed as ONE preprocessing token (6.4): used for ## results *)
(* pp-number (6.4.8):  digit | . digit | pp-number (digit | identifier-nondigit | e sign | E sign | p sign |     *)
(* P sign | .)  -- a sign continues the number after e E p P whatever the radix.  NumEnd(cs, j): first index   *)
(* after the longest pp-number whose first character(s) end before j.                                          *)
RECURSIVE NumEnd(_, _)
NumEnd(cs, j) ==
  IF j > Len(cs) THEN j
  ELSE IF cs[j] \in {"+", "-"} /\ cs[j - 1] \in {"e", "E", "p", "P"} THEN NumEnd(cs, j + 1)
  ELSE IF IsDigit(cs[j]) \/ IsLetter(cs[j]) \/ cs[j] = "." THEN NumEnd(cs, j + 1)
  ELSE j
NumStart(cs, i) == IsDigit(cs[i]) \/ (cs[i] = "." /\ i < Len(cs) /\ IsDigit(cs[i + 1]))
(* punctuators (6.4.6) that can be spelled with the characters the generators use, digraphs included *)
Pu4 == {<<"%", ":", "%", ":">>}
Pu3 == {<<".", ".", ".">>}
Pu2 == {<<"#", "#">>, <<"+", "+">>, <<"-", "-">>, <<"-", ">">>, <<"<", "<">>, <<">", ">">>, <<"<", ":">>, <<":", ">">>, <<"<", "%">>,
       <<"%", ">">>, <<"%", ":">>, <<"&", "&">>, <<"|", "|">>}
Pu1 == {<<"#">>, <<"(">>, <<")">>, <<",">>, <<"+">>, <<"-">>, <<".">>, <<"%">>, <<":">>, <<"<">>, <<">">>, <<"/">>, <<"*">>, <<"&">>, <<"|">>, <<"!">>, <<"[">>, <<"]">>}
Puncts == Pu1 \cup Pu2 \cup Pu3 \cup Pu4
LexKind(sp) ==
  IF sp = <<>> THEN "bad"
  ELSE IF IsLetter(sp[1]) /\ AllAlnum(sp) THEN "id"
  ELSE IF NumStart(sp, 1) /\ NumEnd(sp, 2) = Len(sp) + 1 THEN "num"
  ELSE IF sp \in Puncts THEN "pu"
  ELSE "bad"

VA == <<"_", "_", "V", "A", "_", "A", "R", "G", "S", "_", "_">>
ItemSp(it) ==                     \* spelling of a one-token alphabet item
  CASE it = "V" -> VA
    [] it = "fg" -> <<"f", "g">>
    [] it = "ff" -> <<"f", "f">>
    [] it = "##" -> <<"#", "#">>
    [] it = "S1" -> <<"@", "s", "@">>             \* "s"
    [] it = "S2" -> <<"@", "$", "n", "@">>        \* "\n"
    [] it = "C1" -> <<"'", "@", "'">>             \* '"'
    [] it = "C2" -> <<"'", "$", "$", "'">>        \* '\\'
    [] OTHER -> <<it>>
ItemKind(it) == IF it \in {"S1", "S2"} THEN "str" ELSE IF it \in {"C1", "C2"} THEN "chr" ELSE LexKind(ItemSp(it))
Tok(k, sp, ws) == [k |-> k, s |-> sp, hs |-> {}, ws |-> ws, nl |-> FALSE]     \* nl: a new-line in the white space before it
ItemTok(it, ws) == Tok(ItemKind(it), ItemSp(it), ws)
ItemToks(it, ws) ==               \* "#x" is the two tokens # x
  IF it \in {"#x", "#y", "#V"} THEN <<Tok("pu", <<"#">>, ws), ItemTok(IF it = "#x" THEN "x" ELSE IF it = "#y" THEN "y" ELSE "V", TRUE)>>
  ELSE <<ItemTok(it, ws)>>
(* Translation phase 3 on a sequence of characters: maximal munch (6.4p4); each comment is one space      *)
(* (5.1.1.2p1.3), so a new-line inside a block comment is not a new-line of the line structure.  @ opens  *)
(* a string literal, ' a character constant ($ escapes the next character), ~ is the new-line character;  *)
(* u8@ u@ U@ L@ u' U' L' are literal prefixes (6.4.5, 6.4.4.4), any other u8.. is an identifier.          *)
(* A character that starts no token gives kind "bad".                                                     *)
RECURSIVE IdEnd(_, _), LitEnd(_, _, _), BlockEnd(_, _), LineEnd(_, _), SkipWs(_, _, _), LexFrom(_, _, _, _)
IdEnd(cs, j) == IF j <= Len(cs) /\ (IsLetter(cs[j]) \/ IsDigit(cs[j])) THEN IdEnd(cs, j + 1) ELSE j
LitEnd(cs, j, q) == IF j > Len(cs) \/ cs[j] = "~" THEN 0           \* unterminated
                    ELSE IF cs[j] = "$" THEN LitEnd(cs, j + 2, q)
                    ELSE IF cs[j] = q THEN j + 1 ELSE LitEnd(cs, j + 1, q)
BlockEnd(cs, j) == IF j + 1 > Len(cs) THEN 0                       \* index after the closing * /, 0 if there is none
                   ELSE IF cs[j] = "*" /\ cs[j + 1] = "/" THEN j + 2 ELSE BlockEnd(cs, j + 1)
LineEnd(cs, j) == IF j > Len(cs) \/ cs[j] = "~" THEN j ELSE LineEnd(cs, j + 1)
WsStart(cs, i) == cs[i] \in {" ", "~"} \/ (cs[i] = "/" /\ i < Len(cs) /\ cs[i + 1] \in {"*", "/"})
SkipWs(cs, i, nl) ==                  \* [j |-> first index after the run of white space and comments (0: unterminated comment), nl]
  IF i > Len(cs) \/ ~WsStart(cs, i) THEN [j |-> i, nl |-> nl]
  ELSE IF cs[i] = " " THEN SkipWs(cs, i + 1, nl)
  ELSE IF cs[i] = "~" THEN SkipWs(cs, i + 1, TRUE)
  ELSE IF cs[i + 1] = "/" THEN SkipWs(cs, LineEnd(cs, i + 2), nl)
  ELSE LET e == BlockEnd(cs, i + 2) IN IF e = 0 THEN [j |-> 0, nl |-> nl] ELSE SkipWs(cs, e, nl)
PrefLen(cs, i) ==                     \* length of an encoding prefix that is followed by a quote
  IF cs[i] = "u" /\ i + 2 <= Len(cs) /\ cs[i + 1] = "8" /\ cs[i + 2] = "@" THEN 2
  ELSE IF cs[i] \in {"u", "U", "L"} /\ i < Len(cs) /\ cs[i + 1] \in {"@", "'"} THEN 1 ELSE 0
LexFrom(cs, i, ws, nl) ==
  IF i > Len(cs) THEN <<>>
  ELSE LET c == cs[i]
           Cut(len) == IF i + len - 1 <= Len(cs) THEN SubSeq(cs, i, i + len - 1) ELSE <<>>
           Emit1(k, j) == <<[Tok(k, SubSeq(cs, i, j - 1), ws) EXCEPT !.nl = nl]>> \o LexFrom(cs, j, FALSE, FALSE)
           Bad == <<Tok("bad", <<c>>, ws)>>
           p == PrefLen(cs, i)
       IN IF WsStart(cs, i) THEN LET r == SkipWs(cs, i, FALSE) IN IF r.j = 0 THEN Bad ELSE LexFrom(cs, r.j, TRUE, nl \/ r.nl)
          ELSE IF NumStart(cs, i) THEN Emit1("num", NumEnd(cs, i + 1))
          ELSE IF p > 0 \/ c \in {"@", "'"} THEN LET j == LitEnd(cs, i + p + 1, cs[i + p]) IN
               IF j = 0 THEN Bad ELSE Emit1(IF cs[i + p] = "@" THEN "str" ELSE "chr", j)
          ELSE IF IsLetter(c) THEN Emit1("id", IdEnd(cs, i + 1))
          ELSE IF Cut(4) \in Pu4 THEN Emit1("pu", i + 4)
          ELSE IF Cut(3) \in Pu3 THEN Emit1("pu", i + 3)
          ELSE IF Cut(2) \in Pu2 THEN Emit1("pu", i + 2)
          ELSE IF <<c>> \in Pu1 THEN Emit1("pu", i + 1)
          ELSE Bad
LexLine(cs) == LexFrom(cs, 1, TRUE, FALSE)
TextOf(ts) == Flat([i \in 1..Len(ts) |-> (IF ts[i].ws THEN <<" ">> ELSE <<>>) \o ts[i].s])
ErrTok(code) == [k |-> "err", s |-> <<code>>, hs |-> {}, ws |-> TRUE, nl |-> FALSE]
Plm == [k |-> "plm", s |-> <<>>, hs |-> {}, ws |-> TRUE, nl |-> FALSE]      \* placemarker (6.10.3.3p2)
IsPu(t, c) == t.k = "pu" /\ t.s = c
IsHash(t) == IsPu(t, <<"#">>) \/ IsPu(t, <<"%", ":">>)                        \* # and its digraph %: (6.4.6p3)
IsPaste(t) == IsPu(t, <<"#", "#">>) \/ IsPu(t, <<"%", ":", "%", ":">>)
IsErr(t) == t.k = "err"
HasErr(ts, code) == \E i \in 1..Len(ts) : ts[i].k = "err" /\ ts[i].s = <<code>>
FirstErr(ts) == ts[CHOOSE i \in 1..Len(ts) : ts[i].k = "err" /\ \A j \in 1..(i - 1) : ts[j].k # "err"]
AnyErr(ts) == \E i \in 1..Len(ts) : ts[i].k = "err"

(* ======================================================================= *)
(*                    MACRO REPLACEMENT  (C11 6.10.3)                      *)
(* ======================================================================= *)
(* A definition: [name, fl (function-like), params (sequence of spellings), va (has ...), body]     *)
(* The context C of an expansion: [env |-> sequence of definitions, pol |-> "A" | "B"]              *)
(*   pol decides the 6.10.3.4p4 corner: an invocation whose name comes out of a replacement list    *)
(*   but whose closing parenthesis lies beyond it.  "A" (Prosser): the new hide set is              *)
(*   (HS(name) \cap HS(rparen)) \cup {name}; "B": HS(name) \cup {name} (the replacement is treated  *)
(*   as nested).  A case whose result depends on pol is Unspecified.                                *)
DefIdx(C, sp) == IF \E i \in 1..Len(C.env) : C.env[i].name = sp
                 THEN CHOOSE i \in 1..Len(C.env) : C.env[i].name = sp ELSE 0
ParamIdx(M, t) ==                 \* 0 if t is not a parameter of M
  IF t.k # "id" THEN 0
  ELSE IF \E i \in 1..Len(M.params) : M.params[i] = t.s THEN CHOOSE i \in 1..Len(M.params) : M.params[i] = t.s
  ELSE IF M.va /\ t.s = VA THEN Len(M.params) + 1
  ELSE 0

(* Besides the tokens every operator returns a set of FEATURES: facts about the reference          *)
(* expansion (which rules of 6.10.3 the case exercises).  They are emitted with the case, counted  *)
(* in the evidence, and let the harness say precisely which input family a finding key covers.     *)
(* ---- stringize (6.10.3.2): spelling of the argument, one space where white space was, " and \    *)
(* ---- of string literals and character constants escaped                                          *)
EscTok(t) == IF t.k \in {"str", "chr"}
             THEN Flat([i \in 1..Len(t.s) |-> IF t.s[i] \in {"@", "$"} THEN <<"$", t.s[i]>> ELSE <<t.s[i]>>])
             ELSE t.s
Stringize(arg, ws) ==
  IF AnyErr(arg) THEN FirstErr(arg)
  ELSE IF VarWs /\ \E i \in 1..Len(arg) : arg[i].hs # {} THEN ErrTok("U")   \* spacing of tokens that come out of an expansion is not modelled
  ELSE Tok("str", <<"@">> \o Flat([i \in 1..Len(arg) |-> (IF i > 1 /\ arg[i].ws THEN <<" ">> ELSE <<>>) \o EscTok(arg[i])]) \o <<"@">>, ws)
HasBackslash(t) == t.k \in {"str", "chr"} /\ \E i \in 1..Len(t.s) : t.s[i] = "$"
EscLike == {"$", "a", "b", "f", "n", "r", "v", "t", "?", "e", "0", "1", "2", "3", "4", "5", "6", "7", "x", "X"}
StrFeat(arg) ==
  {"str"} \cup (IF arg = <<>> THEN {"str_empty"} ELSE {})
  \cup (IF \E i \in 1..Len(arg) : arg[i].k \in {"str", "chr"} THEN {"str_lit"} ELSE {})
  \cup (IF \E i \in 1..(Len(arg) - 1) : HasBackslash(arg[i]) /\ arg[i + 1].s[1] \in EscLike THEN {"str_bsl_next"} ELSE {})

(* ---- glue (6.10.3.3): paste the last token of ls with the first of rs *)
Paste(C, L, R) ==
  IF IsErr(L) THEN L ELSE IF IsErr(R) THEN R
  ELSE IF L.k = "plm" THEN R
  ELSE IF R.k = "plm" THEN L
  ELSE LET sp == L.s \o R.s
           k == IF L.k \in {"str", "chr"} \/ R.k \in {"str", "chr"} THEN "bad" ELSE LexKind(sp)
       IN IF k = "bad" THEN ErrTok("U")                                   \* 6.10.3.3p3: undefined
          ELSE IF k = "id" /\ DefIdx(C, sp) # 0 /\ sp \in (L.hs \cup R.hs) \ (L.hs \cap R.hs)
               THEN ErrTok("U")                                           \* whether the new name is painted is not determined
          ELSE [k |-> k, s |-> sp, hs |-> L.hs \cap R.hs, ws |-> L.ws, nl |-> L.nl]
Glue(C, ls, rs) == Front(ls) \o <<Paste(C, Last(ls), Head(rs))>> \o Tail(rs)
PasteFeat(C, L, R) ==
  {"paste"} \cup (IF L.k = "plm" \/ R.k = "plm" THEN {"paste_plm"} ELSE {})
  \cup (IF L.k = "plm" /\ R.k = "plm" THEN {"paste_plm2"} ELSE {})
  \cup (IF L.k \notin {"plm", "err"} /\ R.k \notin {"plm", "err"} /\ DefIdx(C, L.s \o R.s) # 0 THEN {"paste_makes_macro"} ELSE {})

HsAdd(hs, ts) == [i \in 1..Len(ts) |-> [ts[i] EXCEPT !.hs = @ \cup hs]]
NoPlm(ts) == SelectSeq(ts, LAMBDA t : t.k # "plm")
OrPlm(arg) == IF arg = <<>> THEN <<Plm>> ELSE arg

(* ---- collecting the arguments of an invocation; ts[1] is the opening parenthesis.               *)
(* ---- Commas split only while fewer than nsplit arguments are complete (variable arguments).     *)
(* ---- gap = the largest number of replacement lists that end between two consecutive tokens      *)
RECURSIVE Scan(_, _, _, _, _, _, _, _)
Scan(ts, i, depth, cur, args, nsplit, prevhs, gap) ==
  IF i > Len(ts) THEN [ok |-> FALSE]
  ELSE LET t == ts[i]
           g2 == IF Cardinality(prevhs \ t.hs) > gap THEN Cardinality(prevhs \ t.hs) ELSE gap
       IN
    IF IsPu(t, <<"(">>) THEN Scan(ts, i + 1, depth + 1, Append(cur, t), args, nsplit, t.hs, g2)
    ELSE IF IsPu(t, <<")">>) THEN
      IF depth = 0 THEN [ok |-> TRUE, args |-> Append(args, cur), nxt |-> i + 1, rhs |-> t.hs, gap |-> g2]
      ELSE Scan(ts, i + 1, depth - 1, Append(cur, t), args, nsplit, t.hs, g2)
    ELSE IF IsPu(t, <<",">>) /\ depth = 0 /\ Len(args) < nsplit THEN Scan(ts, i + 1, 0, <<>>, Append(args, cur), nsplit, t.hs, g2)
    ELSE Scan(ts, i + 1, depth, Append(cur, t), args, nsplit, t.hs, g2)

ArgsOk(M, args) ==                \* 6.10.3p4: argument count
  IF M.va THEN Len(args) = Len(M.params) + 1
  ELSE IF Len(M.params) = 0 THEN args = <<<<>>>>
  ELSE Len(args) = Len(M.params)

Res(o, f) == [o |-> o, f |-> f]
WsOr(ts, ws) == IF ts = <<>> THEN ts ELSE <<[ts[1] EXCEPT !.ws = @ \/ ws]>> \o Tail(ts)     \* white space before the parameter stays
WsFirst(ts, ws) == IF ts = <<>> THEN ts ELSE <<[ts[1] EXCEPT !.ws = ws]>> \o Tail(ts)   \* the result stands where the name stood
RECURSIVE Expand(_, _), Subst(_, _, _, _, _, _)

(* ---- subst: the replacement list of M with actuals ap; returns the token list before hsadd,     *)
(* ---- placemarkers still in it                                                                    *)
SharpRun(M, i) ==                 \* after "# p" at i, i+1: only non-parameter identifiers up to another parameter
  \E j \in (i + 2)..Len(M.body) :
     /\ ParamIdx(M, M.body[j]) > 0
     /\ \A k \in (i + 2)..(j - 1) : M.body[k].k = "id" /\ ParamIdx(M, M.body[k]) = 0
Subst(C, M, ap, i, os, fs) ==
  LET B == M.body
      n == Len(B)
  IN IF i > n THEN Res(os, fs)
     ELSE LET T == B[i]
              p == IF M.fl THEN ParamIdx(M, T) ELSE 0
          IN IF M.fl /\ IsHash(T) /\ i < n /\ ParamIdx(M, B[i + 1]) > 0              \* # parameter
             THEN LET arg == ap[ParamIdx(M, B[i + 1])] IN
                  Subst(C, M, ap, i + 2, Append(os, Stringize(arg, T.ws)),
                        fs \cup StrFeat(arg) \cup (IF SharpRun(M, i) THEN {"str_then_param"} ELSE {}))
             ELSE IF IsPaste(T) /\ i < n                                          \* ## operand
             THEN LET U == B[i + 1]
                      q == IF M.fl THEN ParamIdx(M, U) ELSE 0
                      rs == IF q > 0 THEN OrPlm(ap[q]) ELSE <<U>>
                      chain == /\ i >= 3 /\ IsPaste(B[i - 2])                     \* X ## p ## q with p and q empty
                               /\ q > 0 /\ ap[q] = <<>>
                               /\ M.fl /\ ParamIdx(M, B[i - 1]) > 0 /\ ap[ParamIdx(M, B[i - 1])] = <<>>
                  IN IF M.fl /\ IsHash(U) /\ i + 1 < n /\ ParamIdx(M, B[i + 2]) > 0
                     THEN Res(Append(os, ErrTok("U")), fs)                                   \* ## # x : order of # and ## (6.10.3.2p2)
                     ELSE Subst(C, M, ap, i + 2, Glue(C, os, rs),
                                fs \cup PasteFeat(C, Last(os), Head(rs)) \cup (IF chain THEN {"paste_plm_chain"} ELSE {}))
             ELSE IF p > 0 /\ i < n /\ IsPaste(B[i + 1])                          \* parameter ##  : not expanded
             THEN Subst(C, M, ap, i + 1, os \o WsOr(OrPlm(ap[p]), T.ws), fs)
             ELSE IF p > 0 THEN                                                              \* fully macro-replaced argument
                  LET r == Expand(C, ap[p]) IN
                  Subst(C, M, ap, i + 1, os \o WsOr(r.o, T.ws),
                        fs \cup r.f \cup (IF ap[p] = <<>> THEN {"arg_empty"} ELSE {})
                           \cup (IF r.f \cap {"obj", "fn"} # {} THEN {"arg_preexpanded"} ELSE {})
                           \cup (IF ap[p] # <<>> /\ Last(ap[p]).k = "id" /\ DefIdx(C, Last(ap[p]).s) # 0 /\ C.env[DefIdx(C, Last(ap[p]).s)].fl
                                    /\ r.o # <<>> /\ Last(r.o).s = Last(ap[p]).s
                                 THEN {"arg_ends_with_fn_name"} ELSE {}))
             ELSE Subst(C, M, ap, i + 1, Append(os, T), fs)

HashPasteAdj(M) ==                \* "# x ##" in the list: order of evaluation of # and ## unspecified
  M.fl /\ \E i \in 1..(Len(M.body) - 2) :
             IsHash(M.body[i]) /\ ParamIdx(M, M.body[i + 1]) > 0 /\ IsPaste(M.body[i + 2])

Replace(C, M, ap, hs) ==
  IF HashPasteAdj(M) THEN Res(<<ErrTok("U")>>, {})
  ELSE LET r == Subst(C, M, ap, 1, <<>>, {}) IN Res(HsAdd(hs, NoPlm(r.o)), r.f)

(* ---- expand: Prosser's main loop over a token sequence followed by nothing *)
Expand(C, ts) ==
  IF ts = <<>> THEN Res(<<>>, {})
  ELSE LET T == Head(ts)
           R == Tail(ts)
           d == IF T.k = "id" THEN DefIdx(C, T.s) ELSE 0
       IN IF d = 0 \/ T.s \in T.hs                                                           \* not a macro, or painted blue
          THEN LET r == Expand(C, R) IN Res(<<T>> \o r.o, r.f \cup (IF d # 0 THEN {"paint"} ELSE {}))
          ELSE LET M == C.env[d] IN
            IF ~M.fl THEN LET rp == Replace(C, M, <<>>, T.hs \cup {T.s})
                              r == Expand(C, WsFirst(rp.o, T.ws) \o R)
                          IN Res(r.o, r.f \cup rp.f \cup {"obj"} \cup (IF T.hs # {} THEN {"nested"} ELSE {}))
            ELSE IF R = <<>> \/ ~IsPu(Head(R), <<"(">>)                                      \* function-like name without (
            THEN LET r == Expand(C, R) IN Res(<<T>> \o r.o, r.f \cup {"fn_name_no_paren"})
            ELSE LET A == Scan(R, 2, 0, <<>>, <<>>, IF M.va THEN Len(M.params) ELSE 1000, Head(R).hs,
                               Cardinality(T.hs \ Head(R).hs)) IN
              IF ~A.ok THEN Res(<<ErrTok("I")>>, {})                                         \* unterminated invocation
              ELSE LET rest == SubSeq(R, A.nxt, Len(R)) IN
                IF \E j \in 1..Len(A.args) : AnyErr(A.args[j])
                THEN LET r == Expand(C, rest) IN Res(<<FirstErr(Flat(A.args))>> \o r.o, r.f)
                ELSE IF ~ArgsOk(M, A.args) THEN LET r == Expand(C, rest) IN Res(<<ErrTok("I")>> \o r.o, r.f)
                ELSE LET hs == IF C.pol = "A" THEN (T.hs \cap A.rhs) \cup {T.s} ELSE T.hs \cup {T.s}
                         ap == IF Len(M.params) = 0 /\ ~M.va THEN <<>> ELSE A.args
                         rp == Replace(C, M, ap, hs)
                         r == Expand(C, WsFirst(rp.o, T.ws) \o rest)
                         sx == T.hs \ A.rhs # {}                                             \* the name comes out of a replacement list
                         fl == Flat(A.args)                                                  \* that ends before the closing parenthesis
                     IN Res(r.o, r.f \cup rp.f \cup {"fn"}
                              \cup (IF T.hs # {} THEN {"nested"} ELSE {})
                              \cup (IF M.va THEN {"va"} ELSE {})
                              \cup (IF sx THEN {"call_past_list_end"} ELSE {})
                              \cup (IF T.hs \ Head(R).hs # {} THEN {"call_name_ends_list"} ELSE {})
                              \cup (IF A.gap >= 2 THEN {"call_past_2_list_ends"} ELSE {})
                              \cup (IF \E j \in 1..(A.nxt - 1) : R[j].nl THEN {"call_spans_lines"} ELSE {})
                              \cup (IF Len(M.params) = 0 /\ ~M.va /\ R[A.nxt - 1].nl THEN {"call0_newline_in_parens"} ELSE {})
                              \cup (IF sx /\ \E j \in 1..Len(fl) : fl[j].k = "id" /\ fl[j].s \in fl[j].hs /\ fl[j].s \notin A.rhs
                                    THEN {"call_past_list_end_painted_arg"} ELSE {}))

Spell(ts) == [i \in 1..Len(ts) |-> JoinC(ts[i].s)]
RunMac(env, inv) ==
  LET a == Expand([env |-> env, pol |-> "A"], inv) IN
  IF HasErr(a.o, "I") THEN [st |-> "I", out |-> <<>>, ft |-> {}]
  ELSE IF HasErr(a.o, "U") THEN [st |-> "U", out |-> <<>>, ft |-> {}]
  ELSE LET b == Expand([env |-> env, pol |-> "B"], inv) IN
       IF AnyErr(b.o) \/ Spell(b.o) # Spell(a.o) THEN [st |-> "U", out |-> <<>>, ft |-> {"unspec_6.10.3.4p4"}]
       ELSE [st |-> "D", out |-> Spell(a.o), ft |-> a.f, toks |-> a.o]

(* ---- source text of a case (the spec writes it, the harness only maps @ and $) *)
RECURSIVE LineText(_)
LineText(ts) == IF ts = <<>> THEN ""
                ELSE (IF Head(ts).ws THEN " " ELSE "") \o JoinC(Head(ts).s) \o LineText(Tail(ts))
RECURSIVE CommaJoin(_)
CommaJoin(ps) == IF ps = <<>> THEN "" ELSE IF Len(ps) = 1 THEN ps[1] ELSE ps[1] \o "," \o CommaJoin(Tail(ps))
DefText(M) ==
  JoinC(M.name) \o (IF M.fl THEN "(" \o CommaJoin([i \in 1..Len(M.params) |-> JoinC(M.params[i])] \o (IF M.va THEN <<"...">> ELSE <<>>)) \o ")" ELSE "")
  \o LineText(M.body)

(* ---- generator *)
AllKinds == <<"obj", "f0", "f1", "f2", "fv", "f1v">>
KindSeq == SelectSeq(AllKinds, LAMBDA k : k \in KindSet)
NK == Len(KindSeq)
RECURSIVE Pow(_, _)
Pow(b, e) == IF e = 0 THEN 1 ELSE b * Pow(b, e - 1)
Names == IF NameScheme = 1 THEN <<<<"f">>, <<"g">>, <<"f", "g">>>> ELSE <<<<"f">>, <<"f", "f">>, <<"g">>>>
NameItems == IF NameScheme = 1 THEN <<"f", "g", "fg">> ELSE <<"f", "ff", "g">>
MacroItems == {NameItems[i] : i \in 1..NM}
KindParams(k) == IF k \in {"f1", "f1v"} THEN <<<<"x">>>> ELSE IF k = "f2" THEN <<<<"x">>, <<"y">>>> ELSE <<>>
KindVa(k) == k \in {"fv", "f1v"}
KindItems(k) ==                   \* items that may appear in a replacement list of a macro of this kind
  (IF k = "obj" THEN {"#"} ELSE {})
  \cup (IF k \in {"f1", "f1v"} THEN {"x", "#x"} ELSE {})
  \cup (IF k = "f2" THEN {"x", "y", "#x", "#y"} ELSE {})
  \cup (IF KindVa(k) THEN {"V", "#V"} ELSE {})
  \cup MacroItems \cup {"a", "1", "(", ")", ",", "##", "S1", "S2", "C1", "C2"}
ItemLen(it) == IF it \in {"#x", "#y", "#V"} THEN 2 ELSE 1
BodyOk(cur, it) ==                \* 6.10.3.3p1: ## not at the beginning; no ## ##
  IF it # "##" THEN TRUE ELSE IF cur = <<>> THEN FALSE ELSE ~IsPu(Last(cur), <<"#", "#">>)
CloseOk(cur) == IF cur = <<>> THEN TRUE ELSE ~IsPu(Last(cur), <<"#", "#">>)     \* ## not at the end
MkDef(i, k, body) == [name |-> Names[i], fl |-> k # "obj", params |-> KindParams(k), va |-> KindVa(k), body |-> body]
NeedsSep(a, b) ==                 \* tokens that must be separated by white space (a ")" may end an invocation whose
  (a.k \in {"id", "num"} \/ IsPu(a, <<")">>)) /\ b.k \in {"id", "num"}       \* expansion ends in an identifier or number)
RECURSIVE ParDepth(_)
ParDepth(ts) == IF ts = <<>> THEN 0
                ELSE ParDepth(Front(ts)) + (IF IsPu(Last(ts), <<"(">>) THEN 1 ELSE IF IsPu(Last(ts), <<")">>) THEN -1 ELSE 0)
BalOk(cur, it) == IF ~InvBal THEN TRUE
                  ELSE IF it \in {")", ","} THEN ParDepth(cur) > 0
                  ELSE TRUE
WsChoices(cur, it) ==
  IF ~VarWs \/ cur = <<>> THEN {TRUE}
  ELSE IF NeedsSep(Last(cur), ItemTok(it, TRUE)) THEN {TRUE} ELSE {TRUE, FALSE}

MacInit ==
  /\ ph = "body"
  /\ \E kidx \in 0..(Pow(NK, NM) - 1) :
       /\ Mine(kidx)
       /\ g = [kinds |-> [i \in 1..NM |-> KindSeq[((kidx \div Pow(NK, i - 1)) % NK) + 1]], defs |-> <<>>, cur |-> <<>>]
MacNext ==
  \/ /\ ph = "body"
     /\ LET i == Len(g.defs) + 1
            k == g.kinds[i]
        IN \/ \E it \in BodyAlpha \cap KindItems(k) :
                /\ Len(g.cur) + ItemLen(it) <= MaxBody
                /\ BodyOk(g.cur, it)
                /\ g' = [g EXCEPT !.cur = @ \o ItemToks(it, TRUE)]
                /\ ph' = ph
           \/ /\ CloseOk(g.cur)
              /\ g' = [g EXCEPT !.defs = Append(@, g.cur), !.cur = <<>>]
              /\ ph' = IF i = NM THEN "inv" ELSE "body"
  \/ /\ ph = "inv"
     /\ \/ \E it \in InvAlpha \cap (MacroItems \cup {"a", "1", "(", ")", ",", "S1", "S2", "C1", "C2"}) :
             /\ Len(g.cur) < MaxInv
             /\ (InvHead /\ g.cur = <<>>) => it \in MacroItems
             /\ BalOk(g.cur, it)
             /\ \E w \in WsChoices(g.cur, it) : g' = [g EXCEPT !.cur = Append(@, ItemTok(it, w))]
             /\ ph' = ph
        \/ /\ g.cur # <<>>
           /\ InvBal => ParDepth(g.cur) = 0
           /\ g' = g
           /\ ph' = "done"
MacRow ==
  LET env == [i \in 1..NM |-> MkDef(i, g.kinds[i], g.defs[i])]
      r == RunMac(env, g.cur)
  IN [fam |-> "mac", defs |-> [i \in 1..NM |-> DefText(env[i])], names |-> [i \in 1..NM |-> JoinC(Names[i])],
      inv |-> LineText(g.cur), st |-> r.st, exp |-> r.out, ft |-> r.ft]

(* ======================================================================= *)
(*                 #if EXPRESSIONS  (C11 6.10.1p4, 6.6, 6.5)               *)
(* ======================================================================= *)
(* Values: [t |-> "v", u |-> unsigned?, v |-> word]; UB = undefined (signed overflow, division by  *)
(* zero, shift count out of range, left shift of a negative value or into the sign bit).           *)
(* >> of a negative signed value is implementation-defined (6.5.7p5); gcc and c2mir document/use   *)
(* the arithmetic shift, which is what the spec takes.                                             *)
Val(u, v) == [t |-> "v", u |-> u, v |-> v]
UBv == [t |-> "ub", u |-> FALSE, v |-> Zero]
Bool(b) == Val(FALSE, IF b THEN One ELSE Zero)
Lit(base, usuf, v) == [op |-> "lit", base |-> base, usuf |-> usuf, v |-> v]
Un(f, a) == [op |-> "un", f |-> f, a |-> a]
Bin(f, a, b) == [op |-> "bin", f |-> f, a |-> a, b |-> b]
Cond(a, b, c) == [op |-> "cond", a |-> a, b |-> b, c |-> c]
Defd(r) == [op |-> "defd", r |-> r]          \* defined X  (r: is X defined)
Ident == [op |-> "ident"]                    \* identifier that is not a macro: replaced by 0

W2p31 == <<0, 32768, 0, 0>>
W2p32 == <<0, 0, 1, 0>>
(* The boundary grid.  txt is the source text; e its meaning built from literals.  The type of a   *)
(* literal (6.4.4.1 with all signed types = intmax_t, unsigned = uintmax_t): unsigned iff it has a *)
(* u suffix or is a hex literal that does not fit intmax_t.                                        *)
AtomDef(a) ==
  CASE a = "0" -> [txt |-> "0", e |-> Lit(10, FALSE, Zero)]
    [] a = "1" -> [txt |-> "1", e |-> Lit(10, FALSE, One)]
    [] a = "2" -> [txt |-> "2", e |-> Lit(10, FALSE, Small(2))]
    [] a = "m1" -> [txt |-> "(-1)", e |-> Un("-", Lit(10, FALSE, One))]
    [] a = "m2" -> [txt |-> "(-2)", e |-> Un("-", Lit(10, FALSE, Small(2)))]
    [] a = "3" -> [txt |-> "3", e |-> Lit(10, FALSE, Small(3))]
    [] a = "31" -> [txt |-> "31", e |-> Lit(10, FALSE, Small(31))]
    [] a = "32" -> [txt |-> "32", e |-> Lit(10, FALSE, Small(32))]
    [] a = "63" -> [txt |-> "63", e |-> Lit(10, FALSE, Small(63))]
    [] a = "64" -> [txt |-> "64", e |-> Lit(10, FALSE, Small(64))]
    [] a = "imax" -> [txt |-> "9223372036854775807", e |-> Lit(10, FALSE, MaxS)]
    [] a = "imaxx" -> [txt |-> "0x7fffffffffffffff", e |-> Lit(16, FALSE, MaxS)]
    [] a = "imin" -> [txt |-> "(-9223372036854775807-1)", e |-> Bin("-", Un("-", Lit(10, FALSE, MaxS)), Lit(10, FALSE, One))]
    [] a = "imin1" -> [txt |-> "(-9223372036854775807)", e |-> Un("-", Lit(10, FALSE, MaxS))]
    [] a = "umax" -> [txt |-> "18446744073709551615u", e |-> Lit(10, TRUE, AllOnes)]
    [] a = "umaxx" -> [txt |-> "0xffffffffffffffff", e |-> Lit(16, FALSE, AllOnes)]
    [] a = "p31" -> [txt |-> "2147483648", e |-> Lit(10, FALSE, W2p31)]
    [] a = "p31m" -> [txt |-> "2147483647", e |-> Lit(10, FALSE, <<65535, 32767, 0, 0>>)]
    [] a = "mp31" -> [txt |-> "(-2147483648)", e |-> Un("-", Lit(10, FALSE, W2p31))]
    [] a = "p32" -> [txt |-> "4294967296", e |-> Lit(10, FALSE, W2p32)]
    [] a = "p32m" -> [txt |-> "0xffffffff", e |-> Lit(16, FALSE, <<65535, 65535, 0, 0>>)]
    [] a = "p63x" -> [txt |-> "0x8000000000000000", e |-> Lit(16, FALSE, MinS)]
    [] a = "p63u" -> [txt |-> "9223372036854775808u", e |-> Lit(10, TRUE, MinS)]
    [] a = "0u" -> [txt |-> "0u", e |-> Lit(10, TRUE, Zero)]
    [] a = "1u" -> [txt |-> "1u", e |-> Lit(10, TRUE, One)]
    [] a = "2u" -> [txt |-> "2U", e |-> Lit(10, TRUE, Small(2))]
    [] a = "63u" -> [txt |-> "63u", e |-> Lit(10, TRUE, Small(63))]
    [] a = "64u" -> [txt |-> "64u", e |-> Lit(10, TRUE, Small(64))]
    [] a = "p31u" -> [txt |-> "2147483648u", e |-> Lit(10, TRUE, W2p31)]
    [] a = "p32u" -> [txt |-> "4294967296UL", e |-> Lit(10, TRUE, W2p32)]
    [] a = "imaxu" -> [txt |-> "0x7fffffffffffffffull", e |-> Lit(16, TRUE, MaxS)]
    [] a = "defD" -> [txt |-> "defined D", e |-> Defd(TRUE)]
    [] a = "defU" -> [txt |-> "defined ( U )", e |-> Defd(FALSE)]
    [] a = "U" -> [txt |-> "U", e |-> Ident]
    [] a = "D" -> [txt |-> "D", e |-> Lit(10, TRUE, Small(2))]              \* #define D 2u
    [] a = "E" -> [txt |-> "E", e |-> Un("-", Lit(10, FALSE, One))]         \* #define E (-1)
AtomNames == <<"0", "1", "2", "m1", "m2", "3", "31", "32", "63", "64", "imax", "imaxx", "imin", "imin1", "umax", "umaxx",
               "p31", "p31m", "mp31", "p32", "p32m", "p63x", "p63u", "0u", "1u", "2u", "63u", "64u", "p31u", "p32u", "imaxu",
               "defD", "defU", "U", "D", "E">>

AtomTab == [a \in {AtomNames[i] : i \in 1..Len(AtomNames)} |-> AtomDef(a)]     \* evaluated once
Atom(a) == AtomTab[a]
CmpOps == {"<", "<=", ">", ">=", "==", "!="}
(* Eval(e, dev): dev = {} is C11.  A non-empty dev names DEVIATION MODELS of the implementation    *)
(* under test that were confirmed as genuine defects; they exist only so that the harness can give *)
(* each confirmed defect its own finding key (an observed result that no model explains stays a    *)
(* VIOLATION).  With a deviation model arithmetic wraps instead of being undefined, and a          *)
(* division by zero or a bad shift count gives "any" (no prediction).                              *)
(*   "cond":  the result of c ? a : b has the type of the selected arm only                        *)
(*   "shift": << and >> apply the usual arithmetic conversions to both operands                    *)
(*   "cmp":   relational, equality and ! results keep the (converted) operand type instead of int  *)
(*   "lit32": a hex literal in (INT_MAX, UINT_MAX] is unsigned (typed like unsigned int)           *)
ANYv == [t |-> "any", u |-> FALSE, v |-> Zero]
In32u(v) == v[3] = 0 /\ v[4] = 0 /\ v[2] >= 32768
RECURSIVE UnsP(_, _), Eval(_, _)
UnsP(e, dev) ==                   \* the type, determined without evaluating (needed for ?: and unevaluated operands)
  CASE e.op = "lit" -> e.usuf \/ (e.base = 16 /\ SignBit(e.v)) \/ ("lit32" \in dev /\ e.base = 16 /\ In32u(e.v))
    [] e.op = "atom" -> UnsP(Atom(e.f).e, dev)
    [] e.op \in {"defd", "ident"} -> FALSE
    [] e.op = "un" -> IF e.f = "!" /\ "cmp" \notin dev THEN FALSE ELSE UnsP(e.a, dev)
    [] e.op = "bin" -> IF e.f \in {"&&", "||"} THEN FALSE
                       ELSE IF e.f \in CmpOps /\ "cmp" \notin dev THEN FALSE
                       ELSE IF e.f \in {"<<", ">>"} /\ "shift" \notin dev THEN UnsP(e.a, dev)  \* 6.5.7p3: type of the left operand
                       ELSE UnsP(e.a, dev) \/ UnsP(e.b, dev)                                  \* usual arithmetic conversions
    [] e.op = "cond" -> UnsP(e.b, dev) \/ UnsP(e.c, dev)                                      \* 6.5.15p5

Und(dev) == IF dev = {} THEN UBv ELSE ANYv
CmpRes(dev, u, b) == IF "cmp" \in dev THEN Val(u, IF b THEN One ELSE Zero) ELSE Bool(b)
Arith(f, u, x, y, dev) ==         \* both operands already converted to the common type
  CASE f = "+" -> IF ~u /\ AddOvf(x, y) /\ dev = {} THEN UBv ELSE Val(u, Add(x, y))
    [] f = "-" -> IF ~u /\ SubOvf(x, y) /\ dev = {} THEN UBv ELSE Val(u, Sub(x, y))
    [] f = "*" -> IF ~u /\ MulOvf(x, y) /\ dev = {} THEN UBv ELSE Val(u, Mul(x, y))
    [] f = "/" -> IF IsZero(y) \/ (~u /\ SDivOvf(x, y)) THEN Und(dev) ELSE Val(u, IF u THEN UDiv(x, y) ELSE SDiv(x, y))
    [] f = "%" -> IF IsZero(y) \/ (~u /\ SDivOvf(x, y)) THEN Und(dev) ELSE Val(u, IF u THEN URem(x, y) ELSE SRem(x, y))
    [] f = "&" -> Val(u, And(x, y))
    [] f = "|" -> Val(u, Or(x, y))
    [] f = "^" -> Val(u, Xor(x, y))
    [] f = "<" -> CmpRes(dev, u, IF u THEN ULt(x, y) ELSE SLt(x, y))
    [] f = "<=" -> CmpRes(dev, u, IF u THEN ULe(x, y) ELSE SLe(x, y))
    [] f = ">" -> CmpRes(dev, u, IF u THEN ULt(y, x) ELSE SLt(y, x))
    [] f = ">=" -> CmpRes(dev, u, IF u THEN ULe(y, x) ELSE SLe(y, x))
    [] f = "==" -> CmpRes(dev, u, x = y)
    [] f = "!=" -> CmpRes(dev, u, x # y)
Shift(f, a, b, dev) ==            \* 6.5.7
  LET u == IF "shift" \in dev THEN a.u \/ b.u ELSE a.u
      bneg == (IF "shift" \in dev THEN ~u ELSE ~b.u) /\ SignBit(b.v)
  IN IF bneg \/ ~ULt(b.v, Small(64)) THEN Und(dev)                          \* negative or >= width
     ELSE LET n == b.v[1] IN
       IF f = "<<" THEN IF u THEN Val(TRUE, Shl(a.v, n))
                        ELSE IF ShlOvf(a.v, n) /\ dev = {} THEN UBv ELSE Val(FALSE, Shl(a.v, n))
       ELSE IF u THEN Val(TRUE, LShr(a.v, n)) ELSE Val(FALSE, AShr(a.v, n))
Eval(e, dev) ==
  CASE e.op = "lit" -> Val(UnsP(e, dev), e.v)
    [] e.op = "atom" -> Eval(Atom(e.f).e, dev)
    [] e.op = "defd" -> Bool(e.r)
    [] e.op = "ident" -> Val(FALSE, Zero)
    [] e.op = "un" ->
         LET a == Eval(e.a, dev) IN
         IF a.t # "v" THEN a
         ELSE IF e.f = "-" THEN IF ~a.u /\ NegOvf(a.v) /\ dev = {} THEN UBv ELSE Val(a.u, Neg(a.v))
         ELSE IF e.f = "~" THEN Val(a.u, Not(a.v))
         ELSE IF e.f = "!" THEN CmpRes(dev, a.u, IsZero(a.v))
         ELSE a
    [] e.op = "bin" ->
         LET a == Eval(e.a, dev) IN
         IF a.t # "v" THEN a
         ELSE IF e.f = "&&" THEN IF IsZero(a.v) THEN Bool(FALSE)              \* right operand not evaluated
                                 ELSE LET b == Eval(e.b, dev) IN IF b.t # "v" THEN b ELSE Bool(~IsZero(b.v))
         ELSE IF e.f = "||" THEN IF ~IsZero(a.v) THEN Bool(TRUE)
                                 ELSE LET b == Eval(e.b, dev) IN IF b.t # "v" THEN b ELSE Bool(~IsZero(b.v))
         ELSE LET b == Eval(e.b, dev) IN
              IF b.t # "v" THEN b
              ELSE IF e.f \in {"<<", ">>"} THEN Shift(e.f, a, b, dev)
              ELSE Arith(e.f, a.u \/ b.u, a.v, b.v, dev)
    [] e.op = "cond" ->
         LET a == Eval(e.a, dev) IN
         IF a.t # "v" THEN a
         ELSE LET r == Eval(IF IsZero(a.v) THEN e.c ELSE e.b, dev) IN
              IF r.t # "v" THEN r
              ELSE IF "cond" \in dev THEN r
              ELSE Val(UnsP(e, dev), r.v)                                      \* converted to the common type of both arms

(* The reference compiler gcc gives an unevaluated x / 0 or x % 0 the type of x alone (cpplib       *)
(* returns the left operand); C11 gives it the converted type.  Where that changes the type of the *)
(* whole expression the two oracles cannot agree and the case is dropped ("Q").                     *)
RECURSIVE DivQuirk(_, _)
DivQuirk(e, live) ==
  CASE e.op = "un" -> DivQuirk(e.a, live)
    [] e.op = "bin" ->
         LET a == Eval(e.a, {}) IN
         IF e.f \in {"&&", "||"}
         THEN DivQuirk(e.a, live) \/ DivQuirk(e.b, live /\ a.t = "v" /\ (IF e.f = "&&" THEN ~IsZero(a.v) ELSE IsZero(a.v)))
         ELSE \/ DivQuirk(e.a, live) \/ DivQuirk(e.b, live)
              \/ /\ ~live /\ e.f \in {"/", "%"} /\ ~UnsP(e.a, {}) /\ UnsP(e.b, {})
                 /\ LET b == Eval(e.b, {}) IN b.t = "v" /\ IsZero(b.v)
    [] e.op = "cond" ->
         LET a == Eval(e.a, {}) IN
         DivQuirk(e.a, live) \/ DivQuirk(e.b, live /\ a.t = "v" /\ ~IsZero(a.v)) \/ DivQuirk(e.c, live /\ a.t = "v" /\ IsZero(a.v))
    [] OTHER -> FALSE

(* Three observations per expression e with value r: its truth, (e) == <literal of r>, and its      *)
(* signedness by ((e) * 0 - 1) < 0.                                                                 *)
VTxt(r) == IF r.u THEN "0x" \o Hex(r.v) \o "u"
           ELSE IF ~SignBit(r.v) THEN "0x" \o Hex(r.v)
           ELSE IF r.v = MinS THEN "(-0x7fffffffffffffff-1)"
           ELSE "(-0x" \o Hex(Neg(r.v)) \o ")"
VAst(r) == IF r.u THEN Lit(16, TRUE, r.v)
           ELSE IF ~SignBit(r.v) THEN Lit(16, FALSE, r.v)
           ELSE IF r.v = MinS THEN Bin("-", Un("-", Lit(16, FALSE, MaxS)), Lit(10, FALSE, One))
           ELSE Un("-", Lit(16, FALSE, Neg(r.v)))
Tr(v) == IF v.t = "any" THEN "?" ELSE IF v.t = "ub" THEN "!" ELSE IF IsZero(v.v) THEN "0" ELSE "1"
Obs(e, r, dev) == <<Tr(Eval(e, dev)),
                    Tr(Eval(Bin("==", e, VAst(r)), dev)),
                    Tr(Eval(Bin("<", Bin("-", Bin("*", e, Lit(10, FALSE, Zero)), Lit(10, FALSE, One)), Lit(10, FALSE, Zero)), dev))>>

(* ---- source text: minimal parentheses (by precedence) and full parentheses *)
Prec(f) == CASE f = "||" -> 2 [] f = "&&" -> 3 [] f = "|" -> 4 [] f = "^" -> 5 [] f = "&" -> 6
             [] f \in {"==", "!="} -> 7 [] f \in {"<", "<=", ">", ">="} -> 8 [] f \in {"<<", ">>"} -> 9
             [] f \in {"+", "-"} -> 10 [] f \in {"*", "/", "%"} -> 11
RECURSIVE Txt(_, _, _)
Txt(e, minp, full) ==             \* text of e where an expression of precedence >= minp is required
  LET P(p, s) == IF full \/ p < minp THEN "(" \o s \o ")" ELSE s IN
  CASE e.op = "atom" -> Atom(e.f).txt
    [] e.op = "un" -> P(12, e.f \o " " \o Txt(e.a, 12, full))
    [] e.op = "bin" -> P(Prec(e.f), Txt(e.a, Prec(e.f), full) \o " " \o e.f \o " " \o Txt(e.b, Prec(e.f) + 1, full))
    [] e.op = "cond" -> P(1, Txt(e.a, 2, full) \o " ? " \o Txt(e.b, 1, full) \o " : " \o Txt(e.c, 1, full))

(* ---- generator: the expression in prefix order; pend = depths of the operands still missing *)
UnSyms == SelectSeq(<<"u-", "u~", "u!", "u+">>, LAMBDA f : f \in OpSet)
BinSyms == SelectSeq(<<"*", "/", "%", "+", "-", "<<", ">>", "<", "<=", ">", ">=", "==", "!=", "&", "^", "|", "&&", "||">>, LAMBDA f : f \in OpSet)
AtomSyms == SelectSeq(AtomNames, LAMBDA a : a \in AtomSet)
Sym(t, f) == [t |-> t, f |-> f]
OpSyms == [i \in 1..Len(UnSyms) |-> Sym("un", UnSyms[i])] \o [i \in 1..Len(BinSyms) |-> Sym("bin", BinSyms[i])]
          \o (IF "?:" \in OpSet THEN <<Sym("cond", "?:")>> ELSE <<>>)
AllSyms == OpSyms \o [i \in 1..Len(AtomSyms) |-> Sym("atom", AtomSyms[i])]
Arity(s) == CASE s.t = "atom" -> 0 [] s.t = "un" -> 1 [] s.t = "bin" -> 2 [] s.t = "cond" -> 3
Holes(s, d) == CASE s.t = "atom" -> <<>> [] s.t = "un" -> <<d + 1>> [] s.t = "bin" -> <<d + 1, d + 1>> [] s.t = "cond" -> <<d + 1, d + 1, d + 1>>
UnF(f) == CASE f = "u-" -> "-" [] f = "u~" -> "~" [] f = "u!" -> "!" [] f = "u+" -> "+"
SymOk(s, d) == s.t = "atom" \/ d < MaxD
IfInit ==
  \E i \in 1..Len(AllSyms) :
    /\ Mine(i) /\ SymOk(AllSyms[i], 0)
    /\ MaxD >= 2 => AllSyms[i].t # "atom"           \* deep (simulation) bounds: do not spend walks on a lone atom
    /\ g = [pre |-> <<AllSyms[i]>>, pend |-> Holes(AllSyms[i], 0)]
    /\ ph = IF Arity(AllSyms[i]) = 0 THEN "done" ELSE "gen"
IfNext ==
  \/ /\ ph = "ready" /\ ph' = "done" /\ g' = g       \* a step of its own: in simulation only the chosen tree is evaluated
  \/ /\ ph = "gen"
     /\ \E i \in 1..Len(AllSyms) :
          LET s == AllSyms[i]
              d == Head(g.pend)
          IN /\ SymOk(s, d)
             /\ g' = [pre |-> Append(g.pre, s), pend |-> Holes(s, d) \o Tail(g.pend)]
             /\ ph' = IF g'.pend = <<>> THEN "ready" ELSE "gen"
RECURSIVE ParseAt(_, _)
ParseAt(pre, i) ==                \* [e |-> tree, n |-> index after it]
  LET s == pre[i] IN
  CASE s.t = "atom" -> [e |-> [op |-> "atom", f |-> s.f], n |-> i + 1]
    [] s.t = "un" -> LET a == ParseAt(pre, i + 1) IN [e |-> Un(UnF(s.f), a.e), n |-> a.n]
    [] s.t = "bin" -> LET a == ParseAt(pre, i + 1)
                          b == ParseAt(pre, a.n) IN [e |-> Bin(s.f, a.e, b.e), n |-> b.n]
    [] s.t = "cond" -> LET a == ParseAt(pre, i + 1)
                           b == ParseAt(pre, a.n)
                           c == ParseAt(pre, b.n) IN [e |-> Cond(a.e, b.e, c.e), n |-> c.n]
AllDev == {"cond", "shift", "cmp", "lit32"}
IfRow ==
  LET e == ParseAt(g.pre, 1).e
      r == Eval(e, {})
      o == <<Tr(r), "1", IF r.u THEN "0" ELSE "1">>      \* = Obs(e, r, {}): (e) == <its value> holds, signed iff ~u
      oa == Obs(e, r, AllDev)
  IN IF r.t = "ub" THEN [fam |-> "if", min |-> Txt(e, 1, FALSE), st |-> "U"]
     ELSE IF DivQuirk(e, TRUE) THEN [fam |-> "if", min |-> Txt(e, 1, FALSE), st |-> "Q"]
     ELSE [fam |-> "if", min |-> Txt(e, 1, FALSE), full |-> Txt(e, 1, TRUE), n |-> Len(g.pre), st |-> "D",
           u |-> r.u, v |-> Hex(r.v), vtxt |-> VTxt(r), obs |-> o,
           alt |-> IF oa = o THEN [all |-> oa]
                   ELSE [cond |-> Obs(e, r, {"cond"}), shift |-> Obs(e, r, {"shift"}), cmp |-> Obs(e, r, {"cmp"}),
                         lit32 |-> Obs(e, r, {"lit32"}), all |-> oa]]

(* ======================================================================= *)
(*                  CONDITIONAL INCLUSION  (C11 6.10.1)                    *)
(* ======================================================================= *)
(* g = [lines, stk, dset, out, st]; one stack entry per open #if:                                   *)
(*   par: the enclosing group is being processed; taken: a group of this section was selected;      *)
(*   cur: the current group is being processed; els: #else seen.                                    *)
(* After every directive line the text has a marker line m<k>; out collects the markers of the      *)
(* groups that are processed.  "def"/"undef" lines (#define D 1 / #undef D) act only in processed   *)
(* groups.  A controlling expression that is evaluated although it is "BAD" (1/0) makes the case    *)
(* ill-formed; in a skipped nested section it is never evaluated (6.10.1p6); on an #elif after a    *)
(* taken group C11 does not say whether it is evaluated -> Unspecified.                             *)
CondTxt(c) == CASE c = "0" -> "0" [] c = "1" -> "1" [] c = "defD" -> "defined D" [] c = "ndefD" -> "! defined ( D )"
                [] c = "U" -> "U" [] c = "D" -> "D" [] c = "BAD" -> "( 1 / 0 )" [] c = "m1" -> "-1" [] c = "0u" -> "0u"
CondVal(c, dset) == CASE c = "0" -> FALSE [] c = "1" -> TRUE [] c = "defD" -> dset [] c = "ndefD" -> ~dset
                      [] c = "U" -> FALSE [] c = "D" -> dset [] c = "BAD" -> FALSE [] c = "m1" -> TRUE [] c = "0u" -> FALSE
Active(stk) == stk = <<>> \/ Last(stk).cur
CondSeq == SelectSeq(<<"0", "1", "defD", "ndefD", "U", "D", "BAD", "m1", "0u">>, LAMBDA c : c \in CondSet)
IfOpeners == [i \in 1..Len(CondSeq) |-> [d |-> "if", c |-> CondSeq[i]]]
             \o (IF "ifdef" \in CondSet THEN <<[d |-> "ifdef", c |-> "D"], [d |-> "ifndef", c |-> "D"]>> ELSE <<>>)
CondOthers ==
  {[d |-> "elif", c |-> c] : c \in (IF "elif" \in LineSet THEN CondSet \ {"ifdef"} ELSE {})}
  \cup {[d |-> x, c |-> ""] : x \in LineSet \ {"elif"}}
DirText(l) == CASE l.d = "if" -> "#if " \o CondTxt(l.c) [] l.d = "ifdef" -> "#ifdef D" [] l.d = "ifndef" -> "# ifndef D"
                [] l.d = "elif" -> "#elif " \o CondTxt(l.c) [] l.d = "else" -> "#else" [] l.d = "endif" -> "#endif"
                [] l.d = "def" -> "#define D 1" [] l.d = "undef" -> "#undef D"
CondLegal(s, l) ==
  CASE l.d \in {"if", "ifdef", "ifndef"} -> Len(s.stk) < MaxNest
    [] l.d \in {"elif", "else"} -> s.stk # <<>> /\ ~Last(s.stk).els
    [] l.d = "endif" -> s.stk # <<>>
    [] OTHER -> TRUE
Worse(a, b) == IF a = "I" \/ b = "I" THEN "I" ELSE IF a = "U" \/ b = "U" THEN "U" ELSE "D"
CondApply(s, l) ==                \* the conditional-group stack machine, one directive
  LET act == Active(s.stk)
      top == Last(s.stk)
      k == Len(s.lines) + 1
      evalst == IF l.c = "BAD" THEN "I" ELSE "D"
      s1 ==
        CASE l.d \in {"if", "ifdef", "ifndef"} ->
               LET v == IF l.d = "if" THEN CondVal(l.c, s.dset) ELSE IF l.d = "ifdef" THEN s.dset ELSE ~s.dset IN
               IF act THEN [s EXCEPT !.stk = Append(@, [par |-> TRUE, taken |-> v, cur |-> v, els |-> FALSE]),
                                     !.st = Worse(@, IF l.d = "if" THEN evalst ELSE "D")]
               ELSE [s EXCEPT !.stk = Append(@, [par |-> FALSE, taken |-> FALSE, cur |-> FALSE, els |-> FALSE])]
          [] l.d = "elif" ->
               IF ~top.par THEN s
               ELSE IF top.taken THEN [s EXCEPT !.stk[Len(s.stk)].cur = FALSE, !.st = Worse(@, IF l.c = "BAD" THEN "U" ELSE "D")]
               ELSE LET v == CondVal(l.c, s.dset) IN
                    [s EXCEPT !.stk[Len(s.stk)].cur = v, !.stk[Len(s.stk)].taken = v, !.st = Worse(@, evalst)]
          [] l.d = "else" ->
               [s EXCEPT !.stk[Len(s.stk)] = [par |-> top.par, taken |-> TRUE, cur |-> top.par /\ ~top.taken, els |-> TRUE]]
          [] l.d = "endif" -> [s EXCEPT !.stk = Front(@)]
          [] l.d = "def" -> IF act THEN [s EXCEPT !.dset = TRUE] ELSE s
          [] l.d = "undef" -> IF act THEN [s EXCEPT !.dset = FALSE] ELSE s
  IN [s1 EXCEPT !.lines = Append(@, DirText(l)),
                !.out = IF Active(s1.stk) THEN Append(@, "m" \o ToString(k)) ELSE @]
Cond0 == [lines |-> <<>>, stk |-> <<>>, dset |-> FALSE, out |-> <<>>, st |-> "D"]
CondInit ==
  \E i \in 1..Len(IfOpeners) : Mine(i) /\ g = CondApply(Cond0, IfOpeners[i]) /\ ph = "gen"
CondNext ==
  /\ Len(g.lines) < MaxLines
  /\ \E l \in {IfOpeners[i] : i \in 1..Len(IfOpeners)} \cup CondOthers :
       /\ CondLegal(g, l)
       /\ g' = CondApply(g, l)
       /\ ph' = IF g'.stk = <<>> /\ l.d = "endif" THEN "done" ELSE "gen"
CondRow == [fam |-> "cond", lines |-> g.lines, st |-> g.st, exp |-> g.out]

(* ======================================================================= *)
(*              LEXICAL FAMILY: pp-numbers next to macro names             *)
(* ======================================================================= *)
(* The case is a line of CHARACTERS built from the chunks in InvAlpha (at most MaxInv chunks), lexed by    *)
(* LexLine and then macro-replaced in the fixed environment                                                *)
(*   #define X 1   #define S(x) #x   #define T(x) S(x)   #define C(x,y) x ## y   #define I(x) x            *)
(* in one of the contexts of KindSet: "plain" text, "arg" I( text ), "str" S( text ), "xstr" T( text ),    *)
(* "catl" C( text , 1 ), "catr" C( 0x , text ), "cate" C( 1e , text ).  0xE+X is ONE pp-number, so its X   *)
(* is not the macro X.  A case whose expected output, printed with its white space, does not lex back to   *)
(* the same tokens is dropped ("G"): c2m -E prints tokens without inserting separators.                    *)
Ch(str) == CASE str = "0x" -> <<"0", "x">> [] str = "1e" -> <<"1", "e">> [] str = "@s@" -> <<"@", "s", "@">>
             [] str = "'c'" -> <<"'", "c", "'">> [] OTHER -> <<str>>
LexTok(str) == Head(LexLine(Ch(str)))
LexEnv == <<[name |-> <<"X">>, fl |-> FALSE, params |-> <<>>, va |-> FALSE, body |-> <<Tok("num", <<"1">>, TRUE)>>],
            [name |-> <<"S">>, fl |-> TRUE, params |-> <<<<"x">>>>, va |-> FALSE, body |-> <<Tok("pu", <<"#">>, TRUE), Tok("id", <<"x">>, TRUE)>>],
            [name |-> <<"T">>, fl |-> TRUE, params |-> <<<<"x">>>>, va |-> FALSE,
             body |-> <<Tok("id", <<"S">>, TRUE), Tok("pu", <<"(">>, TRUE), Tok("id", <<"x">>, TRUE), Tok("pu", <<")">>, TRUE)>>],
            [name |-> <<"C">>, fl |-> TRUE, params |-> <<<<"x">>, <<"y">>>>, va |-> FALSE,
             body |-> <<Tok("id", <<"x">>, TRUE), Tok("pu", <<"#", "#">>, TRUE), Tok("id", <<"y">>, TRUE)>>],
            [name |-> <<"I">>, fl |-> TRUE, params |-> <<<<"x">>>>, va |-> FALSE, body |-> <<Tok("id", <<"x">>, TRUE)>>]>>
LexCtxs == SelectSeq(<<"plain", "plaink", "arg", "str", "xstr", "catl", "catr", "cate">>, LAMBDA k : k \in KindSet)
LexChunks == SelectSeq(<<"0x", "0", "1", "5", "8", ".", "e", "E", "p", "P", "x", "a", "u", "U", "L", "@s@", "'c'", "+", "-", "%", ":", "<", ">", "#", "X", " ">>, LAMBDA k : k \in InvAlpha)
LexSrc(ctx, txt) ==
  CASE ctx = "plain" -> txt
    [] ctx = "plaink" -> <<"k", " ">> \o txt          \* text that may start with # or %: must not start the line
    [] ctx = "arg" -> <<"I", "(", " ">> \o txt \o <<" ", ")">>
    [] ctx = "str" -> <<"S", "(", " ">> \o txt \o <<" ", ")">>
    [] ctx = "xstr" -> <<"T", "(", " ">> \o txt \o <<" ", ")">>
    [] ctx = "catl" -> <<"C", "(", " ">> \o txt \o <<" ", ",", " ", "1", " ", ")">>
    [] ctx = "catr" -> <<"C", "(", " ", "0", "x", " ", ",", " ">> \o txt \o <<" ", ")">>
    [] ctx = "cate" -> <<"C", "(", " ", "1", "e", " ", ",", " ">> \o txt \o <<" ", ")">>
LexInit == \E i \in 1..Len(LexCtxs), j \in 1..Len(LexChunks) :
             /\ Mine(i * Len(LexChunks) + j) /\ LexChunks[j] # " "
             /\ g = [ctx |-> LexCtxs[i], txt |-> Ch(LexChunks[j]), n |-> 1] /\ ph = "gen"
LexNext ==
  \/ /\ ph = "gen" /\ g.n < MaxInv
     /\ \E j \in 1..Len(LexChunks) :
          /\ LexChunks[j] = " " => Last(g.txt) # " "
          /\ g' = [g EXCEPT !.txt = @ \o Ch(LexChunks[j]), !.n = @ + 1] /\ ph' = "gen"
  \/ /\ ph = "gen" /\ Last(g.txt) # " " /\ g' = g /\ ph' = "done"
LexRow ==
  LET src == LexSrc(g.ctx, g.txt)
      toks == LexLine(src)
      r == RunMac(LexEnv, toks)
      bad == \E i \in 1..Len(toks) : toks[i].k = "bad"
  IN IF bad \/ r.st # "D" THEN [fam |-> "lex", src |-> JoinC(src), st |-> IF bad THEN "I" ELSE r.st]
     ELSE IF Spell(LexLine(TextOf(r.toks))) # r.out THEN [fam |-> "lex", src |-> JoinC(src), st |-> "G"]
     ELSE [fam |-> "lex", src |-> JoinC(src), st |-> "D", exp |-> r.out, ntok |-> Len(toks),
           ft |-> r.ft \cup (IF \E i \in 1..(Len(toks) - 1) : IsPu(toks[i], <<".">>) /\ toks[i + 1].s[1] = "." /\ ~toks[i + 1].ws
                             THEN {"lex_dot_dot"} ELSE {})             \* a . directly followed by . or a pp-number .d (not ...)
                       \cup (IF \E i \in 1..Len(toks) : toks[i].k = "num" /\ \E j \in 2..Len(toks[i].s) : toks[i].s[j] \in {"+", "-"}
                             THEN {"lex_num_with_sign"} ELSE {})
                       \cup (IF \E i \in 1..Len(toks) : toks[i].k = "id" /\ Len(toks[i].s) >= 2 /\ toks[i].s[1] = "u" /\ toks[i].s[2] = "8"
                             THEN {"lex_u8_identifier"} ELSE {})            \* u8 that is not the prefix of a string literal
                       \cup (IF \E i \in 1..Len(toks) : toks[i].k \in {"str", "chr"} /\ toks[i].s[1] \in {"u", "U", "L"}
                             THEN {"lex_prefixed_literal"} ELSE {})
                       \cup (IF \E i \in 1..(Len(toks) - 1) : IsPu(toks[i], <<"%", ":">>) /\ ~toks[i + 1].ws /\ toks[i + 1].s[1] = "%"
                             THEN {"lex_percent_colon_percent"} ELSE {})    \* %:% that is not the beginning of %:%:
                       \cup (IF \E i \in 1..Len(toks) : toks[i].k = "pu" /\ toks[i].s \in {<<"%", ":">>, <<"%", ":", "%", ":">>, <<"<", ":">>, <<":", ">">>, <<"<", "%">>, <<"%", ">">>}
                             THEN {"lex_digraph"} ELSE {})]

(* ======================================================================= *)
(*      FILE FAMILY: comments, new-lines and digraphs in the line structure *)
(* ======================================================================= *)
(* The case is a small source FILE of characters (~ = new-line): a skeleton from Skel with, at every       *)
(* marked position, a gap chosen from a class of white space: nothing, a space, a one-line comment, a     *)
(* block comment that spans two lines, a // comment, a new-line.  The file is lexed as a whole (comments   *)
(* become one space BEFORE directives are recognised, 5.1.1.2), cut into lines at the new-lines outside    *)
(* comments, and processed: #define (object/function-like, %: and %:%: digraphs), #undef, #if/#ifdef/      *)
(* #ifndef/#elif/#else/#endif with defined, !, &&, ||, #include of the fixed header (one token inc_tok);  *)
(* consecutive text lines are macro-replaced together, so an invocation may span lines (6.10.3p10).        *)
GapCh(n) == CASE n = "no" -> <<>> [] n = "sp" -> <<" ">> [] n = "bc" -> <<"/", "*", "c", "*", "/">>
              [] n = "bn" -> <<"/", "*", "c", "~", "d", "*", "/">> [] n = "lc" -> <<" ", "/", "/", "c">>
              [] n = "nl" -> <<"~">> [] n = "snl" -> <<" ", "~", " ">>
GapClass(c) == CASE c = "d" -> <<"sp", "bc", "bn">>             \* inside a directive, where separation is needed
                 [] c = "o" -> <<"no", "sp", "bn">>             \* inside a directive, optional
                 [] c = "e" -> <<"no", "bc", "bn", "lc">>       \* at the end of a directive line
                 [] c = "a" -> <<"no", "sp", "nl", "snl", "bn">> \* in and around an argument list
Skel(k) ==
  CASE k = "def_obj" ->
     <<[t |-> "f", c |-> "", v |-> <<"#">>],
       [t |-> "s", c |-> "o", v |-> <<>>],
       [t |-> "f", c |-> "", v |-> <<"d", "e", "f", "i", "n", "e">>],
       [t |-> "s", c |-> "d", v |-> <<>>],
       [t |-> "f", c |-> "", v |-> <<"A">>],
       [t |-> "s", c |-> "d", v |-> <<>>],
       [t |-> "f", c |-> "", v |-> <<"1">>],
       [t |-> "s", c |-> "o", v |-> <<>>],
       [t |-> "f", c |-> "", v |-> <<"+">>],
       [t |-> "s", c |-> "o", v |-> <<>>],
       [t |-> "f", c |-> "", v |-> <<"2">>],
       [t |-> "s", c |-> "e", v |-> <<>>],
       [t |-> "f", c |-> "", v |-> <<"~", "A", "~">>]>>
  [] k = "def_fn" ->
     <<[t |-> "f", c |-> "", v |-> <<"#", "d", "e", "f", "i", "n", "e">>],
       [t |-> "s", c |-> "d", v |-> <<>>],
       [t |-> "f", c |-> "", v |-> <<"F", "(">>],
       [t |-> "s", c |-> "o", v |-> <<>>],
       [t |-> "f", c |-> "", v |-> <<"x">>],
       [t |-> "s", c |-> "o", v |-> <<>>],
       [t |-> "f", c |-> "", v |-> <<",">>],
       [t |-> "s", c |-> "o", v |-> <<>>],
       [t |-> "f", c |-> "", v |-> <<"y">>],
       [t |-> "s", c |-> "o", v |-> <<>>],
       [t |-> "f", c |-> "", v |-> <<")">>],
       [t |-> "s", c |-> "d", v |-> <<>>],
       [t |-> "f", c |-> "", v |-> <<"x", "-", "y">>],
       [t |-> "s", c |-> "e", v |-> <<>>],
       [t |-> "f", c |-> "", v |-> <<"~", "F", "(", "1", ",", "2", ")", "~">>]>>
  [] k = "call2" ->
     <<[t |-> "f", c |-> "", v |-> <<"#", "d", "e", "f", "i", "n", "e", " ", "F", "(", "x", ",", "y", ")", " ", "[", "x", "|", "y", "]", "~", "F">>],
       [t |-> "s", c |-> "a", v |-> <<>>],
       [t |-> "f", c |-> "", v |-> <<"(">>],
       [t |-> "s", c |-> "a", v |-> <<>>],
       [t |-> "f", c |-> "", v |-> <<"1">>],
       [t |-> "s", c |-> "a", v |-> <<>>],
       [t |-> "f", c |-> "", v |-> <<",">>],
       [t |-> "s", c |-> "a", v |-> <<>>],
       [t |-> "f", c |-> "", v |-> <<"2">>],
       [t |-> "s", c |-> "a", v |-> <<>>],
       [t |-> "f", c |-> "", v |-> <<")", "~">>]>>
  [] k = "call1" ->
     <<[t |-> "f", c |-> "", v |-> <<"#", "d", "e", "f", "i", "n", "e", " ", "H", "(", "x", ")", " ", "<", "x", ">", "~", "#", "d", "e", "f", "i", "n", "e", " ", "A", " ", "1", "~", "H">>],
       [t |-> "s", c |-> "a", v |-> <<>>],
       [t |-> "f", c |-> "", v |-> <<"(">>],
       [t |-> "s", c |-> "a", v |-> <<>>],
       [t |-> "f", c |-> "", v |-> <<"A">>],
       [t |-> "s", c |-> "a", v |-> <<>>],
       [t |-> "f", c |-> "", v |-> <<")", " ", "H", "(">>],
       [t |-> "s", c |-> "a", v |-> <<>>],
       [t |-> "f", c |-> "", v |-> <<")", "~">>]>>
  [] k = "call0" ->
     <<[t |-> "f", c |-> "", v |-> <<"#", "d", "e", "f", "i", "n", "e", " ", "Z", "(", ")", " ", "1", "~", "Z">>],
       [t |-> "s", c |-> "a", v |-> <<>>],
       [t |-> "f", c |-> "", v |-> <<"(">>],
       [t |-> "s", c |-> "a", v |-> <<>>],
       [t |-> "f", c |-> "", v |-> <<")", " ", "Z", "(">>],
       [t |-> "s", c |-> "a", v |-> <<>>],
       [t |-> "f", c |-> "", v |-> <<")">>],
       [t |-> "s", c |-> "a", v |-> <<>>],
       [t |-> "f", c |-> "", v |-> <<"+", "~">>]>>
  [] k = "if_expr" ->
     <<[t |-> "f", c |-> "", v |-> <<"#", "d", "e", "f", "i", "n", "e", " ", "L", " ", "1", "~", "#">>],
       [t |-> "s", c |-> "o", v |-> <<>>],
       [t |-> "f", c |-> "", v |-> <<"i", "f">>],
       [t |-> "s", c |-> "d", v |-> <<>>],
       [t |-> "f", c |-> "", v |-> <<"d", "e", "f", "i", "n", "e", "d", "(", "L", ")">>],
       [t |-> "s", c |-> "d", v |-> <<>>],
       [t |-> "f", c |-> "", v |-> <<"&", "&">>],
       [t |-> "s", c |-> "d", v |-> <<>>],
       [t |-> "f", c |-> "", v |-> <<"d", "e", "f", "i", "n", "e", "d">>],
       [t |-> "s", c |-> "d", v |-> <<>>],
       [t |-> "f", c |-> "", v |-> <<"N">>],
       [t |-> "s", c |-> "e", v |-> <<>>],
       [t |-> "f", c |-> "", v |-> <<"~", "t", "~", "#", "e", "l", "s", "e", "~", "e", "~", "#", "e", "n", "d", "i", "f", "~">>]>>
  [] k = "elif" ->
     <<[t |-> "f", c |-> "", v |-> <<"#", "i", "f", " ", "0", "~", "a", "~", "#">>],
       [t |-> "s", c |-> "o", v |-> <<>>],
       [t |-> "f", c |-> "", v |-> <<"e", "l", "i", "f">>],
       [t |-> "s", c |-> "d", v |-> <<>>],
       [t |-> "f", c |-> "", v |-> <<"1">>],
       [t |-> "s", c |-> "d", v |-> <<>>],
       [t |-> "f", c |-> "", v |-> <<"|", "|">>],
       [t |-> "s", c |-> "d", v |-> <<>>],
       [t |-> "f", c |-> "", v |-> <<"0">>],
       [t |-> "s", c |-> "e", v |-> <<>>],
       [t |-> "f", c |-> "", v |-> <<"~", "b", "~", "#", "e", "l", "s", "e", "~", "c", "~", "#", "e", "n", "d", "i", "f", "~">>]>>
  [] k = "else_end" ->
     <<[t |-> "f", c |-> "", v |-> <<"#", "i", "f", " ", "0", "~", "a", "~", "#">>],
       [t |-> "s", c |-> "o", v |-> <<>>],
       [t |-> "f", c |-> "", v |-> <<"e", "l", "s", "e">>],
       [t |-> "s", c |-> "e", v |-> <<>>],
       [t |-> "f", c |-> "", v |-> <<"~", "c", "~", "#">>],
       [t |-> "s", c |-> "o", v |-> <<>>],
       [t |-> "f", c |-> "", v |-> <<"e", "n", "d", "i", "f">>],
       [t |-> "s", c |-> "e", v |-> <<>>],
       [t |-> "f", c |-> "", v |-> <<"~", "d", "~">>]>>
  [] k = "ifdef" ->
     <<[t |-> "f", c |-> "", v |-> <<"#", "d", "e", "f", "i", "n", "e", " ", "L", " ", "1", "~", "#">>],
       [t |-> "s", c |-> "o", v |-> <<>>],
       [t |-> "f", c |-> "", v |-> <<"i", "f", "d", "e", "f">>],
       [t |-> "s", c |-> "d", v |-> <<>>],
       [t |-> "f", c |-> "", v |-> <<"L">>],
       [t |-> "s", c |-> "e", v |-> <<>>],
       [t |-> "f", c |-> "", v |-> <<"~", "t", "~", "#", "e", "n", "d", "i", "f", "~", "#">>],
       [t |-> "s", c |-> "o", v |-> <<>>],
       [t |-> "f", c |-> "", v |-> <<"i", "f", "n", "d", "e", "f">>],
       [t |-> "s", c |-> "d", v |-> <<>>],
       [t |-> "f", c |-> "", v |-> <<"L">>],
       [t |-> "s", c |-> "e", v |-> <<>>],
       [t |-> "f", c |-> "", v |-> <<"~", "n", "~", "#", "e", "n", "d", "i", "f", "~">>]>>
  [] k = "undef" ->
     <<[t |-> "f", c |-> "", v |-> <<"#", "d", "e", "f", "i", "n", "e", " ", "A", " ", "1", "~", "#">>],
       [t |-> "s", c |-> "o", v |-> <<>>],
       [t |-> "f", c |-> "", v |-> <<"u", "n", "d", "e", "f">>],
       [t |-> "s", c |-> "d", v |-> <<>>],
       [t |-> "f", c |-> "", v |-> <<"A">>],
       [t |-> "s", c |-> "e", v |-> <<>>],
       [t |-> "f", c |-> "", v |-> <<"~", "A", "~">>]>>
  [] k = "include" ->
     <<[t |-> "f", c |-> "", v |-> <<"#">>],
       [t |-> "s", c |-> "o", v |-> <<>>],
       [t |-> "f", c |-> "", v |-> <<"i", "n", "c", "l", "u", "d", "e">>],
       [t |-> "s", c |-> "d", v |-> <<>>],
       [t |-> "f", c |-> "", v |-> <<"@", "c", "0", "9", "i", "n", "c", ".", "h", "@">>],
       [t |-> "s", c |-> "e", v |-> <<>>],
       [t |-> "f", c |-> "", v |-> <<"~", "x", "~">>]>>
  [] k = "digraph" ->
     <<[t |-> "f", c |-> "", v |-> <<"%", ":">>],
       [t |-> "s", c |-> "o", v |-> <<>>],
       [t |-> "f", c |-> "", v |-> <<"d", "e", "f", "i", "n", "e">>],
       [t |-> "s", c |-> "d", v |-> <<>>],
       [t |-> "f", c |-> "", v |-> <<"D", "(", "x", ")">>],
       [t |-> "s", c |-> "d", v |-> <<>>],
       [t |-> "f", c |-> "", v |-> <<"%", ":", "x">>],
       [t |-> "s", c |-> "d", v |-> <<>>],
       [t |-> "f", c |-> "", v |-> <<"1", " ", "x">>],
       [t |-> "s", c |-> "o", v |-> <<>>],
       [t |-> "f", c |-> "", v |-> <<"%", ":", "%", ":">>],
       [t |-> "s", c |-> "o", v |-> <<>>],
       [t |-> "f", c |-> "", v |-> <<"x">>],
       [t |-> "s", c |-> "e", v |-> <<>>],
       [t |-> "f", c |-> "", v |-> <<"~", "D", "(", "p", ")", " ", "<", ":", "1", ":", ">", " ", "<", "%", "%", ">", "~">>]>>
  [] k = "argcmt" ->
     <<[t |-> "f", c |-> "", v |-> <<"#", "d", "e", "f", "i", "n", "e", " ", "F", "(", "x", ",", "y", ")", " ", "[", "x", "|", "y", "]", "~", "#", "d", "e", "f", "i", "n", "e", " ", "S", "(", "x", ")", " ", "#", "x", "~", "S", "(">>],
       [t |-> "s", c |-> "a", v |-> <<>>],
       [t |-> "f", c |-> "", v |-> <<"p">>],
       [t |-> "s", c |-> "a", v |-> <<>>],
       [t |-> "f", c |-> "", v |-> <<"q">>],
       [t |-> "s", c |-> "a", v |-> <<>>],
       [t |-> "f", c |-> "", v |-> <<")", " ", "F", "(">>],
       [t |-> "s", c |-> "a", v |-> <<>>],
       [t |-> "f", c |-> "", v |-> <<",">>],
       [t |-> "s", c |-> "a", v |-> <<>>],
       [t |-> "f", c |-> "", v |-> <<")", "~">>]>>
SkelNames == SelectSeq(<<"def_obj", "def_fn", "call2", "call1", "call0", "if_expr", "elif", "else_end", "ifdef", "undef", "include", "digraph", "argcmt">>, LAMBDA k : k \in KindSet)
FileInit == \E i \in 1..Len(SkelNames) : Mine(i) /\ g = [sk |-> SkelNames[i], i |-> 1, txt |-> <<>>] /\ ph = "gen"
FileNext ==
  /\ ph = "gen"
  /\ LET sk == Skel(g.sk) IN
     IF g.i > Len(sk) THEN g' = g /\ ph' = "done"
     ELSE LET sg == sk[g.i] IN
          IF sg.t = "f" THEN g' = [g EXCEPT !.i = @ + 1, !.txt = @ \o sg.v] /\ ph' = "gen"
          ELSE \E j \in 1..Len(GapClass(sg.c)) :
                 /\ GapClass(sg.c)[j] \in GapSet
                 /\ g' = [g EXCEPT !.i = @ + 1, !.txt = @ \o GapCh(GapClass(sg.c)[j])] /\ ph' = "gen"

RECURSIVE CutLines(_, _)
CutLines(ts, cur) ==                  \* lines = maximal runs of tokens; a token with nl starts a new one
  IF ts = <<>> THEN (IF cur = <<>> THEN <<>> ELSE <<cur>>)
  ELSE IF Head(ts).nl /\ cur # <<>> THEN <<cur>> \o CutLines(Tail(ts), <<Head(ts)>>)
  ELSE CutLines(Tail(ts), Append(cur, Head(ts)))

(* ---- #if expressions of this family: defined, macros, numbers, identifiers = 0, ! && || ( ) *)
RECURSIVE ReplDefined(_, _)
ReplDefined(env, ts) ==               \* 6.10.1p1: defined X and defined ( X ) before macro replacement
  IF ts = <<>> THEN <<>>
  ELSE IF Head(ts).k = "id" /\ Head(ts).s = <<"d", "e", "f", "i", "n", "e", "d">> THEN
    LET one(sp) == Tok("num", IF DefIdx([env |-> env], sp) # 0 THEN <<"1">> ELSE <<"0">>, TRUE) IN
    IF Len(ts) >= 2 /\ ts[2].k = "id" THEN <<one(ts[2].s)>> \o ReplDefined(env, SubSeq(ts, 3, Len(ts)))
    ELSE IF Len(ts) >= 4 /\ IsPu(ts[2], <<"(">>) /\ ts[3].k = "id" /\ IsPu(ts[4], <<")">>)
         THEN <<one(ts[3].s)>> \o ReplDefined(env, SubSeq(ts, 5, Len(ts)))
    ELSE <<ErrTok("I")>>
  ELSE <<Head(ts)>> \o ReplDefined(env, Tail(ts))
RECURSIVE POr(_, _), PAnd(_, _), PUn(_, _)
PFail == [ok |-> FALSE, v |-> FALSE, i |-> 0]
PUn(ts, i) ==
  IF i > Len(ts) THEN PFail
  ELSE IF IsPu(ts[i], <<"!">>) THEN LET r == PUn(ts, i + 1) IN IF r.ok THEN [r EXCEPT !.v = ~r.v] ELSE PFail
  ELSE IF IsPu(ts[i], <<"(">>) THEN LET r == POr(ts, i + 1) IN
       IF r.ok /\ r.i <= Len(ts) /\ IsPu(ts[r.i], <<")">>) THEN [r EXCEPT !.i = @ + 1] ELSE PFail
  ELSE IF ts[i].k = "num" THEN [ok |-> TRUE, v |-> ts[i].s # <<"0">>, i |-> i + 1]
  ELSE IF ts[i].k = "id" THEN [ok |-> TRUE, v |-> FALSE, i |-> i + 1]          \* 6.10.1p4: remaining identifiers are 0
  ELSE PFail
PAnd(ts, i) == LET a == PUn(ts, i) IN
  IF ~a.ok THEN PFail
  ELSE IF a.i <= Len(ts) /\ IsPu(ts[a.i], <<"&", "&">>) THEN LET b == PAnd(ts, a.i + 1) IN IF b.ok THEN [b EXCEPT !.v = a.v /\ b.v] ELSE PFail
  ELSE a
POr(ts, i) == LET a == PAnd(ts, i) IN
  IF ~a.ok THEN PFail
  ELSE IF a.i <= Len(ts) /\ IsPu(ts[a.i], <<"|", "|">>) THEN LET b == POr(ts, a.i + 1) IN IF b.ok THEN [b EXCEPT !.v = a.v \/ b.v] ELSE PFail
  ELSE a
EvalIf(env, ts) ==                    \* [ok, v]
  LET d == ReplDefined(env, ts)
      x == IF AnyErr(d) THEN d ELSE Expand([env |-> env, pol |-> "A"], d).o
      r == IF AnyErr(x) \/ x = <<>> THEN PFail ELSE POr(x, 1)
  IN [ok |-> r.ok /\ r.i = Len(x) + 1, v |-> r.v]

(* ---- #define *)
RECURSIVE Params(_, _, _)
Params(d, i, ps) ==                   \* d[i-1] was ( or , ; returns [ok, ps, va, nxt]
  IF i > Len(d) THEN [ok |-> FALSE]
  ELSE IF IsPu(d[i], <<")">>) /\ ps = <<>> /\ IsPu(d[i - 1], <<"(">>) THEN [ok |-> TRUE, ps |-> ps, va |-> FALSE, nxt |-> i + 1]
  ELSE IF IsPu(d[i], <<".", ".", ".">>) /\ i < Len(d) /\ IsPu(d[i + 1], <<")">>) THEN [ok |-> TRUE, ps |-> ps, va |-> TRUE, nxt |-> i + 2]
  ELSE IF d[i].k = "id" /\ i < Len(d) /\ IsPu(d[i + 1], <<")">>) THEN [ok |-> TRUE, ps |-> Append(ps, d[i].s), va |-> FALSE, nxt |-> i + 2]
  ELSE IF d[i].k = "id" /\ i < Len(d) /\ IsPu(d[i + 1], <<",">>) THEN Params(d, i + 2, Append(ps, d[i].s))
  ELSE [ok |-> FALSE]
MkMacro(d) ==                         \* d = the tokens after "define"; [ok, m]
  IF d = <<>> \/ d[1].k # "id" THEN [ok |-> FALSE]
  ELSE IF Len(d) >= 2 /\ IsPu(d[2], <<"(">>) /\ ~d[2].ws THEN                   \* ( immediately after the name: function-like (6.10.3p10)
    LET p == Params(d, 3, <<>>) IN
    IF ~p.ok THEN [ok |-> FALSE]
    ELSE [ok |-> TRUE, m |-> [name |-> d[1].s, fl |-> TRUE, params |-> p.ps, va |-> p.va, body |-> SubSeq(d, p.nxt, Len(d))]]
  ELSE [ok |-> TRUE, m |-> [name |-> d[1].s, fl |-> FALSE, params |-> <<>>, va |-> FALSE, body |-> SubSeq(d, 2, Len(d))]]
BodyWf(m) == m.body = <<>> \/ (~IsPaste(m.body[1]) /\ ~IsPaste(Last(m.body)))

IncToks == <<[Tok("id", <<"i", "n", "c", "_", "t", "o", "k">>, TRUE) EXCEPT !.nl = TRUE]>>
DirName(str) == CASE str = "define" -> <<"d", "e", "f", "i", "n", "e">> [] str = "undef" -> <<"u", "n", "d", "e", "f">>
                [] str = "if" -> <<"i", "f">> [] str = "ifdef" -> <<"i", "f", "d", "e", "f">> [] str = "ifndef" -> <<"i", "f", "n", "d", "e", "f">>
                [] str = "elif" -> <<"e", "l", "i", "f">> [] str = "else" -> <<"e", "l", "s", "e">> [] str = "endif" -> <<"e", "n", "d", "i", "f">>
                [] str = "include" -> <<"i", "n", "c", "l", "u", "d", "e">>
File0 == [env |-> <<>>, stk |-> <<>>, out |-> <<>>, pend |-> <<>>, st |-> "D", ft |-> {}]
Flush(S) ==
  IF S.pend = <<>> THEN S
  ELSE LET r == RunMac(S.env, S.pend) IN
       IF r.st # "D" THEN [S EXCEPT !.pend = <<>>, !.st = Worse(@, r.st)]
       ELSE [S EXCEPT !.pend = <<>>, !.out = @ \o r.toks, !.ft = @ \cup r.ft]
Fail(S) == [S EXCEPT !.st = "I"]
Directive(d, S) ==                    \* d = the tokens after # ; pending text was flushed
  IF d = <<>> THEN S                                                                           \* null directive
  ELSE IF d[1].k # "id" THEN Fail(S)
  ELSE LET n == d[1].s
           act == Active(S.stk)
           top == Last(S.stk)
           rest == SubSeq(d, 2, Len(d))
           push(v) == IF act THEN [S EXCEPT !.stk = Append(@, [par |-> TRUE, taken |-> v, cur |-> v, els |-> FALSE])]
                      ELSE [S EXCEPT !.stk = Append(@, [par |-> FALSE, taken |-> FALSE, cur |-> FALSE, els |-> FALSE])]
       IN
    IF n = DirName("if") THEN
       IF ~act THEN push(FALSE) ELSE LET e == EvalIf(S.env, rest) IN IF e.ok THEN push(e.v) ELSE Fail(S)
    ELSE IF n \in {DirName("ifdef"), DirName("ifndef")} THEN
       IF ~act THEN push(FALSE)
       ELSE IF Len(rest) # 1 \/ rest[1].k # "id" THEN Fail(S)
       ELSE push((DefIdx([env |-> S.env], rest[1].s) # 0) = (n = DirName("ifdef")))
    ELSE IF n = DirName("elif") THEN
       IF S.stk = <<>> \/ top.els THEN Fail(S)
       ELSE IF ~top.par \/ top.taken THEN [S EXCEPT !.stk[Len(S.stk)].cur = FALSE]
       ELSE LET e == EvalIf(S.env, rest) IN
            IF e.ok THEN [S EXCEPT !.stk[Len(S.stk)].cur = e.v, !.stk[Len(S.stk)].taken = e.v] ELSE Fail(S)
    ELSE IF n = DirName("else") THEN
       IF S.stk = <<>> \/ top.els \/ rest # <<>> THEN Fail(S)
       ELSE [S EXCEPT !.stk[Len(S.stk)] = [par |-> top.par, taken |-> TRUE, cur |-> top.par /\ ~top.taken, els |-> TRUE]]
    ELSE IF n = DirName("endif") THEN IF S.stk = <<>> \/ rest # <<>> THEN Fail(S) ELSE [S EXCEPT !.stk = Front(@)]
    ELSE IF ~act THEN S                                                                        \* skipped group: only the name is looked at
    ELSE IF n = DirName("define") THEN
       LET r == MkMacro(rest) IN
       IF ~r.ok THEN Fail(S)
       ELSE IF DefIdx([env |-> S.env], r.m.name) # 0 \/ ~BodyWf(r.m) THEN Fail(S)
       ELSE [S EXCEPT !.env = Append(@, r.m),
                      !.ft = @ \cup {IF r.m.fl THEN "define_fn" ELSE "define_obj"}
                               \cup (IF \E i \in 1..Len(r.m.body) : IsPu(r.m.body[i], <<"%", ":">>) \/ IsPu(r.m.body[i], <<"%", ":", "%", ":">>)
                                     THEN {"digraph_operator"} ELSE {})]
    ELSE IF n = DirName("undef") THEN
       IF Len(rest) # 1 \/ rest[1].k # "id" THEN Fail(S)
       ELSE [S EXCEPT !.env = SelectSeq(@, LAMBDA m : m.name # rest[1].s), !.ft = @ \cup {"undef"}]
    ELSE IF n = DirName("include") THEN
       IF Len(rest) # 1 \/ rest[1].k # "str" THEN Fail(S) ELSE [S EXCEPT !.pend = IncToks, !.ft = @ \cup {"include"}]
    ELSE Fail(S)
RECURSIVE PPLines(_, _)
PPLines(ls, S) ==
  IF ls = <<>> THEN Flush(S)
  ELSE LET l == Head(ls) IN
       IF IsHash(l[1]) THEN PPLines(Tail(ls), Directive(Tail(l), Flush(S)))
       ELSE IF Active(S.stk) THEN PPLines(Tail(ls), [S EXCEPT !.pend = @ \o l])
       ELSE PPLines(Tail(ls), S)
FileRow ==
  LET toks == LexFrom(g.txt, 1, TRUE, TRUE)
      bad == \E i \in 1..Len(toks) : toks[i].k = "bad"
      S == IF bad THEN Fail(File0) ELSE PPLines(CutLines(toks, <<>>), File0)
      st == IF S.stk # <<>> THEN "I" ELSE S.st
      cm == \E i \in 1..(Len(g.txt) - 1) : g.txt[i] = "/" /\ g.txt[i + 1] = "*"
      cmnl == \E i \in 2..(Len(g.txt) - 1) : g.txt[i] = "~" /\ g.txt[i - 1] = "c" /\ g.txt[i + 1] = "d"
  IN IF st # "D" THEN [fam |-> "file", sk |-> g.sk, src |-> JoinC(g.txt), st |-> st]
     ELSE IF Spell(LexLine(TextOf(S.out))) # Spell(S.out) THEN [fam |-> "file", sk |-> g.sk, src |-> JoinC(g.txt), st |-> "G"]
     ELSE [fam |-> "file", sk |-> g.sk, src |-> JoinC(g.txt), st |-> "D", exp |-> Spell(S.out),
           ft |-> S.ft \cup (IF cm THEN {"block_comment"} ELSE {}) \cup (IF cmnl THEN {"block_comment_spans_lines"} ELSE {})]

(* ======================================================================= *)
(*                       W64cpp table (host cross-check)                   *)
(* ======================================================================= *)
Grid == <<Zero, One, Small(2), Small(3), Small(63), Small(64), Small(65535), <<0, 1, 0, 0>>, <<65535, 32767, 0, 0>>, W2p31, W2p32,
          <<65535, 65535, 0, 0>>, MaxS, MinS, AllOnes, Sub(AllOnes, One), Add(MinS, One), <<4660, 22136, 39612, 57072>>,
          <<43981, 61389, 291, 17767>>, <<1, 0, 0, 32768>>, <<0, 0, 0, 16384>>, <<3, 0, 1, 0>>, Neg(W2p31), Neg(W2p32)>>
W64Ops == <<"add", "sub", "mul", "mulhi", "and", "or", "xor", "shl", "lshr", "ashr", "udiv", "urem", "sdiv", "srem",
            "ult", "slt", "addovf", "subovf", "mulovf", "shlovf", "neg", "not">>
B2W(b) == IF b THEN One ELSE Zero
W64Res(op, a, b) ==
  LET n == b[1] % 64 IN
  CASE op = "add" -> Add(a, b) [] op = "sub" -> Sub(a, b) [] op = "mul" -> Mul(a, b) [] op = "mulhi" -> UMulHi(a, b)
    [] op = "and" -> And(a, b) [] op = "or" -> Or(a, b) [] op = "xor" -> Xor(a, b)
    [] op = "shl" -> Shl(a, n) [] op = "lshr" -> LShr(a, n) [] op = "ashr" -> AShr(a, n)
    [] op = "udiv" -> IF IsZero(b) THEN Zero ELSE UDiv(a, b) [] op = "urem" -> IF IsZero(b) THEN Zero ELSE URem(a, b)
    [] op = "sdiv" -> IF IsZero(b) \/ SDivOvf(a, b) THEN Zero ELSE SDiv(a, b)
    [] op = "srem" -> IF IsZero(b) \/ SDivOvf(a, b) THEN Zero ELSE SRem(a, b)
    [] op = "ult" -> B2W(ULt(a, b)) [] op = "slt" -> B2W(SLt(a, b))
    [] op = "addovf" -> B2W(AddOvf(a, b)) [] op = "subovf" -> B2W(SubOvf(a, b)) [] op = "mulovf" -> B2W(MulOvf(a, b))
    [] op = "shlovf" -> B2W(ShlOvf(a, n)) [] op = "neg" -> Neg(a) [] op = "not" -> Not(a)
W64Init == \E i \in 1..Len(W64Ops), a \in 1..Len(Grid), b \in 1..Len(Grid) :
             /\ Mine(i) /\ g = [op |-> W64Ops[i], a |-> Grid[a], b |-> Grid[b]] /\ ph = "done"
W64Row == [fam |-> "w64", op |-> g.op, a |-> Hex(g.a), b |-> Hex(g.b), r |-> Hex(W64Res(g.op, g.a, g.b))]

(* ======================================================================= *)
Init == (Fam = "file" /\ FileInit) \/ (Fam = "lex" /\ LexInit) \/ (Fam = "mac" /\ MacInit) \/ (Fam = "if" /\ IfInit) \/ (Fam = "cond" /\ CondInit) \/ (Fam = "w64" /\ W64Init)
Next == (Fam = "file" /\ FileNext) \/ (Fam = "lex" /\ LexNext) \/ (Fam = "mac" /\ MacNext) \/ (Fam = "if" /\ IfNext) \/ (Fam = "cond" /\ CondNext)
Row == CASE Fam = "file" -> FileRow [] Fam = "lex" -> LexRow [] Fam = "mac" -> MacRow [] Fam = "if" -> IfRow [] Fam = "cond" -> CondRow [] Fam = "w64" -> W64Row
EmitInv == ph = "done" => EmitJ(Row)
Spec == Init /\ [][Next]_vars
=============================================================================
