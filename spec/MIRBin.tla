------------------------------- MODULE MIRBin -------------------------------
(* Binary MIR (mir.c "Input/output of binary MIR"): the token stream that   *)
(* MIR_write* produces before compression and MIR_read* consumes after      *)
(* decompression.                                                           *)
(*                                                                          *)
(*   stream  = VERSION NSTR {LEN byte*} {token} EOFILE                      *)
(*   VERSION, NSTR, LEN : unsigned tokens                                   *)
(*   token   = 0x80|u (u <= 127) | U1..U8 n bytes | I1..I8 n bytes          *)
(*           | F 4 bytes | D 8 bytes | LD 16 bytes (10 value + 6 padding)   *)
(*           | REG1..4 / NAME1..4 / STR1..4 string index | LAB1..4 number   *)
(*           | MEM_* / ALIAS_MEM_* | type tags | EOI | EOFILE               *)
(* all numbers little endian, I tokens zero-extended (a negative value      *)
(* takes 8 bytes).  Items and instructions are token groups introduced by   *)
(* a NAME token (keyword) or by optional LAB tokens and the instruction     *)
(* code as an unsigned token.                                               *)
(*                                                                          *)
(* Decode is a small-step machine (one token group per step, bounded        *)
(* recursion inside a step) that TLC EVALUATES on byte strings handed over  *)
(* in a JSON file: the real writer's output (after the real decompressor).  *)
(* It reconstructs the abstract module of MIRModule.tla and records the     *)
(* WRITER OBLIGATIONS it finds violated:                                    *)
(*   shortest tag for every value and index; canonical memory tag;          *)
(*   strings numbered by first occurrence, no duplicates, none unused;      *)
(*   the 6 padding bytes of a long double are zero (so the byte string is   *)
(*   a function of the abstract module: Deterministic).                     *)
(* Encode is the writer the format defines: TLC generates token streams     *)
(* with it (label numbers and tag lengths chosen to cross every 1..8-byte   *)
(* boundary) which the real reader must turn into the same abstract module. *)
(* Names travel as byte sequences (TLA+ strings cannot be taken apart).     *)
EXTENDS Integers, Sequences, FiniteSets, TLC, Json, Emit, IOUtils, MIRSyntax

Cases == IF "C11FILE" \in DOMAIN IOEnv THEN ndJsonDeserialize(IOEnv.C11FILE) ELSE <<>>
(* "decode": every case is [id, bytes];  "encode": every case is [id, mods, labbase, slack] *)
Task == IF "C11TASK" \in DOMAIN IOEnv THEN IOEnv.C11TASK ELSE "decode"

(* ------------------------------------------------------------------ tags (bin_tag_t) *)
TU0 == 0   TU1 == 1   TI1 == 9   TF == 17   TD == 18   TLD == 19
TREG1 == 20   TNAME1 == 24   TSTR1 == 28   TLAB1 == 32
TMEM == 36          \* MEM_DISP, MEM_BASE, MEM_INDEX, MEM_DISP_BASE, MEM_DISP_INDEX, MEM_BASE_INDEX, MEM_DISP_BASE_INDEX
TTYPE == 43         \* TI8 .. in the order of TypeNames; the last one (rblk) is 60
TEOI == 61   TEOF == 62
TAMEM == 63         \* ALIAS_MEM_* in the same order as MEM_*
TLAST == 69
MemHasDisp(k) == k \in {0, 3, 4, 6}          \* k = tag - TMEM (or tag - TAMEM)
MemHasBase(k) == k \in {1, 3, 5, 6}
MemHasIndex(k) == k \in {2, 4, 5, 6}
MemKind(disp, base, index) ==                 \* the writer's choice
  IF disp THEN (IF base THEN (IF index THEN 6 ELSE 3) ELSE (IF index THEN 4 ELSE 0))
  ELSE IF base THEN (IF index THEN 5 ELSE 1) ELSE IF index THEN 2 ELSE 0

KW_module == <<109, 111, 100, 117, 108, 101>>
KW_endmodule == <<101, 110, 100, 109, 111, 100, 117, 108, 101>>
KW_import == <<105, 109, 112, 111, 114, 116>>
KW_export == <<101, 120, 112, 111, 114, 116>>
KW_forward == <<102, 111, 114, 119, 97, 114, 100>>
KW_proto == <<112, 114, 111, 116, 111>>
KW_func == <<102, 117, 110, 99>>
KW_endfunc == <<101, 110, 100, 102, 117, 110, 99>>
KW_local == <<108, 111, 99, 97, 108>>
KW_global == <<103, 108, 111, 98, 97, 108>>
KW_bss == <<98, 115, 115>>
KW_nbss == <<110, 98, 115, 115>>
KW_ref == <<114, 101, 102>>
KW_nref == <<110, 114, 101, 102>>
KW_lref == <<108, 114, 101, 102>>
KW_nlref == <<110, 108, 114, 101, 102>>
KW_expr == <<101, 120, 112, 114>>
KW_nexpr == <<110, 101, 120, 112, 114>>
KW_data == <<100, 97, 116, 97>>
KW_ndata == <<110, 100, 97, 116, 97>>

VarOps == {"call", "inline", "jcall", "ret", "switch"}      \* variable number of operands, closed by EOI
NotPortable == {"label", "unspec", "use", "phi", "invalid-insn"}

(* ------------------------------------------------------------------ numbers *)
MinBytes(w) == IF w[4] >= 256 THEN 8 ELSE IF w[4] > 0 THEN 7 ELSE IF w[3] >= 256 THEN 6 ELSE IF w[3] > 0 THEN 5
               ELSE IF w[2] >= 256 THEN 4 ELSE IF w[2] > 0 THEN 3 ELSE IF w[1] >= 256 THEN 2 ELSE IF w[1] > 0 THEN 1 ELSE 0
IsNat(w) == w[3] = 0 /\ w[4] = 0 /\ w[2] < 16384
ToN(w) == w[1] + (65536 * w[2])
Max(a, b) == IF a > b THEN a ELSE b
ULen(w) == IF IsNat(w) /\ ToN(w) <= 127 THEN 0 ELSE MinBytes(w)      \* uint_length
ILen(w) == Max(1, MinBytes(w))                                         \* int_length
XLen(w) == Max(1, ULen(w))                                             \* string index / label number

(* ================================================================== DECODE *)
VARIABLES cidx,     \* case under work
          enc,      \* task "encode": the byte string produced by Encode for the case (then decoded again)
          st,       \* "enc" | "hdr" | "strs" | "lex" | "top" | "data" | "done"
          pos,      \* next byte (1-based)
          cnt,      \* strings still to read
          strs,     \* string table: sequence of byte sequences
          lex,      \* lexical pass: [p, seen, ldpad]
          mods, modname, items, fn, dat,     \* module set under reconstruction
          errs      \* obligations found violated / first grammar error
dvars == <<cidx, enc, st, pos, cnt, strs, lex, mods, modname, items, fn, dat, errs>>

BS == IF Task = "encode" THEN enc ELSE Cases[cidx].bytes
NB == Len(BS)
Byte(p) == IF p >= 1 /\ p <= NB THEN BS[p] ELSE -1
Limb(p, nb, i) == (IF 2 * i < nb THEN BS[p + (2 * i)] ELSE 0) + (256 * (IF (2 * i) + 1 < nb THEN BS[p + (2 * i) + 1] ELSE 0))
Num(p, nb) == <<Limb(p, nb, 0), Limb(p, nb, 1), Limb(p, nb, 2), Limb(p, nb, 3)>>

Bad(m, p) == [ok |-> FALSE, msg |-> m \o " at byte " \o ToString(p), p |-> p, v |-> <<>>, tag |-> -1, nb |-> 0, eoi |-> FALSE]
Good(v, p) == [ok |-> TRUE, msg |-> "", p |-> p, v |-> v, tag |-> -1, nb |-> 0, eoi |-> FALSE]
T(tag, v, nb, p) == [ok |-> TRUE, msg |-> "", p |-> p, v |-> v, tag |-> tag, nb |-> nb, eoi |-> FALSE]

(* one token at byte p: [ok, tag, v, nb (payload bytes), p (next)] ; the tag of 0x80|u is TU0 *)
Tok(p) ==
  LET c == Byte(p) IN
  IF c < 0 THEN Bad("unfinished binary MIR", p)
  ELSE IF c = 0 THEN Bad("wrong tag 0", p)
  ELSE IF c >= 128 THEN T(TU0, W(c - 128), 0, p + 1)
  ELSE IF c \in 1..16 THEN (LET nb == IF c <= 8 THEN c ELSE c - 8 IN
                            IF p + nb > NB THEN Bad("unfinished binary MIR", p) ELSE T(c, Num(p + 1, nb), nb, p + 1 + nb))
  ELSE IF c = TF THEN (IF p + 4 > NB THEN Bad("unfinished binary MIR", p) ELSE T(c, <<Limb(p + 1, 4, 0), Limb(p + 1, 4, 1)>>, 4, p + 5))
  ELSE IF c = TD THEN (IF p + 8 > NB THEN Bad("unfinished binary MIR", p) ELSE T(c, Num(p + 1, 8), 8, p + 9))
  ELSE IF c = TLD THEN (IF p + 16 > NB THEN Bad("unfinished binary MIR", p)
                        ELSE T(c, <<Limb(p + 1, 8, 0), Limb(p + 1, 8, 1), Limb(p + 1, 8, 2), Limb(p + 1, 8, 3), Limb(p + 9, 2, 0)>>, 16, p + 17))
  ELSE IF c \in TREG1..(TLAB1 + 3) THEN (LET nb == ((c - TREG1) % 4) + 1 IN
                                         IF p + nb > NB THEN Bad("unfinished binary MIR", p) ELSE T(c, Num(p + 1, nb), nb, p + 1 + nb))
  ELSE IF c <= TLAST THEN T(c, <<>>, 0, p + 1)
  ELSE Bad("wrong tag " \o ToString(c), p)

IsU(t) == t \in TU0..8
IsI(t) == t \in TI1..16
IsReg(t) == t \in TREG1..(TREG1 + 3)
IsName(t) == t \in TNAME1..(TNAME1 + 3)
IsStr(t) == t \in TSTR1..(TSTR1 + 3)
IsLab(t) == t \in TLAB1..(TLAB1 + 3)
IsType(t) == t \in TTYPE..(TTYPE + 17)
IsMem(t) == t \in TMEM..(TMEM + 6) \/ t \in TAMEM..(TAMEM + 6)

(* ---- lexical obligations, token by token (independent of the grammar) *)
Short(t) ==
  IF IsU(t.tag) THEN ULen(t.v) = t.nb
  ELSE IF IsI(t.tag) THEN ILen(t.v) = t.nb
  ELSE IF IsReg(t.tag) \/ IsName(t.tag) \/ IsStr(t.tag) \/ IsLab(t.tag) THEN XLen(t.v) = t.nb
  ELSE TRUE
PadZero(p) == \A i \in 11..16 : BS[p + i] = 0       \* p: position of the LD tag
RECURSIVE LexChunk(_, _, _, _, _)
(* up to n tokens from p on.  seen = number of distinct strings referenced so far *)
LexChunk(p, n, seen, pads, es) ==
  IF n = 0 THEN [p |-> p, seen |-> seen, ldpad |-> pads, errs |-> es, eof |-> FALSE]
  ELSE LET t == Tok(p) IN
       IF ~t.ok THEN [p |-> p, seen |-> seen, ldpad |-> pads, errs |-> Append(es, t.msg), eof |-> TRUE]
       ELSE LET e1 == IF Short(t) THEN es ELSE Append(es, "tag " \o ToString(t.tag) \o " longer than its value needs at byte " \o ToString(p))
                isref == IsReg(t.tag) \/ IsName(t.tag) \/ IsStr(t.tag)
                idx == IF isref /\ IsNat(t.v) THEN ToN(t.v) ELSE -1
                e2 == IF isref /\ (idx < 0 \/ idx > seen) THEN Append(e1, "string " \o ToString(idx) \o " referenced before string " \o ToString(seen) \o " at byte " \o ToString(p)) ELSE e1
                s2 == IF isref /\ idx = seen THEN seen + 1 ELSE seen
                e3 == IF t.tag = TLD /\ ~PadZero(p) THEN Append(e2, "long double padding bytes not zero at byte " \o ToString(p)) ELSE e2
                p2 == IF t.tag = TLD THEN Append(pads, p + 10) ELSE pads      \* 0-based offset of the first padding byte
            IN IF t.tag = TEOF THEN [p |-> t.p, seen |-> s2, ldpad |-> p2, errs |-> e3, eof |-> TRUE]
               ELSE LexChunk(t.p, n - 1, s2, p2, e3)

(* ---- grammar helpers: every reader returns [ok, v, p, ...] *)
StrOf(w, p) == IF ~IsNat(w) \/ ToN(w) >= Len(strs) THEN Bad("wrong string num", p) ELSE Good(strs[ToN(w) + 1], p)
CName(r, p) ==          \* a C string in the table: bytes + NUL
  IF ~r.ok THEN r
  ELSE IF Len(r.v) = 0 \/ r.v[Len(r.v)] # 0 THEN Bad("name without terminating NUL", p)
  ELSE Good(SubSeq(r.v, 1, Len(r.v) - 1), r.p)
RdName(p) == LET t == Tok(p) IN IF ~t.ok THEN t ELSE IF ~IsName(t.tag) THEN Bad("name expected", p) ELSE CName(StrOf(t.v, t.p), p)
RdReg(p) == LET t == Tok(p) IN IF ~t.ok THEN t ELSE IF ~IsReg(t.tag) THEN Bad("register has wrong tag", p) ELSE CName(StrOf(t.v, t.p), p)
RdUint(p) == LET t == Tok(p) IN IF ~t.ok THEN t ELSE IF ~IsU(t.tag) THEN Bad("unsigned expected", p) ELSE Good(t.v, t.p)
RdInt(p) == LET t == Tok(p) IN IF ~t.ok THEN t ELSE IF ~IsI(t.tag) THEN Bad("signed expected", p) ELSE Good(t.v, t.p)
RdType(p) == LET c == Byte(p) IN IF IsType(c) THEN Good(TypeNames[c - TTYPE + 1], p + 1) ELSE Bad("wrong type tag " \o ToString(c), p)

RECURSIVE RdSeq(_, _, _)
(* a fixed sequence of parts: "n" name, "r" register, "u" unsigned, "i" signed, "t" type *)
RdSeq(kinds, p, acc) ==
  IF kinds = <<>> THEN Good(acc, p)
  ELSE LET k == Head(kinds)
           r == CASE k = "n" -> RdName(p) [] k = "r" -> RdReg(p) [] k = "u" -> RdUint(p) [] k = "i" -> RdInt(p) [] k = "t" -> RdType(p)
       IN IF ~r.ok THEN r ELSE RdSeq(Tail(kinds), r.p, Append(acc, r.v))

IsBlkT(t) == t \in BlkTypes \cup {"rblk"}
RECURSIVE RdArgs(_, _)
(* {type name [size]} EOI *)
RdArgs(p, acc) ==
  IF Byte(p) = TEOI THEN Good(acc, p + 1)
  ELSE LET ty == RdType(p) IN
       IF ~ty.ok THEN ty
       ELSE LET nm == RdName(ty.p) IN
            IF ~nm.ok THEN nm
            ELSE IF IsBlkT(ty.v) THEN (LET sz == RdUint(nm.p) IN IF ~sz.ok THEN sz ELSE RdArgs(sz.p, Append(acc, [t |-> ty.v, name |-> nm.v, size |-> sz.v])))
                 ELSE RdArgs(nm.p, Append(acc, [t |-> ty.v, name |-> nm.v, size |-> Zero]))
RECURSIVE RdTypes(_, _, _)
RdTypes(p, n, acc) == IF n = 0 THEN Good(acc, p) ELSE LET ty == RdType(p) IN IF ~ty.ok THEN ty ELSE RdTypes(ty.p, n - 1, Append(acc, ty.v))
(* name, vararg flag, nres, result types, arguments *)
RdSignature(p) ==
  LET h == RdSeq(<<"n", "u", "u">>, p, <<>>) IN
  IF ~h.ok THEN h
  ELSE IF ~IsNat(h.v[3]) \/ ToN(h.v[3]) > 64 THEN Bad("wrong func nres", p)
  ELSE LET rt == RdTypes(h.p, ToN(h.v[3]), <<>>) IN
       IF ~rt.ok THEN rt
       ELSE LET ar == RdArgs(rt.p, <<>>) IN
            IF ~ar.ok THEN ar ELSE Good([name |-> h.v[1], va |-> h.v[2] # Zero, res |-> rt.v, args |-> ar.v], ar.p)
RECURSIVE RdVars(_, _, _)
(* {type name [hard register name]} EOI *)
RdVars(p, glob, acc) ==
  IF Byte(p) = TEOI THEN Good(acc, p + 1)
  ELSE LET ty == RdType(p) IN
       IF ~ty.ok THEN ty
       ELSE LET nm == RdName(ty.p) IN
            IF ~nm.ok THEN nm
            ELSE IF glob THEN (LET hr == RdName(nm.p) IN IF ~hr.ok THEN hr ELSE RdVars(hr.p, glob, Append(acc, [t |-> ty.v, name |-> nm.v, hr |-> hr.v])))
                 ELSE RdVars(nm.p, glob, Append(acc, [t |-> ty.v, name |-> nm.v]))

(* memory operand after its tag: type [disp] [base] [index scale] [alias nonalias] *)
RdMem(tag, p0, p) ==
  LET al == tag >= TAMEM
      k == IF al THEN tag - TAMEM ELSE tag - TMEM
      ty == LET c == Byte(p) IN IF IsType(c) THEN Good(TypeNames[c - TTYPE + 1], p + 1)
                                 ELSE IF c = TEOI THEN Good("undef", p + 1)      \* MIR_T_UNDEF is written as TAG_TI8 + 18 = TAG_EOI
                                 ELSE Bad("wrong memory type", p)
  IN IF ~ty.ok THEN ty
     ELSE LET d == IF MemHasDisp(k) THEN RdInt(ty.p) ELSE Good(Zero, ty.p) IN
          IF ~d.ok THEN d
          ELSE LET b == IF MemHasBase(k) THEN RdReg(d.p) ELSE Good(<<>>, d.p) IN
               IF ~b.ok THEN b
               ELSE LET x == IF MemHasIndex(k) THEN RdSeq(<<"r", "u">>, b.p, <<>>) ELSE Good(<<<<>>, W(1)>>, b.p) IN
                    IF ~x.ok THEN x
                    ELSE LET a == IF al THEN RdSeq(<<"n", "n">>, x.p, <<>>) ELSE Good(<<<<>>, <<>>>>, x.p) IN
                         IF ~a.ok THEN a
                         ELSE IF ~IsNat(x.v[2]) \/ ToN(x.v[2]) > 255 THEN Bad("wrong memory index scale", p0)
                         ELSE [Good([k |-> "mem", t |-> ty.v, disp |-> d.v, base |-> b.v, index |-> x.v[1], scale |-> ToN(x.v[2]),
                                     alias |-> a.v[1], nonalias |-> a.v[2]], a.p)
                               EXCEPT !.msg = IF k # MemKind(d.v # Zero \/ (b.v = <<>> /\ x.v[1] = <<>>), b.v # <<>>, x.v[1] # <<>>)
                                                   \/ al # (a.v[1] # <<>> \/ a.v[2] # <<>>)
                                                THEN "memory tag not the canonical one at byte " \o ToString(p0) ELSE ""]

(* one operand; eoi = TRUE for the EOI token *)
RdOperand(p) ==
  LET t == Tok(p) IN
  IF ~t.ok THEN t
  ELSE IF IsU(t.tag) THEN Good([k |-> "uint", w |-> t.v], t.p)
  ELSE IF IsI(t.tag) THEN Good([k |-> "int", w |-> t.v], t.p)
  ELSE IF t.tag = TF THEN Good([k |-> "f", w |-> t.v], t.p)
  ELSE IF t.tag = TD THEN Good([k |-> "d", w |-> t.v], t.p)
  ELSE IF t.tag = TLD THEN Good([k |-> "ld", w |-> t.v], t.p)
  ELSE IF IsReg(t.tag) THEN (LET n == CName(StrOf(t.v, t.p), p) IN IF ~n.ok THEN n ELSE Good([k |-> "reg", name |-> n.v], t.p))
  ELSE IF IsName(t.tag) THEN (LET n == CName(StrOf(t.v, t.p), p) IN IF ~n.ok THEN n ELSE Good([k |-> "ref", name |-> n.v], t.p))
  ELSE IF IsStr(t.tag) THEN (LET s == StrOf(t.v, t.p) IN IF ~s.ok THEN s ELSE Good([k |-> "str", b |-> s.v], t.p))
  ELSE IF IsLab(t.tag) THEN Good([k |-> "lab", num |-> t.v], t.p)
  ELSE IF IsMem(t.tag) THEN RdMem(t.tag, p, t.p)
  ELSE IF t.tag = TEOI THEN [Good(<<>>, t.p) EXCEPT !.eoi = TRUE]
  ELSE Bad("wrong operand tag " \o ToString(t.tag), p)
RECURSIVE RdOps(_, _, _, _)
(* n >= 0: exactly n operands;  n = -1: operands up to EOI.  notes: non-fatal remarks of the operands *)
RdOps(p, n, acc, notes) ==
  IF n = 0 THEN [Good(acc, p) EXCEPT !.msg = notes]
  ELSE LET o == RdOperand(p) IN
       IF ~o.ok THEN o
       ELSE IF o.eoi THEN (IF n < 0 THEN [Good(acc, o.p) EXCEPT !.msg = notes] ELSE Bad("wrong number of operands", p))
       ELSE RdOps(o.p, IF n < 0 THEN n ELSE n - 1, Append(acc, o.v), IF o.msg = "" THEN notes ELSE o.msg)
RECURSIVE RdLabs(_, _)
RdLabs(p, acc) == LET t == Tok(p) IN IF t.ok /\ IsLab(t.tag) THEN RdLabs(t.p, Append(acc, t.v)) ELSE Good(acc, p)

(* data elements: up to n of them; a data item ends with EOI.  Every element token must be of the kind the element *)
(* type prescribes and carry the sign / zero extension of a value of that width                                  *)
ElKind(t) == CASE t \in {"i8", "i16", "i32", "i64"} -> "i" [] t \in {"u8", "u16", "u32", "u64", "p"} -> "u" [] OTHER -> t
SignExt(w, bits) ==      \* is the 64-bit value w the sign extension of its low `bits` bits
  CASE bits = 8 -> (w[1] < 128 /\ w[2] = 0 /\ w[3] = 0 /\ w[4] = 0) \/ (w[1] >= 65408 /\ w[2] = 65535 /\ w[3] = 65535 /\ w[4] = 65535)
    [] bits = 16 -> (w[1] < 32768 /\ w[2] = 0 /\ w[3] = 0 /\ w[4] = 0) \/ (w[1] >= 32768 /\ w[2] = 65535 /\ w[3] = 65535 /\ w[4] = 65535)
    [] bits = 32 -> (w[2] < 32768 /\ w[3] = 0 /\ w[4] = 0) \/ (w[2] >= 32768 /\ w[3] = 65535 /\ w[4] = 65535)
    [] OTHER -> TRUE
ZeroExt(w, bits) == CASE bits = 8 -> w[1] < 256 /\ w[2] = 0 /\ w[3] = 0 /\ w[4] = 0 [] bits = 16 -> w[2] = 0 /\ w[3] = 0 /\ w[4] = 0
                      [] bits = 32 -> w[3] = 0 /\ w[4] = 0 [] OTHER -> TRUE
ElBits(t) == CASE t \in {"i8", "u8"} -> 8 [] t \in {"i16", "u16"} -> 16 [] t \in {"i32", "u32"} -> 32 [] OTHER -> 64
LowBits(w, bits) == CASE bits = 8 -> <<w[1] % 256>> [] bits = 16 -> <<w[1]>> [] bits = 32 -> <<w[1], w[2]>> [] OTHER -> w
RECURSIVE RdEls(_, _, _, _)
RdEls(p, ty, n, acc) ==
  IF Byte(p) = TEOI THEN [Good(acc, p + 1) EXCEPT !.eoi = TRUE]
  ELSE IF n = 0 THEN Good(acc, p)
  ELSE LET t == Tok(p)  kd == ElKind(ty) IN
       IF ~t.ok THEN t
       ELSE IF kd = "i" /\ IsI(t.tag) THEN (IF SignExt(t.v, ElBits(ty)) THEN RdEls(t.p, ty, n - 1, Append(acc, LowBits(t.v, ElBits(ty)))) ELSE Bad("data value does not fit its type", p))
       ELSE IF kd = "u" /\ IsU(t.tag) THEN (IF ZeroExt(t.v, ElBits(ty)) THEN RdEls(t.p, ty, n - 1, Append(acc, LowBits(t.v, ElBits(ty)))) ELSE Bad("data value does not fit its type", p))
       ELSE IF (kd = "f" /\ t.tag = TF) \/ (kd = "d" /\ t.tag = TD) \/ (kd = "ld" /\ t.tag = TLD) THEN RdEls(t.p, ty, n - 1, Append(acc, t.v))
       ELSE Bad("data type " \o ty \o " does not correspond value tag " \o ToString(t.tag), p)

(* ---- labels: numbers in the stream, ordinals in the abstract module *)
RECURSIVE IndexOf(_, _, _)
IndexOf(s, x, i) == IF i > Len(s) THEN 0 ELSE IF s[i] = x THEN i ELSE IndexOf(s, x, i + 1)
LabDefs(insns) == SelectSeq(insns, LAMBDA ins : ins.op = "label")
FixOp(o, defs) == IF o.k = "lab" THEN [k |-> "lab", n |-> IndexOf(defs, o.num, 1)] ELSE o
FixInsns(insns) ==
  LET defs == [i \in 1..Len(LabDefs(insns)) |-> LabDefs(insns)[i].num] IN
  [i \in 1..Len(insns) |->
     IF insns[i].op = "label" THEN [op |-> "label", n |-> Cardinality({j \in 1..i : insns[j].op = "label"})]
     ELSE [op |-> insns[i].op, ops |-> [q \in 1..Len(insns[i].ops) |-> FixOp(insns[i].ops[q], defs)]]]
FuncDefs(f) == [i \in 1..Len(LabDefs(f.rawinsns)) |-> LabDefs(f.rawinsns)[i].num]
RECURSIVE FindLab(_, _, _)
(* <<function name, ordinal>> of label number w among the functions of the module, <<>> if no function has it *)
FindLab(its, w, i) ==
  IF i > Len(its) THEN <<<<63, 100, 101, 116, 97, 99, 104, 101, 100>>, 0>>          \* "?detached"
  ELSE IF its[i].k = "func" /\ IndexOf(its[i].defs, w, 1) # 0 THEN <<its[i].name, IndexOf(its[i].defs, w, 1)>>
  ELSE FindLab(its, w, i + 1)
MinusOne(w) == w = Ones
FixItem(its, it) ==
  IF it.k = "lref" THEN [k |-> "lref", name |-> it.name, l1 |-> FindLab(its, it.n1, 1), l2 |-> (IF MinusOne(it.n2) THEN <<>> ELSE FindLab(its, it.n2, 1)), disp |-> it.disp]
  ELSE IF it.k = "func" THEN [k |-> "func", name |-> it.name, va |-> it.va, res |-> it.res, args |-> it.args, locals |-> it.locals, globals |-> it.globals,
                              insns |-> it.insns]
  ELSE it
FixModule(its) == [i \in 1..Len(its) |-> FixItem(its, its[i])]

(* ---- the temporary-name counter of a module: the largest N of an item named ".lc<N>" (what the reader has to restore) *)
RECURSIVE DecVal(_, _, _)
DecVal(b, i, acc) == IF i > Len(b) THEN acc ELSE IF b[i] \in 48..57 /\ acc < 100000 THEN DecVal(b, i + 1, (10 * acc) + (b[i] - 48)) ELSE -1
TempNum(b) == IF Len(b) >= 4 /\ SubSeq(b, 1, 3) = <<46, 108, 99>> /\ DecVal(b, 4, 0) >= 0 THEN DecVal(b, 4, 0) ELSE 0
TmpOf(its) == LET S == {TempNum(its[i].name) : i \in 1..Len(its)} \cup {0} IN CHOOSE m \in S : \A x \in S : x <= m

(* ---- the machine *)
(* tokens / elements / strings handled per step: the evaluator's cost grows with the recursion depth *)
LexN == 4   ElN == 48   StrN == 32
NoFn == [name |-> <<>>, open |-> FALSE]
NoDat == [open |-> FALSE]

Fatal(m) == /\ st' = "done" /\ errs' = Append(errs, "FATAL: " \o m)
            /\ UNCHANGED <<cidx, enc, pos, cnt, strs, lex, mods, modname, items, fn, dat>>
Note(r) == IF r.msg = "" THEN errs ELSE Append(errs, r.msg)

Header ==
  /\ st = "hdr"
  /\ LET h == RdSeq(<<"u", "u">>, 1, <<>>) IN
     IF ~h.ok THEN Fatal("wrong header: " \o h.msg)
     ELSE IF h.v[1] # W(1) THEN Fatal("version is not 1")
     ELSE IF ~IsNat(h.v[2]) THEN Fatal("wrong number of strings")
     ELSE /\ st' = "strs" /\ pos' = h.p /\ cnt' = ToN(h.v[2])
          /\ errs' = (IF ULen(h.v[2]) # Tok(2).nb THEN Append(errs, "string count tag longer than needed") ELSE errs)
          /\ UNCHANGED <<cidx, enc, strs, lex, mods, modname, items, fn, dat>>
RECURSIVE RdStrs(_, _, _, _)
RdStrs(p, n, acc, notes) ==
  IF n = 0 THEN [Good(acc, p) EXCEPT !.msg = notes]
  ELSE LET l == RdUint(p) IN
       IF ~l.ok THEN l
       ELSE IF ~IsNat(l.v) \/ l.p + ToN(l.v) - 1 > NB THEN Bad("wrong string length", p)
       ELSE RdStrs(l.p + ToN(l.v), n - 1, Append(acc, SubSeq(BS, l.p, l.p + ToN(l.v) - 1)),
                   IF ULen(l.v) # Tok(p).nb THEN "string length tag longer than needed at byte " \o ToString(p) ELSE notes)
Strings ==
  /\ st = "strs"
  /\ LET n == IF cnt > StrN THEN StrN ELSE cnt
         r == RdStrs(pos, n, <<>>, "") IN
     IF ~r.ok THEN Fatal(r.msg)
     ELSE /\ strs' = strs \o r.v /\ pos' = r.p /\ cnt' = cnt - n /\ errs' = Note(r)
          /\ st' = (IF cnt - n = 0 THEN "lex" ELSE "strs")
          /\ lex' = [lex EXCEPT !.p = r.p]
          /\ UNCHANGED <<cidx, enc, mods, modname, items, fn, dat>>
Lexical ==
  /\ st = "lex"
  /\ LET r == LexChunk(lex.p, LexN, lex.seen, <<>>, <<>>) IN
     /\ lex' = [p |-> r.p, seen |-> r.seen, ldpad |-> lex.ldpad \o r.ldpad]
     /\ errs' = errs \o r.errs
                  \o (IF r.eof /\ r.seen # Len(strs) THEN <<"strings are not numbered by first occurrence: " \o ToString(Len(strs) - r.seen) \o " never referenced">> ELSE <<>>)
                  \o (IF r.eof /\ Cardinality({strs[i] : i \in 1..Len(strs)}) # Len(strs) THEN <<"duplicate strings in the table">> ELSE <<>>)
                  \o (IF r.eof /\ r.p # NB + 1 /\ r.errs = <<>> THEN <<"bytes after EOFILE">> ELSE <<>>)
     /\ st' = (IF r.eof THEN "top" ELSE "lex")
     /\ UNCHANGED <<cidx, enc, pos, cnt, strs, mods, modname, items, fn, dat>>

MkR(r, F(_)) == IF ~r.ok THEN r ELSE Good(F(r.v), r.p)
(* items that are one fixed token group *)
SimpleKws == {KW_import, KW_export, KW_forward, KW_bss, KW_nbss, KW_ref, KW_nref, KW_lref, KW_nlref, KW_expr, KW_nexpr, KW_proto}
RdItem(kw, p) ==
  CASE kw = KW_import -> MkR(RdSeq(<<"n">>, p, <<>>), LAMBDA v : [k |-> "import", name |-> v[1]])
    [] kw = KW_export -> MkR(RdSeq(<<"n">>, p, <<>>), LAMBDA v : [k |-> "export", name |-> v[1]])
    [] kw = KW_forward -> MkR(RdSeq(<<"n">>, p, <<>>), LAMBDA v : [k |-> "forward", name |-> v[1]])
    [] kw = KW_bss -> MkR(RdSeq(<<"u">>, p, <<>>), LAMBDA v : [k |-> "bss", name |-> <<>>, len |-> v[1]])
    [] kw = KW_nbss -> MkR(RdSeq(<<"n", "u">>, p, <<>>), LAMBDA v : [k |-> "bss", name |-> v[1], len |-> v[2]])
    [] kw = KW_ref -> MkR(RdSeq(<<"n", "i">>, p, <<>>), LAMBDA v : [k |-> "ref", name |-> <<>>, ref |-> v[1], disp |-> v[2]])
    [] kw = KW_nref -> MkR(RdSeq(<<"n", "n", "i">>, p, <<>>), LAMBDA v : [k |-> "ref", name |-> v[1], ref |-> v[2], disp |-> v[3]])
    [] kw = KW_lref -> MkR(RdSeq(<<"i", "i", "i">>, p, <<>>), LAMBDA v : [k |-> "lref", name |-> <<>>, n1 |-> v[1], n2 |-> v[2], disp |-> v[3]])
    [] kw = KW_nlref -> MkR(RdSeq(<<"n", "i", "i", "i">>, p, <<>>), LAMBDA v : [k |-> "lref", name |-> v[1], n1 |-> v[2], n2 |-> v[3], disp |-> v[4]])
    [] kw = KW_expr -> MkR(RdSeq(<<"n">>, p, <<>>), LAMBDA v : [k |-> "expr", name |-> <<>>, func |-> v[1]])
    [] kw = KW_nexpr -> MkR(RdSeq(<<"n", "n">>, p, <<>>), LAMBDA v : [k |-> "expr", name |-> v[1], func |-> v[2]])
    [] kw = KW_proto -> MkR(RdSignature(p), LAMBDA v : [k |-> "proto", name |-> v.name, va |-> v.va, res |-> v.res, args |-> v.args])

TrailLabs(labs) == [i \in 1..Len(labs) |-> [op |-> "label", num |-> labs[i]]]
Keyword(kw, p, labs) ==    \* p: after the keyword token; labs: labels in front of it (only endfunc may have some: a function may end with labels)
  IF kw = KW_module THEN
     (LET n == RdName(p) IN
      IF ~n.ok THEN Fatal(n.msg) ELSE IF modname # <<>> THEN Fatal("nested module")
      ELSE /\ modname' = <<n.v>> /\ items' = <<>> /\ pos' = n.p /\ UNCHANGED <<cidx, enc, st, cnt, strs, lex, mods, fn, dat, errs>>)
  ELSE IF modname = <<>> THEN Fatal("item outside module")
  ELSE IF kw = KW_endmodule THEN
     (IF fn.open THEN Fatal("endmodule inside func")
      ELSE /\ mods' = Append(mods, [name |-> modname[1], items |-> FixModule(items), tmp |-> TmpOf(items)]) /\ modname' = <<>> /\ items' = <<>> /\ pos' = p
           /\ UNCHANGED <<cidx, enc, st, cnt, strs, lex, fn, dat, errs>>)
  ELSE IF kw = KW_endfunc THEN
     (IF ~fn.open THEN Fatal("endfunc without func")
      ELSE /\ items' = Append(items, [k |-> "func", name |-> fn.name, va |-> fn.va, res |-> fn.res, args |-> fn.args, locals |-> fn.locals,
                                      globals |-> fn.globals, insns |-> FixInsns(fn.rawinsns \o TrailLabs(labs)),
                                      defs |-> FuncDefs([fn EXCEPT !.rawinsns = @ \o TrailLabs(labs)])])
           /\ fn' = NoFn /\ pos' = p /\ UNCHANGED <<cidx, enc, st, cnt, strs, lex, mods, modname, dat, errs>>)
  ELSE IF kw = KW_local \/ kw = KW_global THEN
     (IF ~fn.open THEN Fatal("local/global outside func")
      ELSE LET r == RdVars(p, kw = KW_global, <<>>) IN
           IF ~r.ok THEN Fatal(r.msg)
           ELSE /\ fn' = (IF kw = KW_global THEN [fn EXCEPT !.globals = @ \o r.v] ELSE [fn EXCEPT !.locals = @ \o r.v])
                /\ pos' = r.p /\ UNCHANGED <<cidx, enc, st, cnt, strs, lex, mods, modname, items, dat, errs>>)
  ELSE IF fn.open THEN Fatal("item inside func")
  ELSE IF kw = KW_func THEN
     (LET r == RdSignature(p) IN
      IF ~r.ok THEN Fatal(r.msg)
      ELSE /\ fn' = [open |-> TRUE, name |-> r.v.name, va |-> r.v.va, res |-> r.v.res, args |-> r.v.args, locals |-> <<>>, globals |-> <<>>, rawinsns |-> <<>>]
           /\ pos' = r.p /\ UNCHANGED <<cidx, enc, st, cnt, strs, lex, mods, modname, items, dat, errs>>)
  ELSE IF kw = KW_data \/ kw = KW_ndata THEN
     (LET n == IF kw = KW_ndata THEN RdName(p) ELSE Good(<<>>, p) IN
      IF ~n.ok THEN Fatal(n.msg)
      ELSE LET ty == RdType(n.p) IN
           IF ~ty.ok THEN Fatal(ty.msg)
           ELSE /\ dat' = [open |-> TRUE, name |-> n.v, t |-> ty.v, els |-> <<>>] /\ st' = "data" /\ pos' = ty.p
                /\ UNCHANGED <<cidx, enc, cnt, strs, lex, mods, modname, items, fn, errs>>)
  ELSE IF kw \in SimpleKws THEN
     (LET r == RdItem(kw, p) IN
      IF ~r.ok THEN Fatal(r.msg)
      ELSE /\ items' = Append(items, r.v) /\ pos' = r.p /\ UNCHANGED <<cidx, enc, st, cnt, strs, lex, mods, modname, fn, dat, errs>>)
  ELSE Fatal("unknown keyword at byte " \o ToString(p))

Data ==
  /\ st = "data"
  /\ LET r == RdEls(pos, dat.t, ElN, <<>>) IN
     IF ~r.ok THEN Fatal(r.msg)
     ELSE IF r.eoi THEN /\ items' = Append(items, [k |-> "data", name |-> dat.name, t |-> dat.t, via |-> "data", elc |-> Append(dat.els, r.v)])
                        /\ dat' = NoDat /\ st' = "top" /\ pos' = r.p
                        /\ UNCHANGED <<cidx, enc, cnt, strs, lex, mods, modname, fn, errs>>
     ELSE /\ dat' = [dat EXCEPT !.els = Append(@, r.v)] /\ pos' = r.p          \* els: a sequence of chunks (flattened by the reader of the result)
          /\ UNCHANGED <<cidx, enc, st, cnt, strs, lex, mods, modname, items, fn, errs>>

Insn(labs, code, p) ==
  IF ~fn.open THEN Fatal("insn outside func")
  ELSE IF ~IsNat(code) \/ ToN(code) >= Len(OpNames) THEN Fatal("wrong insn code")
  ELSE LET op == OpNames[ToN(code) + 1] IN
       IF op \in NotPortable THEN Fatal("insn " \o op \o " is not portable")
       ELSE LET r == RdOps(p, IF op \in VarOps THEN -1 ELSE Len(Sig(op)), <<>>, "") IN
            IF ~r.ok THEN Fatal(r.msg)
            ELSE /\ fn' = [fn EXCEPT !.rawinsns = @ \o [i \in 1..Len(labs) |-> [op |-> "label", num |-> labs[i]]] \o <<[op |-> op, ops |-> r.v]>>]
                 /\ pos' = r.p /\ errs' = Note(r)
                 /\ UNCHANGED <<cidx, enc, st, cnt, strs, lex, mods, modname, items, dat>>
Top ==
  /\ st = "top"
  /\ LET labs == RdLabs(pos, <<>>)
         t == Tok(labs.p) IN
     IF ~t.ok THEN Fatal(t.msg)
     ELSE IF IsName(t.tag) THEN (LET kw == CName(StrOf(t.v, t.p), labs.p) IN
                                 IF ~kw.ok THEN Fatal(kw.msg)
                                 ELSE IF labs.v # <<>> /\ kw.v # KW_endfunc THEN Fatal("labels before a keyword at byte " \o ToString(pos))
                                 ELSE Keyword(kw.v, t.p, labs.v))
     ELSE IF IsU(t.tag) THEN Insn(labs.v, t.v, t.p)
     ELSE IF t.tag = TEOF THEN (IF labs.v # <<>> \/ fn.open \/ modname # <<>> THEN Fatal("unfinished func or module")
                                ELSE /\ st' = "done" /\ pos' = t.p
                                     /\ UNCHANGED <<cidx, enc, cnt, strs, lex, mods, modname, items, fn, dat, errs>>)
     ELSE Fatal("wrong token " \o ToString(t.tag) \o " at byte " \o ToString(labs.p))

(* ================================================================== ENCODE *)
(* the token list of a module set, then its serialisation.  tokens: [t, v] *)
TkU(w) == [t |-> "u", v |-> w]
TkI(w) == [t |-> "i", v |-> w]
TkN(b) == [t |-> "name", v |-> b \o <<0>>]
TkR(b) == [t |-> "reg", v |-> b \o <<0>>]
TkTag(n) == [t |-> "tag", v |-> n]
TkLab(w) == [t |-> "lab", v |-> w]
TypeTag(ty) == IF ty = "undef" THEN TkTag(TEOI) ELSE TkTag(TTYPE + IndexOf(TypeNames, ty, 1) - 1)
NatW(n) == <<n % 65536, n \div 65536, 0, 0>>
ExtendI(el, bits) ==      \* the element (limbs of its width) sign-extended to 64 bits
  CASE bits = 8 -> IF el[1] >= 128 THEN <<65280 + el[1], 65535, 65535, 65535>> ELSE <<el[1], 0, 0, 0>>
    [] bits = 16 -> IF el[1] >= 32768 THEN <<el[1], 65535, 65535, 65535>> ELSE <<el[1], 0, 0, 0>>
    [] bits = 32 -> IF el[2] >= 32768 THEN <<el[1], el[2], 65535, 65535>> ELSE <<el[1], el[2], 0, 0>>
    [] OTHER -> el
ExtendU(el, bits) == CASE bits = 8 -> <<el[1], 0, 0, 0>> [] bits = 16 -> <<el[1], 0, 0, 0>> [] bits = 32 -> <<el[1], el[2], 0, 0>> [] OTHER -> el
ElTok(ty, el) == LET kd == ElKind(ty) IN
                 IF kd = "i" THEN TkI(ExtendI(el, ElBits(ty))) ELSE IF kd = "u" THEN TkU(ExtendU(el, ElBits(ty))) ELSE [t |-> kd, v |-> el]
RECURSIVE Flat(_, _, _)
Flat(s, lo, hi) == IF lo > hi THEN <<>> ELSE IF lo = hi THEN s[lo] ELSE LET mid == (lo + hi) \div 2 IN Flat(s, lo, mid) \o Flat(s, mid + 1, hi)
FlatAll(s) == Flat(s, 1, Len(s))

ECase == Cases[cidx]
FuncIndex(m, fname) == CHOOSE i \in 1..Len(m.items) : m.items[i].k = "func" /\ m.items[i].name = fname
LabNum(mi, ii, n) == NatW(ECase.labbase + ((((mi - 1) * 32) + ii) * 64) + n)
ArgToks(args) == FlatAll([i \in 1..Len(args) |-> <<TypeTag(args[i].t), TkN(args[i].name)>> \o (IF IsBlkT(args[i].t) THEN <<TkU(args[i].size)>> ELSE <<>>)])
SigToks(it) == <<TkN(it.name), TkU(IF it.va THEN W(1) ELSE Zero), TkU(NatW(Len(it.res)))>> \o [i \in 1..Len(it.res) |-> TypeTag(it.res[i])]
               \o ArgToks(it.args) \o <<TkTag(TEOI)>>
OpToks(o, mi, ii) ==
  CASE o.k = "reg" -> <<TkR(o.name)>>
    [] o.k = "int" -> <<TkI(o.w)>> [] o.k = "uint" -> <<TkU(o.w)>>
    [] o.k \in {"f", "d", "ld"} -> <<[t |-> o.k, v |-> o.w]>>
    [] o.k = "ref" -> <<TkN(o.name)>>
    [] o.k = "str" -> <<[t |-> "str", v |-> o.b]>>
    [] o.k = "lab" -> <<TkLab(LabNum(mi, ii, o.n))>>
    [] o.k = "mem" -> LET hd == o.disp # Zero \/ (o.base = <<>> /\ o.index = <<>>)
                          al == o.alias # <<>> \/ o.nonalias # <<>>
                      IN <<TkTag((IF al THEN TAMEM ELSE TMEM) + MemKind(hd, o.base # <<>>, o.index # <<>>)), TypeTag(o.t)>>
                         \o (IF hd THEN <<TkI(o.disp)>> ELSE <<>>) \o (IF o.base # <<>> THEN <<TkR(o.base)>> ELSE <<>>)
                         \o (IF o.index # <<>> THEN <<TkR(o.index), TkU(NatW(o.scale))>> ELSE <<>>)
                         \o (IF al THEN <<TkN(o.alias), TkN(o.nonalias)>> ELSE <<>>)
InsnToks(ins, mi, ii) ==
  IF ins.op = "label" THEN <<TkLab(LabNum(mi, ii, ins.n))>>
  ELSE <<TkU(NatW(OpCode(ins.op)))>> \o FlatAll([q \in 1..Len(ins.ops) |-> OpToks(ins.ops[q], mi, ii)]) \o (IF ins.op \in VarOps THEN <<TkTag(TEOI)>> ELSE <<>>)
Kw2(name, plain, named) == IF name = <<>> THEN <<TkN(plain)>> ELSE <<TkN(named), TkN(name)>>
ItemToks(m, mi, ii) ==
  LET it == m.items[ii] IN
  CASE it.k = "import" -> <<TkN(KW_import), TkN(it.name)>>
    [] it.k = "export" -> <<TkN(KW_export), TkN(it.name)>>
    [] it.k = "forward" -> <<TkN(KW_forward), TkN(it.name)>>
    [] it.k = "bss" -> Kw2(it.name, KW_bss, KW_nbss) \o <<TkU(it.len)>>
    [] it.k = "ref" -> Kw2(it.name, KW_ref, KW_nref) \o <<TkN(it.ref), TkI(it.disp)>>
    [] it.k = "lref" -> Kw2(it.name, KW_lref, KW_nlref)
                        \o <<TkI(LabNum(mi, FuncIndex(m, it.l1[1]), it.l1[2])), TkI(IF it.l2 = <<>> THEN Ones ELSE LabNum(mi, FuncIndex(m, it.l2[1]), it.l2[2])), TkI(it.disp)>>
    [] it.k = "expr" -> Kw2(it.name, KW_expr, KW_nexpr) \o <<TkN(it.func)>>
    [] it.k = "data" -> Kw2(it.name, KW_data, KW_ndata) \o <<TypeTag(it.t)>> \o [i \in 1..Len(it.els) |-> ElTok(it.t, it.els[i])] \o <<TkTag(TEOI)>>
    [] it.k = "proto" -> <<TkN(KW_proto)>> \o SigToks(it)
    [] it.k = "func" -> <<TkN(KW_func)>> \o SigToks(it)
                        \o (IF it.locals = <<>> THEN <<>> ELSE <<TkN(KW_local)>> \o FlatAll([i \in 1..Len(it.locals) |-> <<TypeTag(it.locals[i].t), TkN(it.locals[i].name)>>]) \o <<TkTag(TEOI)>>)
                        \o (IF it.globals = <<>> THEN <<>> ELSE <<TkN(KW_global)>> \o FlatAll([i \in 1..Len(it.globals) |-> <<TypeTag(it.globals[i].t), TkN(it.globals[i].name), TkN(it.globals[i].hr)>>]) \o <<TkTag(TEOI)>>)
                        \o FlatAll([q \in 1..Len(it.insns) |-> InsnToks(it.insns[q], mi, ii)])
                        \o <<TkN(KW_endfunc)>>
ModToks(ms, mi) == <<TkN(KW_module), TkN(ms[mi].name)>> \o FlatAll([ii \in 1..Len(ms[mi].items) |-> ItemToks(ms[mi], mi, ii)]) \o <<TkN(KW_endmodule)>>
AllToks(ms) == FlatAll([mi \in 1..Len(ms) |-> ModToks(ms, mi)])

IsStrTok(tk) == tk.t \in {"reg", "name", "str"}
RECURSIVE Dedup(_, _, _, _)
(* strings in the order of their first occurrence *)
Dedup(toks, i, acc, seenset) ==
  IF i > Len(toks) THEN acc
  ELSE IF IsStrTok(toks[i]) /\ toks[i].v \notin seenset THEN Dedup(toks, i + 1, Append(acc, toks[i].v), seenset \cup {toks[i].v})
  ELSE Dedup(toks, i + 1, acc, seenset)

Min(a, b) == IF a < b THEN a ELSE b
ByteOf(w, i) == LET l == w[((i - 1) \div 2) + 1] IN IF (i % 2) = 1 THEN l % 256 ELSE l \div 256       \* i-th byte (1..) of a limb tuple
LE(w, nb) == [i \in 1..nb |-> IF i <= 2 * Len(w) THEN ByteOf(w, i) ELSE 0]
Slack == ECase.slack
SerU(w) == IF ULen(w) = 0 /\ Slack = 0 THEN <<128 + ToN(w)>>
           ELSE LET nb == Min(8, Max(1, MinBytes(w)) + Slack) IN <<TU1 + nb - 1>> \o LE(w, nb)
SerI(w) == LET nb == Min(8, ILen(w) + Slack) IN <<TI1 + nb - 1>> \o LE(w, nb)
SerX(base, w) == LET nb == Min(4, XLen(w) + Slack) IN <<base + nb - 1>> \o LE(w, nb)
Ser(tk, table) ==
  CASE tk.t = "u" -> SerU(tk.v) [] tk.t = "i" -> SerI(tk.v)
    [] tk.t = "f" -> <<TF>> \o LE(tk.v, 4) [] tk.t = "d" -> <<TD>> \o LE(tk.v, 8) [] tk.t = "ld" -> <<TLD>> \o LE(tk.v, 10) \o <<0, 0, 0, 0, 0, 0>>
    [] tk.t = "reg" -> SerX(TREG1, NatW(IndexOf(table, tk.v, 1) - 1))
    [] tk.t = "name" -> SerX(TNAME1, NatW(IndexOf(table, tk.v, 1) - 1))
    [] tk.t = "str" -> SerX(TSTR1, NatW(IndexOf(table, tk.v, 1) - 1))
    [] tk.t = "lab" -> SerX(TLAB1, tk.v)
    [] tk.t = "tag" -> <<tk.v>>
Encode(ms) ==
  LET toks == AllToks(ms)
      table == Dedup(toks, 1, <<>>, {})
  IN SerU(W(1)) \o SerU(NatW(Len(table))) \o FlatAll([i \in 1..Len(table) |-> SerU(NatW(Len(table[i]))) \o table[i]])
     \o FlatAll([i \in 1..Len(toks) |-> Ser(toks[i], table)]) \o <<TEOF>>

EncodeStep ==
  /\ st = "enc"
  /\ enc' = Encode(ECase.mods) /\ st' = "hdr"
  /\ UNCHANGED <<cidx, pos, cnt, strs, lex, mods, modname, items, fn, dat, errs>>

(* ================================================================== *)
Init ==
  /\ cidx \in 1..Len(Cases) /\ enc = <<>> /\ st = (IF Task = "encode" THEN "enc" ELSE "hdr") /\ pos = 1 /\ cnt = 0 /\ strs = <<>>
  /\ lex = [p |-> 0, seen |-> 0, ldpad |-> <<>>]
  /\ mods = <<>> /\ modname = <<>> /\ items = <<>> /\ fn = NoFn /\ dat = NoDat /\ errs = <<>>
Next == EncodeStep \/ Header \/ Strings \/ Lexical \/ Top \/ Data
Spec == Init /\ [][Next]_dvars

Result == [id |-> Cases[cidx].id, mods |-> mods', errs |-> errs', ldpad |-> lex'.ldpad, nbytes |-> NB]
EmitResult == (st # "done" /\ st' = "done") =>
                EmitJ(IF Task = "encode" THEN [id |-> Cases[cidx].id, mods |-> mods', errs |-> errs', bytes |-> enc'] ELSE Result)
=============================================================================
