INIT Init
NEXT Next
INVARIANT EmitInv
