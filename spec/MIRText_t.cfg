INIT Init
NEXT Next
ACTION_CONSTRAINT Emit
INVARIANTS RoundTripId TextFixpoint Deterministic SameRun
