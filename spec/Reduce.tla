------------------------------- MODULE Reduce -------------------------------
(* mir-reduce.h, decoding side (reduce_decode_start / reduce_decode_get /     *)
(* reduce_decode_finish) and the stream format.                               *)
(*                                                                            *)
(* Two layers.                                                                *)
(*  ABSTRACT: a compressed stream is "MIR", a sequence of elements            *)
(*    [sym, rl, ri], the end tag 0 and an 8-byte trailer.  ParseBody turns    *)
(*    bytes into elements (grammar only), Sem(els) gives validity and meaning *)
(*    (ValidStream / Expand), Serialise(els) the canonical bytes the encoder  *)
(*    writes.  Nothing here knows about buf/ind2pos cells.                    *)
(*  DECODER-SHAPED: record d with the C variables (pos, curr_ind, ind2pos,    *)
(*    buf, ok_p, eof_p, ...) and one operator per branch of the C code,       *)
(*    every bounds check as written.  Cells not written in the current        *)
(*    buffer are -1; touching one, or an index outside buf/ind2pos, stops the *)
(*    machine in a `bad` state (dst_overflow, src_stale, ind_uninit,          *)
(*    ind2pos_oob).  Fixed = FALSE is the code as written today;              *)
(*    Fixed = TRUE adds the four checks of findings/proposed/C12-*.diff.      *)
(*                                                                            *)
(* Input items: 0..255 are bytes.  256 + i + 8*x (i in 0..7) stands for byte  *)
(* i of the correct check hash xor x: the hash (mir_hash_strict) is kept out  *)
(* of TLA+ arithmetic.  A run ends with res = "rej", "hash" (accepted iff the *)
(* reported trailer equals the hash of the reported data; completed outside), *)
(* "disc" (a symbolic item was consumed as something else than the trailer:   *)
(* outside the defined domain) or "bad".                                      *)
EXTENDS Integers, Sequences, FiniteSets, TLC, Json, IOUtils, Emit

CONSTANTS BufLen, StartLen, MaxSymLen,   \* _REDUCE_BUF_LEN, _REDUCE_START_LEN, _REDUCE_MAX_SYMB_LEN
          Fixed,                         \* FALSE: decoder as written; TRUE: with the proposed checks
          Mode,                          \* "enum" | "streams" | "file" | "parse"
          MaxCost,                       \* enum: number of items after the prefix
          NE                             \* streams: max number of elements

VARIABLES src,      \* input items (enum: grows as the environment chooses bytes)
          rp,       \* items consumed by reader calls
          closed,   \* the input is complete (next reader call returns 0)
          cost,
          d,        \* decoder state (record)
          meta      \* case label (mutation / file case id)
vars == <<src, rp, closed, cost, d, meta>>

EOF == -1
Prefix == <<77, 73, 82>>
SymTagLong == 7
RefTagLong == 31
IsSymb(x) == x >= 256
Good == <<256, 257, 258, 259, 260, 261, 262, 263>>
BadT == <<264, 257, 258, 259, 260, 261, 262, 263>>    \* first hash byte xor 1
Min(a, b) == IF a < b THEN a ELSE b

(* ======================= uint32_t as two 16-bit limbs ==================== *)
WOf(n) == [hi |-> n \div 65536, lo |-> n % 65536]
WShl8Add(w, r) == [hi |-> (w.hi * 256 + w.lo \div 256) % 65536, lo |-> (w.lo % 256) * 256 + r]
WAdd(w, k) == LET s == w.lo + (k % 65536)
                  h == w.hi + (k \div 65536) + (s \div 65536)
              IN [hi |-> h % 65536, lo |-> s % 65536]
WGt(w, n) == w.hi > n \div 65536 \/ (w.hi = n \div 65536 /\ w.lo > n % 65536)
WInt(w) == w.hi * 65536 + w.lo       \* only used when w.hi < 16384

(* number of bytes announced by the first byte of a uint (_reduce_uint_read): *)
(* the loop leaves n = 5 for first bytes below 0x10                           *)
LeadN(x) == IF x >= 128 THEN 1 ELSE IF x >= 64 THEN 2 ELSE IF x >= 32 THEN 3 ELSE IF x >= 16 THEN 4 ELSE 5
LeadV(x, n) == IF n = 1 THEN x % 128 ELSE IF n = 2 THEN x % 64 ELSE IF n = 3 THEN x % 32 ELSE IF n = 4 THEN x % 16 ELSE x % 8

(* ============================ ABSTRACT LAYER ============================== *)
El(sym, rl, ri) == [sym |-> sym, rl |-> rl, ri |-> ri]
NoEl == [ok |-> FALSE, why |-> "grammar"]
NoEl5 == [ok |-> FALSE, why |-> "uint5"]

(* ---- canonical serialisation (what _reduce_symb_flush/_reduce_output_ref/_reduce_uint_write emit) *)
UintSer(u) ==
  IF u < 128 THEN <<128 + u>>
  ELSE IF u < 16384 THEN <<64 + u \div 256, u % 256>>
  ELSE IF u < 2097152 THEN <<32 + u \div 65536, (u \div 256) % 256, u % 256>>
  ELSE <<16 + u \div 16777216, (u \div 65536) % 256, (u \div 256) % 256, u % 256>>
SerEl(e) ==
  LET sl == Len(e.sym)
      sf == IF sl < SymTagLong THEN sl ELSE SymTagLong
      rv == e.rl - (StartLen - 1)
      rf == IF e.rl = 0 THEN 0 ELSE IF rv < RefTagLong THEN rv ELSE RefTagLong
  IN <<sf * 32 + rf>> \o (IF sf = SymTagLong THEN UintSer(sl) ELSE <<>>) \o e.sym
     \o (IF rf = RefTagLong THEN UintSer(rv) ELSE <<>>) \o (IF e.rl # 0 THEN UintSer(e.ri) ELSE <<>>)
RECURSIVE SerEls(_)
SerEls(els) == IF els = <<>> THEN <<>> ELSE SerEl(Head(els)) \o SerEls(Tail(els))
Serialise(els) == Prefix \o SerEls(els) \o <<0>> \o Good

(* ---- grammar: bytes -> elements *)
UintAt(b, i) ==
  IF i > Len(b) THEN NoEl
  ELSE LET x == b[i]
           n == LeadN(x)
       IN IF n > 4 THEN NoEl5 ELSE IF i + n - 1 > Len(b) THEN NoEl
          ELSE [ok |-> TRUE, nx |-> i + n,
                v |-> IF n = 1 THEN x % 128
                      ELSE IF n = 2 THEN (x % 64) * 256 + b[i + 1]
                      ELSE IF n = 3 THEN ((x % 32) * 256 + b[i + 1]) * 256 + b[i + 2]
                      ELSE (((x % 16) * 256 + b[i + 1]) * 256 + b[i + 2]) * 256 + b[i + 3]]
(* one element starting at b[i] (a tag other than 0) *)
ElAt(b, i) ==
  LET t == b[i]
      sf == t \div 32
      rf == t % 32
      su == IF sf = SymTagLong THEN UintAt(b, i + 1) ELSE [ok |-> TRUE, nx |-> i + 1, v |-> sf]
  IN IF t = 0 THEN NoEl ELSE IF ~su.ok THEN su
     ELSE LET se == su.nx + su.v          \* first index after the symbol bytes
          IN IF se - 1 > Len(b) THEN NoEl
             ELSE LET sym == SubSeq(b, su.nx, se - 1)
                      ru == IF rf = RefTagLong THEN UintAt(b, se) ELSE [ok |-> TRUE, nx |-> se, v |-> rf]
                  IN IF rf = 0 THEN [ok |-> TRUE, nx |-> se, e |-> El(sym, 0, 0)]
                     ELSE IF ~ru.ok THEN ru
                     ELSE LET iu == UintAt(b, ru.nx)
                          IN IF ~iu.ok THEN iu
                             ELSE [ok |-> TRUE, nx |-> iu.nx, e |-> El(sym, ru.v + StartLen - 1, iu.v)]
RECURSIVE ParseFrom(_, _, _)
ParseFrom(b, i, acc) ==
  IF i > Len(b) THEN [ok |-> TRUE, els |-> acc, why |-> ""]
  ELSE LET r == ElAt(b, i) IN IF ~r.ok THEN [ok |-> FALSE, els |-> <<>>, why |-> r.why] ELSE ParseFrom(b, r.nx, Append(acc, r.e))
ParseBody(b) == ParseFrom(b, 1, <<>>)

(* ---- meaning: ValidStream and Expand as one fold over the elements *)
(* st = [v, bd (bytes of the buffer being rebuilt), ip (start position of every symbol number), out] *)
SemStep(st, e) ==
  LET sl == Len(e.sym)
      bd1 == st.bd \o e.sym
      ip1 == st.ip \o [k \in 1..sl |-> Len(st.bd) + k - 1]
  IN IF ~st.v THEN st ELSE IF sl > MaxSymLen \/ Len(st.bd) + sl > BufLen THEN [st EXCEPT !.v = FALSE, !.why = "sym_bounds"]
     ELSE LET r == IF e.rl = 0 THEN [v |-> TRUE, bd |-> bd1, ip |-> ip1]
                   ELSE IF e.ri < 1 THEN [v |-> FALSE, why |-> "ri_zero"] ELSE IF e.ri > Len(ip1) THEN [v |-> FALSE, why |-> "ri_range"]      \* refers to an earlier symbol number
                   ELSE LET p == ip1[Len(ip1) - e.ri + 1]
                        IN IF Len(bd1) + e.rl > BufLen THEN [v |-> FALSE, why |-> "dst_bounds"]           \* source already rebuilt, before the write position
                           ELSE IF p + e.rl > Len(bd1) THEN [v |-> FALSE, why |-> "src_not_before_dst"] \* source rebuilt, before the write position
                           ELSE [v |-> TRUE, bd |-> bd1 \o SubSeq(bd1, p + 1, p + e.rl), ip |-> Append(ip1, Len(bd1))]
          IN IF ~r.v THEN [st EXCEPT !.v = FALSE, !.why = r.why]
             ELSE IF Len(r.bd) = BufLen THEN [v |-> TRUE, why |-> "", bd |-> <<>>, ip |-> <<>>, out |-> st.out \o r.bd]
             ELSE [v |-> TRUE, why |-> "", bd |-> r.bd, ip |-> r.ip, out |-> st.out]
RECURSIVE SemFrom(_, _, _)
SemFrom(els, i, st) == IF i > Len(els) \/ ~st.v THEN st ELSE SemFrom(els, i + 1, SemStep(st, els[i]))
Sem(els) == SemFrom(els, 1, [v |-> TRUE, why |-> "", bd |-> <<>>, ip |-> <<>>, out |-> <<>>])
ValidStream(els) == Sem(els).v
Expand(els) == LET s == Sem(els) IN s.out \o s.bd

(* ---- verdict of the abstract layer on a complete input *)
(* acc: "rej" | "hash" (accepted iff trailer = hash(data)) | "disc"; canon: the body is the canonical serialisation *)
AbsR(acc, why) == [acc |-> acc, why |-> why, data |-> <<>>, trl |-> <<>>, canon |-> FALSE, nel |-> 0]
Abs(s) ==
  LET n == Len(s) IN
  IF \E i \in 1..n : IsSymb(s[i]) /\ i <= n - 8 THEN AbsR("disc", "")
  ELSE IF n >= 3 /\ SubSeq(s, 1, 3) # Prefix THEN AbsR("rej", "prefix")
  ELSE IF n < 12 \/ SubSeq(s, 1, 3) # Prefix \/ s[n - 8] # 0 THEN AbsR("rej", "incomplete")
  ELSE LET body == SubSeq(s, 4, n - 9)
           p == ParseBody(body)
       IN IF ~p.ok THEN AbsR("rej", p.why)
          ELSE LET m == Sem(p.els) IN
          IF ~m.v THEN AbsR("rej", m.why)
          ELSE [acc |-> "hash", why |-> "", data |-> m.out \o m.bd, trl |-> SubSeq(s, n - 7, n),
                canon |-> (SerEls(p.els) = body /\ \A k \in 1..Len(p.els) : (p.els[k].rl = 0 \/ p.els[k].rl >= StartLen)
                                                                   /\ (p.els[k].rl # 0 \/ p.els[k].sym # <<>>)),
                nel |-> Len(p.els)]

(* ========================= DECODER-SHAPED LAYER =========================== *)
Cells == 0..BufLen - 1
D0 == [pc |-> "start", tag |-> 0, pos |-> 0, ci |-> 0,
       i2p |-> [i \in Cells |-> -1], buf |-> [i \in Cells |-> -1],
       okp |-> TRUE, eofp |-> FALSE, out |-> <<>>, rem |-> 0, uk |-> "", un |-> 0, uv |-> WOf(0),
       rl |-> WOf(0), trl |-> <<>>, bad |-> "", asrt |-> FALSE, res |-> ""]

Reject(s) == [s EXCEPT !.pc = "done", !.okp = FALSE, !.res = "rej"]          \* break; data->ok_p = FALSE; return -1
Discard(s) == [s EXCEPT !.pc = "done", !.res = "disc"]
BadStop(s, k) == [s EXCEPT !.pc = "done", !.bad = k, !.res = "bad"]
BufData(s, n) == [i \in 1..n |-> s.buf[i - 1]]

(* "if (pos >= _REDUCE_BUF_LEN) { assert (pos == _REDUCE_BUF_LEN); hash; buf_bound = BUF_LEN; return buf[0] }":   *)
(* the caller drains the buffer; the next call restarts with pos = curr_ind = 0.  Cells of buf/ind2pos keep stale   *)
(* values in C; the model marks them unwritten, so that any later read of a stale cell is a `bad` state.           *)
AfterElem(s) ==
  IF s.pos >= BufLen
  THEN [s EXCEPT !.pc = "tag", !.out = s.out \o BufData(s, BufLen), !.pos = 0, !.ci = 0,
                 !.buf = [i \in Cells |-> -1], !.i2p = [i \in Cells |-> -1]]
  ELSE [s EXCEPT !.pc = "tag"]

(* "ref_len = tag & _REDUCE_REF_TAG_LONG; if (ref_len != 0) {...}" *)
RefPhase(s) ==
  LET rf == s.tag % 32 IN
  IF rf = 0 THEN AfterElem(s)
  ELSE IF rf = RefTagLong THEN [s EXCEPT !.pc = "uint", !.uk = "ref", !.un = 0]
  ELSE [s EXCEPT !.pc = "uint", !.uk = "ind", !.un = 0, !.rl = WOf(rf + StartLen - 1)]      \* ref_len += START_LEN - 1

(* "if (sym_len > _REDUCE_MAX_SYMB_LEN || pos + sym_len > _REDUCE_BUF_LEN) break;" then the read of the symbol *)
SymCheck(s, w) ==
  IF WGt(w, MaxSymLen) \/ s.pos + WInt(w) > BufLen THEN Reject(s)
  ELSE IF WInt(w) = 0 THEN RefPhase(s)
  ELSE [s EXCEPT !.pc = "sym", !.rem = WInt(w)]

(* the back reference, lines 408-413 *)
RefApply(s, ri) ==
  IF WGt(ri, s.ci) THEN Reject(s)                                           \* if (curr_ind < ref_ind) break;
  ELSE IF Fixed /\ WInt(ri) = 0 THEN Reject(s)                              \* [fix] ref_ind == 0
  ELSE LET idx == s.ci - WInt(ri) IN
  IF idx >= BufLen THEN BadStop(s, "ind2pos_oob")                           \* ind2pos[curr_ind - ref_ind] outside the array
  ELSE IF s.i2p[idx] = -1 THEN BadStop(s, "ind_uninit")                     \* entry not written for this buffer
  ELSE LET sp == s.i2p[idx]
           sum == WAdd(s.rl, sp)                                            \* sym_pos + ref_len in uint32_t
       IN
  IF WGt(sum, BufLen) THEN Reject(s)                                        \* if (sym_pos + ref_len > BUF_LEN) break;
  ELSE IF s.rl.hi >= 16384 THEN BadStop(s, "dst_overflow")                  \* the sum wrapped: memcpy of ~4G bytes
  ELSE LET L == WInt(s.rl) IN
  IF Fixed /\ (sp + L > s.pos \/ s.pos + L > BufLen) THEN Reject(s)         \* [fix] source before, destination inside
  ELSE IF s.pos + L > BufLen THEN BadStop(s, "dst_overflow")                \* memcpy writes past buf[]
  ELSE IF sp + L > s.pos THEN BadStop(s, "src_stale")                       \* memcpy reads cells not yet rebuilt / overlaps
  ELSE IF s.ci >= BufLen THEN BadStop(s, "ind2pos_oob")                     \* ind2pos[curr_ind++] = pos
  ELSE AfterElem([s EXCEPT !.buf = [i \in Cells |-> IF i >= s.pos /\ i < s.pos + L THEN s.buf[sp + i - s.pos] ELSE s.buf[i]],
                           !.i2p = [s.i2p EXCEPT ![s.ci] = s.pos], !.ci = s.ci + 1, !.pos = s.pos + L])

UintDone(s, v) ==
  IF s.uk = "sym" THEN SymCheck(s, v)
  ELSE IF s.uk = "ref" THEN [s EXCEPT !.pc = "uint", !.uk = "ind", !.un = 0, !.rl = WAdd(v, StartLen - 1)]
  ELSE RefApply(s, v)

(* ---- one operator per reader call / branch; x is the item delivered or EOF *)
StepTag(s, x) ==
  IF x = EOF THEN Reject(s)                                                 \* if (reader (&tag, 1) == 0) break;
  ELSE IF IsSymb(x) THEN Discard(s)
  ELSE IF x = 0 THEN [s EXCEPT !.pc = "hash"]
  ELSE LET sf == x \div 32
           t == [s EXCEPT !.tag = x]
       IN IF sf = 0 THEN RefPhase(t)
          ELSE IF sf = SymTagLong THEN [t EXCEPT !.pc = "uint", !.uk = "sym", !.un = 0]
          ELSE SymCheck(t, WOf(sf))

StepUint(s, x) ==
  IF x = EOF THEN Reject(s)                                                 \* _reduce_uint_read returns -1
  ELSE IF IsSymb(x) THEN Discard(s)
  ELSE IF s.un = 0
  THEN LET n == LeadN(x) IN
       IF n = 5 /\ Fixed THEN Reject(s)                                     \* [fix] not a uint written by _reduce_uint_write
       ELSE LET t == [s EXCEPT !.asrt = s.asrt \/ x < 8]                    \* assert ((u >> (8 - n)) == 1) (absent under NDEBUG)
            IN IF n = 1 THEN UintDone(t, WOf(LeadV(x, n)))
               ELSE [t EXCEPT !.un = n - 1, !.uv = WOf(LeadV(x, n))]
  ELSE LET v == WShl8Add(s.uv, x) IN                                        \* v = v * 256 + r   (uint32_t)
       IF s.un = 1 THEN UintDone(s, v) ELSE [s EXCEPT !.un = s.un - 1, !.uv = v]

StepSym(s, x) ==
  IF x = EOF THEN Reject(s)                                                 \* reader (...) != sym_len
  ELSE IF IsSymb(x) THEN Discard(s)
  ELSE IF s.ci >= BufLen THEN BadStop(s, "ind2pos_oob")                     \* ind2pos[curr_ind] = pos
  ELSE LET t == [s EXCEPT !.buf = [s.buf EXCEPT ![s.pos] = x], !.i2p = [s.i2p EXCEPT ![s.ci] = s.pos],
                          !.pos = s.pos + 1, !.ci = s.ci + 1, !.rem = s.rem - 1]
       IN IF t.rem = 0 THEN RefPhase(t) ELSE t

(* after the 8 trailer bytes: "|| reader (&tag, 1) != 0) break;" then hash compare (deferred), eof_p = TRUE *)
StepPost(s, x) ==
  IF x # EOF THEN Reject(s)
  ELSE [s EXCEPT !.pc = "fin", !.eofp = TRUE, !.out = s.out \o BufData(s, s.pos)]
(* reduce_decode_finish: ok_p && eof_p && reader (&tag, 1) == 0 *)
StepFin(s, x) ==
  IF x = EOF /\ s.okp /\ s.eofp THEN [s EXCEPT !.pc = "done", !.res = "hash"] ELSE Reject(s)

Step(s, x) ==
  CASE s.pc = "tag" -> StepTag(s, x)
    [] s.pc = "uint" -> StepUint(s, x)
    [] s.pc = "sym" -> StepSym(s, x)
    [] s.pc = "post" -> StepPost(s, x)
    [] s.pc = "fin" -> StepFin(s, x)

(* ============================== ENVIRONMENT =============================== *)
CONSTANTS TagSymF, TagRefF, DataBytes, UintLead, UintCont
TagOffer == ({sf * 32 + rf : sf \in TagSymF, rf \in TagRefF} \ {0}) \cup {0}
Offer(s) ==
  CASE s.pc = "tag" -> TagOffer
    [] s.pc = "uint" -> IF s.un = 0 THEN UintLead ELSE UintCont
    [] s.pc = "sym" -> DataBytes
    [] s.pc = "post" -> {97}
    [] OTHER -> {}

Avail(off) ==
  IF rp < Len(src) THEN {src[rp + 1]}
  ELSE IF closed THEN {EOF}
  ELSE (IF cost < MaxCost THEN off ELSE {}) \cup {EOF}
Consume(x) ==
  IF rp < Len(src) THEN rp' = rp + 1 /\ UNCHANGED <<src, closed, cost>>
  ELSE IF x = EOF THEN closed' = TRUE /\ UNCHANGED <<src, rp, cost>>
  ELSE src' = Append(src, x) /\ rp' = rp + 1 /\ cost' = cost + 1 /\ UNCHANGED closed

(* reduce_decode_start: one reader call for the 3 prefix bytes; a wrong prefix only clears ok_p, decoding goes on *)
DoStart ==
  /\ d.pc = "start"
  /\ LET n == Min(3, Len(src)) IN
     /\ rp' = n
     /\ d' = [d EXCEPT !.pc = "tag", !.okp = (n = 3 /\ SubSeq(src, 1, 3) = Prefix)]
  /\ UNCHANGED <<src, closed, cost, meta>>

(* the 8-byte trailer is one reader call; in enum mode the environment supplies it as one block *)
DoHash ==
  /\ d.pc = "hash"
  /\ \/ /\ rp + 8 <= Len(src)
        /\ d' = [d EXCEPT !.pc = "post", !.trl = SubSeq(src, rp + 1, rp + 8)]
        /\ rp' = rp + 8 /\ UNCHANGED <<src, closed, cost>>
     \/ /\ rp + 8 > Len(src) /\ (closed \/ rp < Len(src))
        /\ d' = Reject(d) /\ rp' = Len(src) /\ closed' = TRUE /\ UNCHANGED <<src, cost>>
     \/ /\ rp = Len(src) /\ ~closed
        /\ \/ \E t \in {Good, BadT} : /\ cost < MaxCost
                                      /\ src' = src \o t /\ rp' = rp + 8 /\ cost' = cost + 1 /\ UNCHANGED closed
                                      /\ d' = [d EXCEPT !.pc = "post", !.trl = t]
           \/ \E j \in {0, 7} : /\ src' = src \o SubSeq(Good, 1, j) /\ rp' = rp + j /\ closed' = TRUE /\ UNCHANGED cost
                                /\ d' = Reject(d)
  /\ UNCHANGED meta

DoRead ==
  /\ d.pc \in {"tag", "uint", "sym", "post", "fin"}
  /\ \E x \in Avail(Offer(d)) : d' = Step(d, x) /\ Consume(x)
  /\ UNCHANGED meta

(* "parse" mode: abstract layer only (production constants: no cell arrays) *)
DoParse == d.pc = "start" /\ Mode = "parse" /\ d' = [d EXCEPT !.pc = "done", !.res = "abs"] /\ UNCHANGED <<src, rp, closed, cost, meta>>

Next == IF Mode = "parse" THEN DoParse ELSE DoStart \/ DoHash \/ DoRead

(* ---- initial states per mode *)
(* enum: every byte string, as a tree; bytes in symbol position are restricted to DataBytes (the decoder only copies them) *)
BadPrefixes == {<<>>, <<77, 73>>, <<77, 73, 83>>}
InitEnum == /\ src \in {Prefix} \cup BadPrefixes /\ rp = 0 /\ closed = (Len(src) < 3) /\ cost = (IF src = Prefix THEN 0 ELSE 2) /\ d = D0 /\ meta = <<"enum">>

(* streams: all sequences of at most NE elements of ElemSet, serialised, then every truncation, every        *)
(* single-item substitution from SubstVals, the one-byte extension, a damaged prefix                          *)
CONSTANTS ElemSet, SubstVals
RECURSIVE SeqsUpTo(_, _)
SeqsUpTo(S, n) == IF n = 0 THEN {<<>>} ELSE LET r == SeqsUpTo(S, n - 1) IN r \cup {Append(q, e) : q \in {q2 \in r : Len(q2) = n - 1}, e \in S}
Mutations(s) ==
  {[k |-> "none", src |-> s]}
  \cup {[k |-> "trunc", src |-> SubSeq(s, 1, n)] : n \in 0..Len(s) - 1}
  \cup {[k |-> "subst", src |-> [s EXCEPT ![iv[1]] = iv[2]]] : iv \in {jv \in (1..Len(s)) \X SubstVals : jv[2] # s[jv[1]]}}
  \cup {[k |-> "ext", src |-> Append(s, v)] : v \in {0, 97}}
InitStreams ==
  \E els \in SeqsUpTo(ElemSet, NE) :
    \E m \in (IF ValidStream(els) THEN Mutations(Serialise(els)) ELSE {[k |-> "invalid", src |-> Serialise(els)]}) :
      /\ src = m.src /\ rp = 0 /\ closed = TRUE /\ cost = 0 /\ d = D0 /\ meta = <<m.k, els>>

(* file / parse: cases come from a newline-delimited JSON file: {"id":n,"src":[...],"inp":[...]} *)
Cases == IF "C12FILE" \in DOMAIN IOEnv THEN ndJsonDeserialize(IOEnv.C12FILE) ELSE <<>>
InitFile == \E c \in 1..Len(Cases) : /\ src = Cases[c].src /\ rp = 0 /\ closed = TRUE /\ cost = 0 /\ d = D0
                                     /\ meta = <<"file", Cases[c].id, Cases[c].inp>>

Init == CASE Mode = "enum" -> InitEnum [] Mode = "streams" -> InitStreams [] OTHER -> InitFile
Spec == Init /\ [][Next]_vars

(* =============================== PROPERTIES =============================== *)
Done == d.pc = "done"
(* MemorySafe: for any input the decoder never touches an index outside buf/ind2pos nor a cell it has not written *)
MemorySafe == d.bad = ""
NoAssert == ~d.asrt
(* Strict + Lossless, on complete runs: the machine accepts exactly what the abstract layer accepts, with the same data and trailer *)
Agree ==
  (Done /\ Mode # "parse" /\ d.res # "disc" /\ d.res # "bad") =>
     LET a == Abs(src) IN
     a.acc = "disc" \/ (a.acc = d.res /\ (a.acc = "hash" => (a.data = d.out /\ a.trl = d.trl)))
Strict == (Done /\ d.res = "hash") => LET a == Abs(src) IN a.acc \in {"hash", "disc"}
Lossless ==
  (Done /\ Mode = "streams" /\ meta[1] = "none") =>
     /\ d.res = "hash" /\ d.out = Expand(meta[2]) /\ d.trl = Good
     /\ LET p == ParseBody(SubSeq(src, 4, Len(src) - 9)) IN p.ok /\ p.els = meta[2]     \* the grammar inverts Serialise
InvalidRejected == (Done /\ Mode = "streams" /\ meta[1] = "invalid") => d.res \in {"rej", "bad"}

(* =============================== EMISSION ================================= *)
(* row: <<src, res, bad, asrt, data (only when accepted), trailer, abs verdict, abs reason, mutation kind>> *)
CaseRec(s, dd, m) ==
  LET a == Abs(s)
      data == IF dd.res = "hash" THEN dd.out ELSE a.data
      \* data whose hash the symbolic items stand for: the original stream's meaning for mutated streams
      hd == IF Mode = "streams" /\ m[1] # "invalid" THEN Expand(m[2]) ELSE data
  IN <<s, dd.res, dd.bad, dd.asrt, data, IF dd.res = "hash" THEN dd.trl ELSE a.trl, a.acc, a.why, m[1], IF hd = data THEN 0 ELSE hd>>
EmitAll == (d'.pc = "done" /\ d.pc # "done") => EmitJ(CaseRec(src', d', meta'))
(* as-written runs: only the runs that end in a bad state, would fail an assertion, or disagree with the abstract layer *)
EmitBad == (d'.pc = "done" /\ d.pc # "done" /\ (d'.bad # "" \/ d'.asrt \/ (d'.res = "hash" /\ Abs(src').acc = "rej"))) => EmitJ(CaseRec(src', d', meta'))
(* file / parse: no data in the output, the comparison with the input is done here *)
EmitFile ==
  (d'.pc = "done" /\ d.pc # "done") =>
     LET a == Abs(src) IN
     EmitJ([id |-> meta[2], abs |-> a.acc, why |-> a.why, canon |-> a.canon, nel |-> a.nel, dataeq |-> (a.acc = "hash" /\ a.data = meta[3]), dlen |-> Len(a.data),
            trl |-> a.trl, res |-> d'.res, bad |-> d'.bad, asrt |-> d'.asrt, outeq |-> (d'.out = meta[3]), mtrl |-> d'.trl])

(* unbounded MemorySafe: the input history is hidden, only the decoder state is fingerprinted *)
ViewD == <<[d EXCEPT !.out = <<>>], closed, IF d.pc = "start" THEN src ELSE <<>>>>

(* ---- constant sets for the configurations *)
CostEnv == IF "C12COST" \in DOMAIN IOEnv THEN atoi(IOEnv.C12COST) ELSE 8
NEEnv == IF "C12NE" \in DOMAIN IOEnv THEN atoi(IOEnv.C12NE) ELSE 2
ElemsSmall == {El(<<97>>, 0, 0), El(<<97, 98>>, 0, 0), El(<<97, 98, 97, 97>>, 0, 0), El(<<97, 97, 98, 98, 97, 98, 97>>, 0, 0),
               El(<<>>, 4, 1), El(<<>>, 4, 4), El(<<>>, 5, 2), El(<<>>, 8, 5), El(<<98>>, 4, 2), El(<<98>>, 4, 5),
               El(<<>>, 4, 0), El(<<98, 98, 98, 98>>, 4, 4), El(<<>>, 12, 6)}
ElemsTiny == {El(<<97>>, 0, 0), El(<<97, 98, 97, 97>>, 0, 0), El(<<>>, 4, 1), El(<<>>, 4, 4), El(<<98>>, 4, 5), El(<<>>, 4, 0), El(<<>>, 8, 5)}
=============================================================================
