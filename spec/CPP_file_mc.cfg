CONSTANTS
  Fam = "file"
  NM = 1
  KindSet = {"def_obj", "def_fn", "call2", "call1", "call0", "if_expr", "elif", "else_end", "ifdef", "undef", "include", "digraph", "argcmt"}
  MaxBody = 3
  MaxInv = 4
  BodyAlpha = {"x", "y", "V", "#x", "#y", "#V", "#", "##", "f", "a", "1"}
  InvAlpha = {"0x", "1", ".", "e", "E", "p", "+", "-", "X", " "}
  VarWs = FALSE
  InvHead = TRUE
  InvBal = TRUE
  NameScheme = 1
  MaxLines = 1
  MaxNest = 1
  CondSet = {"0"}
  LineSet = {"endif"}
  MaxD = 0
  AtomSet = {"0"}
  GapSet = {"no", "sp", "bc", "bn", "lc", "nl", "snl"}
  OpSet = {"+"}
INIT Init
NEXT Next
INVARIANT EmitInv
