CONSTANTS
  Names = {"a", "b", "c"}
  ShapeIds = {1, 2, 3, 4, 5, 6, 9, 10, 11, 12, 13, 14}
  ExtNames = {"a", "b", "c"}
  MaxMods = 8
  MaxExt = 5
  MaxToggle = 4
  IllMaxStep = 16
  AvoidErrors = TRUE
  Depth = 16
INIT Init
NEXT Next
ACTION_CONSTRAINT EmitEnd
INVARIANTS BindLatest LocalBinding RedefRejected ConstructErrors UndefinedReported EnvIsLatest Shape
PROPERTIES OldBindingsStable CallValuesStable
