-------------------------------- MODULE Varr --------------------------------
(* mir-varr.h: [num, cap, els] with the growth rule of VARR_EXPAND           *)
(* (cap < n  =>  cap' = n + n \div 2), VARR_TAILOR (num = cap = n) and the   *)
(* sequence operations.  Elements created by TAILOR are uninitialised: U.    *)
EXTENDS Integers, Sequences, FiniteSets, TLC, Json, Emit
CONSTANTS InitCap, Vals, MaxCap, Depth
VARIABLES num, cap, els, h
vars == <<num, cap, els, h>>
View == <<num, cap, els>>
U == -1
Init == num = 0 /\ cap = (IF InitCap = 0 THEN 64 ELSE InitCap) /\ els = <<>> /\ h = <<>>
Grow(c, n) == IF c < n THEN n + n \div 2 ELSE c
Log(op, a, ret) == h' = Append(h, [op |-> op, a |-> a, ret |-> ret, num |-> num', cap |-> cap', els |-> els'])
Push(x) == cap' = Grow(cap, num + 1) /\ num' = num + 1 /\ els' = Append(els, x) /\ Log("push", <<x>>, 0)
PushArr(xs) == cap' = Grow(cap, num + Len(xs)) /\ num' = num + Len(xs) /\ els' = els \o xs /\ Log("push_arr", xs, 0)
Pop == num > 0 /\ cap' = cap /\ num' = num - 1 /\ els' = SubSeq(els, 1, num - 1) /\ Log("pop", <<>>, els[num])
Trunc(n) == n <= num /\ cap' = cap /\ num' = n /\ els' = SubSeq(els, 1, n) /\ Log("trunc", <<n>>, 0)
Expand(n) == cap' = Grow(cap, n) /\ UNCHANGED <<num, els>> /\ Log("expand", <<n>>, IF cap < n THEN 1 ELSE 0)
Tailor(n) == cap' = n /\ num' = n /\ els' = [i \in 1..n |-> IF i <= num THEN els[i] ELSE U] /\ Log("tailor", <<n>>, 0)
Set(i, x) == i < num /\ UNCHANGED <<num, cap>> /\ els' = [els EXCEPT ![i + 1] = x] /\ Log("set", <<i, x>>, 0)
Get(i) == i < num /\ UNCHANGED <<num, cap, els>> /\ Log("get", <<i>>, els[i + 1])
Last == num > 0 /\ UNCHANGED <<num, cap, els>> /\ Log("last", <<>>, els[num])
Next == \/ \E x \in Vals : Push(x)
        \/ \E x \in Vals, y \in Vals : PushArr(<<x, y>>) \/ PushArr(<<x, y, x>>)
        \/ PushArr(<<>>) \/ Pop \/ Last
        \/ \E n \in 0..MaxCap : Trunc(n) \/ Expand(n) \/ (n > 0 /\ Tailor(n))
        \/ \E i \in 0..MaxCap, x \in Vals : Set(i, x)
        \/ \E i \in 0..MaxCap : Get(i)
Spec == Init /\ [][Next]_vars
Shape == num = Len(els) /\ num <= cap
Bound == Len(h) <= Depth /\ cap <= MaxCap + MaxCap \div 2
EmitH == EmitJ([init |-> InitCap, h |-> h'])
=============================================================================
