CONSTANTS
  OpTypes = {"sc", "us", "i", "u", "l", "ull"}
  ResTypes = {"i", "u", "l", "ul", "ll", "ull"}
  GridSel = "full"
  MaxVa = 0
  Variants = {"cv", "ri"}
INIT Init
NEXT Next
INVARIANT EmitInv
