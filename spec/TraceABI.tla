------------------------------ MODULE TraceABI ------------------------------
(* Direction B for C06: validates recorded executions of MIR functions called by a native caller.       *)
(* The trace (ndjson, IOEnv.TRACE) is a sequence of triples                                              *)
(*   Call  - signature, body kind, and the raw machine image the native caller set up: argument registers *)
(*           and stack eightbytes (16-bit limbs), callee-saved sentinels, MXCSR, x87 CW, seed words        *)
(*   Obs   - what the MIR function observed: one or more words per parameter, the words it read with      *)
(*           va_arg/va_block_arg, live values kept across calls, alloca records, inner-call probes        *)
(*   Ret   - the machine state the native caller saw after the return                                    *)
(* For every triple the expected observations are derived from the raw image with SysVABI!PlaceAll /     *)
(* VaStart / VaArg / Results; nothing the driver computed is trusted except the format conversion.       *)
(* The validator never blocks: every failed check is emitted (EmitJ) with the trace line, so that one    *)
(* run reports all deviations; acceptance = whole trace consumed (POSTCONDITION) and nothing emitted.    *)
EXTENDS SysVABI, IOUtils

VARIABLES i,       \* next trace line
          cur,     \* the Call record of the execution being validated
          sum      \* checksum of the expected observation words (4 limbs)

Tr == ndJsonDeserialize(IOEnv.TRACE)
tvars == <<i, cur, sum, st, h, res, nf>>

(* --------------------------------------------------------- 64-bit words as 4 little-endian 16-bit limbs *)
Zero == <<0, 0, 0, 0>>
Ones == 65535
(* value held by a MIR register for an integer parameter of `bits` bits: the caller defines only the low bits *)
ExtW(w, bits, sg) ==
  CASE bits = 8 -> LET b == w[1] % 256 IN IF sg /\ b >= 128 THEN <<b + 65280, Ones, Ones, Ones>> ELSE <<b, 0, 0, 0>>
    [] bits = 16 -> IF sg /\ w[1] >= 32768 THEN <<w[1], Ones, Ones, Ones>> ELSE <<w[1], 0, 0, 0>>
    [] bits = 32 -> IF sg /\ w[2] >= 32768 THEN <<w[1], w[2], Ones, Ones>> ELSE <<w[1], w[2], 0, 0>>
    [] OTHER -> w
(* the first k bytes (1..8) of an eightbyte, the rest cleared *)
MaskBytes(w, k) == [m \in 1..4 |-> IF 2 * m <= k THEN w[m] ELSE IF 2 * m - 1 = k THEN w[m] % 256 ELSE 0]
Min(a, b) == IF a < b THEN a ELSE b

WordAt(c, l) == IF l.c = "gpr" THEN c.gpr[l.i + 1]
                ELSE IF l.c = "xmm" THEN c.xmm[l.i + 1]
                ELSE c.stk[l.i \div 8 + 1]

(* the words a function body records for one parameter / variadic argument that lives at locs *)
WordsOf(c, k, locs) ==
  CASE k.t \in IntTypes -> <<ExtW(WordAt(c, locs[1]), Bits(k.t), Signed(k.t))>>
    [] k.t = "rblk" -> <<WordAt(c, locs[1])>>
    [] k.t = "f" -> <<MaskBytes(WordAt(c, locs[1]), 4)>>
    [] k.t = "d" -> <<WordAt(c, locs[1])>>
    [] k.t = "ld" -> <<WordAt(c, locs[1]), MaskBytes(WordAt(c, locs[2]), 2)>>
    [] OTHER -> [j \in 1..NEight(k) |-> MaskBytes(WordAt(c, locs[j]), Min(8, k.n - 8 * (j - 1)))]

RECURSIVE Flat(_)
Flat(ss) == IF ss = <<>> THEN <<>> ELSE Head(ss) \o Flat(Tail(ss))
(* index of the argument each flattened word belongs to *)
RECURSIVE Owner(_, _)
Owner(ss, n) == IF ss = <<>> THEN <<>> ELSE [j \in 1..Len(Head(ss)) |-> n] \o Owner(Tail(ss), n + 1)

NFix(c) == IF c.nfix < 0 THEN Len(c.sig) ELSE c.nfix
Fixed(c) == SubSeq(c.sig, 1, NFix(c))
VTail(c) == SubSeq(c.sig, NFix(c) + 1, Len(c.sig))
ParamLocs(c) == PlaceAll(Fixed(c)).locs                       \* named parameters: psABI 3.2.3
VaLocs(c) == VaAll(VaStart(Fixed(c)), VTail(c))               \* variadic reads: psABI 3.5.7 va_arg
ParamWordSeqs(c) == LET locs == ParamLocs(c) IN [a \in 1..NFix(c) |-> WordsOf(c, c.sig[a], locs[a])]
VaWordSeqs(c) == LET locs == VaLocs(c)
                     tl == VTail(c)
                 IN [a \in 1..Len(tl) |-> WordsOf(c, tl[a], locs[a])]

(* position-sensitive checksum the bodies compute: limb k of S = sum over words of index * limb k, mod 2^16 *)
RECURSIVE WSum(_, _, _)
WSum(ws, k, n) == IF n = 0 THEN 0 ELSE WSum(ws, k, n - 1) + n * ws[n][k]
Checksum(ws) == [k \in 1..4 |-> WSum(ws, k, Len(ws)) % 65536]
RotL(s, j) == [k \in 1..4 |-> s[((k - 1 - j) % 4) + 1]]       \* rotate left by 16*j bits

(* ------------------------------------------------------------------------------------ checks *)
(* alloca regions, in bytes below the caller's rsp: (below - size, below] must not intersect *)
Apart(b1, s1, b2, s2) == b1 - s1 >= b2 \/ b2 - s2 >= b1
F(k, a, t, e, g) == [k |-> k, a |-> a, t |-> t, exp |-> e, got |-> g]

CmpWords(kind, exp, got, own, types) ==
  IF Len(exp) # Len(got) THEN {F(kind \o "_count", 0, "", <<Len(exp)>>, <<Len(got)>>)}
  ELSE {F(kind, own[j] - 1, types[own[j]].t, exp[j], got[j]) : j \in {x \in 1..Len(exp) : exp[x] # got[x]}}

ObsFails(c, o) ==
  LET pw == ParamWordSeqs(c)
      vw == VaWordSeqs(c)
      seeds == c.seeds
  IN CmpWords("param", Flat(pw), o.words, Owner(pw, 1), Fixed(c))
     \cup (IF c.body \in {"va", "vacalls"} THEN CmpWords("va", Flat(vw), o.va, Owner(vw, 1), VTail(c)) ELSE {})
     \cup (IF c.body \in {"press", "calls", "vacalls", "alloca"}
           THEN {F("live", j - 1, "", seeds[j], o.live[j]) : j \in {x \in 1..Len(seeds) : x <= Len(o.live) /\ o.live[x] # seeds[x]}}
                \cup (IF Len(o.live) < Len(seeds) THEN {F("live_count", 0, "", <<Len(seeds)>>, <<Len(o.live)>>)} ELSE {})
           ELSE {})
     \cup (IF c.body \in {"calls", "vacalls", "alloca"}
           THEN (IF o.calign # 0 THEN {F("inner_call_align", 0, "", <<0>>, <<o.calign>>)} ELSE {})
                \cup (IF o.cx87 # 0 THEN {F("inner_call_x87", 0, "", <<0>>, <<o.cx87>>)} ELSE {})
                \cup (IF o.cdf # 0 THEN {F("inner_call_df", 0, "", <<0>>, <<o.cdf>>)} ELSE {})
                \cup (IF o.nclob # c.nclob THEN {F("inner_call_count", 0, "", <<c.nclob>>, <<o.nclob>>)} ELSE {})
                \cup (IF o.inner # c.inner THEN {F("inner_call_result", 0, "", c.inner, o.inner)} ELSE {})
           ELSE {})
     \cup (IF c.body = "alloca"
           THEN UNION {
             LET r == o.alloca[a]
                 sz == c.asz[a]
                 pat == seeds[a]
                 e0 == IF sz >= 8 THEN pat ELSE MaskBytes(pat, 1)
             IN (IF r.m16 # 0 THEN {F("alloca_align", a - 1, "", <<0>>, <<r.m16>>)} ELSE {})
                \cup (IF r.below < sz + 8 THEN {F("alloca_above_sp", a - 1, "", <<sz>>, <<r.below>>)} ELSE {})
                \cup (IF r.rb0 # e0 THEN {F("alloca_content", a - 1, "", e0, r.rb0)} ELSE {})
                \cup (IF sz >= 16 /\ r.rb1 # pat THEN {F("alloca_content", a - 1, "", pat, r.rb1)} ELSE {})
             : a \in 1..Len(o.alloca)}
                \cup (IF Len(o.alloca) = 2 /\ ~Apart(o.alloca[1].below, c.asz[1], o.alloca[2].below, c.asz[2])
                      THEN {F("alloca_overlap", 0, "", <<>>, <<>>)} ELSE {})
           ELSE {})

(* expected value of result slot j (1-based) of type t *)
ExpRes(s, j, t) ==
  LET r == RotL(s, (j - 1) % 4)
  IN CASE t = "f" -> <<r[1], (r[2] % 128) + 16256>>
       [] t = "d" -> <<r[1], r[2], r[3], (r[4] % 16) + 16368>>
       [] t = "ld" -> <<r[1], r[2], r[3], (r[4] % 32768) + 32768, 16383>>
       [] Bits(t) = 8 -> <<r[1] % 256>>
       [] Bits(t) = 16 -> <<r[1]>>
       [] Bits(t) = 32 -> <<r[1], r[2]>>
       [] OTHER -> r
(* the part of the result register the declared type defines *)
GotRes(x, t, reg) ==
  LET w == x[reg]
  IN CASE t = "f" -> <<w[1], w[2]>>
       [] t \in {"d", "ld"} -> w
       [] Bits(t) = 8 -> <<w[1] % 256>>
       [] Bits(t) = 16 -> <<w[1]>>
       [] Bits(t) = 32 -> <<w[1], w[2]>>
       [] OTHER -> w

CSNames == CalleeSavedSeq
RetFails(c, s, x) ==
  LET rs == Results(c.res)
      nx87 == Cardinality({j \in 1..Len(c.res) : c.res[j] = "ld"})
  IN {F("result", j - 1, c.res[j] \o ":" \o rs[j].reg, ExpRes(s, j, c.res[j]), GotRes(x, c.res[j], rs[j].reg)) :
        j \in {y \in 1..Len(c.res) : ExpRes(s, y, c.res[y]) # GotRes(x, c.res[y], rs[y].reg)}}
     \cup {F("callee_saved", r - 1, CSNames[r], <<c.cs[r]>>, <<x.cs[r]>>) : r \in {y \in 1..6 : c.cs[y] # x.cs[y]}}
     \cup (IF x.drsp # 0 THEN {F("rsp", 0, "", <<0>>, <<x.drsp>>)} ELSE {})
     \cup (IF MxcsrControl(x.mxcsr) # MxcsrControl(c.mxcsr) THEN {F("mxcsr_control", 0, "", <<c.mxcsr>>, <<x.mxcsr>>)} ELSE {})
     \cup (IF x.cw # c.cw THEN {F("x87_cw", 0, "", <<c.cw>>, <<x.cw>>)} ELSE {})
     \cup (IF x.df # 0 THEN {F("df", 0, "", <<0>>, <<x.df>>)} ELSE {})
     \cup (IF x.x87n # nx87 THEN {F("x87_depth", 0, "", <<nx87>>, <<x.x87n>>)} ELSE {})

(* the itemised register checks above are exactly SysVABI!Preserved *)
PreservedOK(c, x) ==
  Preserved([cs |-> c.cs, rsp |-> 0, mxcsr |-> c.mxcsr, cw |-> c.cw], [cs |-> x.cs, rsp |-> x.drsp, mxcsr |-> x.mxcsr, cw |-> x.cw, df |-> x.df, x87n |-> x.x87n],
            Cardinality({j \in 1..Len(c.res) : c.res[j] = "ld"}))
RetConsistent(c, s, x) ==
  PreservedOK(c, x) <=> ({f \in RetFails(c, s, x) : f.k \in {"callee_saved", "rsp", "mxcsr_control", "x87_cw", "df", "x87_depth"}} = {})

(* ------------------------------------------------------------------------------------ trace machine *)
Nil == [e |-> "none"]
TInit == i = 1 /\ cur = Nil /\ sum = Zero /\ st = St0 /\ h = <<>> /\ res = <<>> /\ nf = -1

Report(fs) == IF fs = {} THEN TRUE ELSE EmitJ([line |-> i, id |-> cur.id, eng |-> cur.eng, fails |-> fs])

(* The checksum a body returns is a function of the words it recorded, so the result check is made against the   *)
(* recorded words: a wrong parameter observation is reported once (ObsFails), not again in every result slot. *)
CallEv == /\ Tr[i].e = "Call"
          /\ cur' = Tr[i]
          /\ sum' = Zero
ObsEv == /\ Tr[i].e = "Obs" /\ cur.e = "Call"
         /\ Report(ObsFails(cur, Tr[i]))
         /\ sum' = Checksum(Tr[i].words \o Tr[i].va)
         /\ UNCHANGED cur
RetEv == /\ Tr[i].e = "Ret" /\ cur.e = "Call"
         /\ Assert(RetConsistent(cur, sum, Tr[i]), "itemised checks disagree with SysVABI!Preserved")
         /\ Report(RetFails(cur, sum, Tr[i]))
         /\ UNCHANGED <<cur, sum>>

TNext == /\ i <= Len(Tr)
         /\ (CallEv \/ ObsEv \/ RetEv)
         /\ i' = i + 1
         /\ UNCHANGED <<st, h, res, nf>>

Accepted == TLCGet("stats").diameter - 1 = Len(Tr)
=============================================================================
