CONSTANTS
  Prods = {"ev", "break", "continue", "ret", "goto", "if1", "if2", "while", "do", "for", "switch", "seq2", "label"}
  CondSel = "small"
  SwSel = "small"
  MaxDepth = 2
  MaxToks = 5
  Labels = {1}
  Fuel = 150
  Rnd = FALSE
INIT Init
NEXT Next
INVARIANT EmitInv
