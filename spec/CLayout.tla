------------------------------ MODULE CLayout ------------------------------
(* x86-64 System V psABI data layout and parameter classification for C     *)
(* aggregate declarations, as gcc implements it (gcc is the reference of    *)
(* property C08), and an enumerator of declarations.                        *)
(*                                                                          *)
(* Types (tagged records):                                                  *)
(*   [k |-> "s", t |-> name]                  scalar                        *)
(*   [k |-> "a", n |-> 1..3, el |-> T]        array                         *)
(*   [k |-> "st"|"un", ms |-> <<member,..>>]  struct / union                *)
(* Members:                                                                 *)
(*   [m |-> "f", ty |-> T]                    named member                  *)
(*   [m |-> "b", t |-> name, w |-> width, nm |-> named?]   bit-field        *)
(*   [m |-> "an", ty |-> T]                   anonymous struct/union member *)
(* Member names are positional: member i of an aggregate whose members have *)
(* name prefix p is p \o "m<i>"; the members of an anonymous member m<i>    *)
(* use prefix p \o "m<i>_", those of a named aggregate member start again   *)
(* with the empty prefix (harness/py/c08.py renders the same names).        *)
EXTENDS Integers, Sequences, FiniteSets, TLC, Json, Emit, IOUtils

CONSTANTS MaxM,        \* max members of the outermost aggregate
          MaxInner,    \* max members of a nested aggregate
          MaxDepth,    \* nesting levels below the outermost aggregate (0..2)
          MaxNested,   \* max nested aggregates per aggregate
          Atoms,       \* member vocabulary of the outermost aggregate
          InnerAtoms,  \* member vocabulary of nested aggregates
          NestKinds    \* subset of NestAll: which nested member forms may be opened

(* ------------------------------------------------------------ scalars *)
IntTs == {"char", "schar", "uchar", "short", "ushort", "int", "uint", "long", "ulong", "llong", "ullong", "bool"}
ScalarTs == IntTs \cup {"float", "double", "ldouble", "ptr", "enum"}
ScalarSize(t) ==
  CASE t \in {"char", "schar", "uchar", "bool"} -> 1
    [] t \in {"short", "ushort"} -> 2
    [] t \in {"int", "uint", "float", "enum"} -> 4
    [] t \in {"long", "ulong", "llong", "ullong", "double", "ptr"} -> 8
    [] t = "ldouble" -> 16
(* natural alignment: every scalar is aligned to its size (long double 16/16) *)
ScalarAlign(t) == ScalarSize(t)
(* widest bit-field gcc accepts for the declared type *)
MaxWidth(t) == IF t = "bool" THEN 1 ELSE 8 * ScalarSize(t)
(* signedness of a bit-field of declared type t (plain char and plain int bit-fields are signed with gcc) *)
BfSigned(t) == t \in {"char", "schar", "short", "int", "long", "llong"}

Max(a, b) == IF a > b THEN a ELSE b
RoundUp(x, a) == ((x + a - 1) \div a) * a

(* ------------------------------------------------------------ enumerated types *)
(* A scalar [k |-> "s", t |-> "en", ev |-> <<value kind, ..>>] is an enum whose enumerators have, in this order, *)
(* the values named by the kinds (TLC integers are 32 bit: the values are symbolic).  gcc's choice of the        *)
(* compatible type: no negative enumerator -> unsigned int if all values fit, else unsigned long; with a         *)
(* negative enumerator -> int if all values fit, else long.  Only size/alignment are part of the layout.         *)
EnumVals == {"nbig", "nmin", "neg1", "zero", "imax", "umax", "huge", "lmax", "ubig"}
(*  nbig = -2^32   nmin = -2^31   neg1 = -1   zero = 0   imax = 2^31-1   umax = 2^32-1   huge = 2^32            *)
(*  lmax = 2^63-1  ubig = 2^63                                                                                   *)
EvNeg(v) == v \in {"nbig", "nmin", "neg1"}
EvBelowInt(v) == v = "nbig"
(* 0: fits int, 1: fits unsigned int, 2: fits long, 3: fits unsigned long only *)
EvMaxClass(v) == CASE v = "umax" -> 1 [] v \in {"huge", "lmax"} -> 2 [] v = "ubig" -> 3 [] OTHER -> 0
RECURSIVE EvMax(_, _)
EvMax(ev, i) == IF i > Len(ev) THEN 0 ELSE Max(EvMaxClass(ev[i]), EvMax(ev, i + 1))
EvHasNeg(ev) == \E i \in 1..Len(ev) : EvNeg(ev[i])
(* a negative enumerator together with one above LONG_MAX has no integer type at all (gcc rejects it) *)
EnumValid(ev) == ~(EvHasNeg(ev) /\ EvMax(ev, 1) = 3)
EnumUnder(ev) ==
  IF EvHasNeg(ev)
  THEN IF EvMax(ev, 1) = 0 /\ ~(\E i \in 1..Len(ev) : EvBelowInt(ev[i])) THEN "int" ELSE "long"
  ELSE IF EvMax(ev, 1) <= 1 THEN "uint" ELSE "ulong"
(* size = alignment of a scalar type record *)
TSize(T) == IF T.t = "en" THEN ScalarSize(EnumUnder(T.ev)) ELSE ScalarSize(T.t)

(* ------------------------------------------------------------ layout *)
(* L(T, v) = [sz, al, pl]: size and alignment in bytes; for struct/union pl[i] = [off, bit]: byte offset *)
(* of member i, and for bit-fields the bit offset of its first bit, both from the start of T.           *)
(* v = {} gives the psABI/gcc rules.  A non-empty v switches on documented deviations, used only to     *)
(* attribute a mismatch of the implementation to a known defect family (never as the expected value):   *)
(*   "ua"  an unnamed bit-field of non-zero width contributes its declared type's alignment             *)
(*   "za"  a zero-width bit-field contributes its declared type's alignment to a struct                 *)
(*   "zu"  a zero-width bit-field placed at offset 0 occupies a storage unit of its declared type       *)
(*   "bb"  a bit-field that follows a bit-field whose storage unit starts at byte pu > 0 and that itself *)
(*         lands in the storage unit at offset 0 of the struct gets a bit offset short by 8*pu (it      *)
(*         overlaps the members before it); later members continue from there                           *)
Flags == {"ua", "za", "zu", "bb"}
RECURSIVE L(_, _), Place(_, _, _, _, _)

(* acc = [bp: next free bit, mx: largest end bit (union), al: alignment so far, pl,                     *)
(*        pu: byte offset of the storage unit of the preceding member if that is a bit-field of         *)
(*            non-zero width, else -1 (only read by deviation "bb")]                                    *)
Place(un, ms, i, acc, v) ==
  IF i > Len(ms) THEN acc
  ELSE
    LET m == ms[i]
        bp == IF un THEN 0 ELSE acc.bp
    IN IF m.m = "b"
       THEN LET unit == 8 * ScalarSize(m.t)
                (* zero width: close the unit, align to the declared type; otherwise the field must not *)
                (* cross a boundary of its declared type's storage unit                                  *)
                start0 == IF m.w = 0 THEN RoundUp(bp, unit)
                          ELSE IF (bp % unit) + m.w > unit THEN RoundUp(bp, unit) ELSE bp
                start == IF "bb" \in v /\ ~un /\ acc.pu > 0 /\ m.w > 0 /\ start0 < unit THEN start0 - (8 * acc.pu) ELSE start0
                (* unnamed bit-fields (hence all zero-width ones) do not contribute to the alignment    *)
                contributes == \/ m.nm
                               \/ m.w > 0 /\ "ua" \in v
                               \/ m.w = 0 /\ ~un /\ "za" \in v
                al == IF contributes THEN Max(acc.al, ScalarAlign(m.t)) ELSE acc.al
                end == IF m.w = 0 /\ start = 0 /\ "zu" \in v THEN unit ELSE start + m.w
            IN Place(un, ms, i + 1, [bp |-> end, mx |-> Max(acc.mx, end), al |-> al,
                                    pu |-> IF m.w > 0 THEN (start \div unit) * ScalarSize(m.t) ELSE -1,
                                    pl |-> Append(acc.pl, [off |-> (start \div unit) * ScalarSize(m.t), bit |-> start])], v)
       ELSE LET e == L(m.ty, v)
                start == RoundUp(bp, 8 * e.al)
            IN Place(un, ms, i + 1, [bp |-> start + (8 * e.sz), mx |-> Max(acc.mx, start + (8 * e.sz)),
                                    al |-> Max(acc.al, e.al), pu |-> -1,
                                    pl |-> Append(acc.pl, [off |-> start \div 8, bit |-> -1])], v)

L(T, v) ==
  IF T.k = "s" THEN [sz |-> TSize(T), al |-> TSize(T), pl |-> <<>>]
  ELSE IF T.k = "a" THEN LET e == L(T.el, v) IN [sz |-> e.sz * T.n, al |-> e.al, pl |-> <<>>]
  ELSE LET r == Place(T.k = "un", T.ms, 1, [bp |-> 0, mx |-> 0, al |-> 1, pu |-> -1, pl |-> <<>>], v)
           bits == IF T.k = "un" THEN r.mx ELSE r.bp
       IN [sz |-> RoundUp((bits + 7) \div 8, r.al), al |-> r.al, pl |-> r.pl]

(* ------------------------------------------------------------ leaves *)
(* Flat list of the addressable leaves of T: [p: C access path, off: byte offset, t: scalar type,       *)
(* bit: first bit (absolute) or -1, w: width, sg: signed bit-field, sz: size of the (declared) type, ev: enumerator kinds].  Unnamed bit-fields have p = "".   *)
RECURSIVE Flat(_, _, _, _, _), FlatMs(_, _, _, _, _, _, _), FlatArr(_, _, _, _, _, _)
Dot(path, name) == IF path = "" THEN name ELSE path \o "." \o name

FlatArr(T, path, off, esz, i, v) ==
  IF i >= T.n THEN <<>>
  ELSE Flat(T.el, path \o "[" \o ToString(i) \o "]", off + (i * esz), "", v) \o FlatArr(T, path, off, esz, i + 1, v)

FlatMs(T, lay, path, off, pre, i, v) ==
  IF i > Len(T.ms) THEN <<>>
  ELSE
    LET m == T.ms[i]
        nm == pre \o "m" \o ToString(i)
        rest == FlatMs(T, lay, path, off, pre, i + 1, v)
    IN CASE m.m = "b" -> <<[p |-> IF m.nm THEN Dot(path, nm) ELSE "", off |-> off + lay.pl[i].off, t |-> m.t,
                           bit |-> (8 * off) + lay.pl[i].bit, w |-> m.w, sg |-> BfSigned(m.t), sz |-> ScalarSize(m.t), ev |-> <<>>]>> \o rest
         [] m.m = "f" -> Flat(m.ty, Dot(path, nm), off + lay.pl[i].off, "", v) \o rest
         [] m.m = "an" -> Flat(m.ty, path, off + lay.pl[i].off, nm \o "_", v) \o rest

Flat(T, path, off, pre, v) ==
  IF T.k = "s" THEN <<[p |-> path, off |-> off, t |-> T.t, bit |-> -1, w |-> 0, sg |-> FALSE, sz |-> TSize(T),
                       ev |-> IF T.t = "en" THEN T.ev ELSE <<>>]>>
  ELSE IF T.k = "a" THEN FlatArr(T, path, off, L(T.el, v).sz, 0, v)
  ELSE FlatMs(T, L(T, v), path, off, pre, 1, v)

(* does T contain an unnamed bit-field of zero (z) / non-zero (~z) width *)
RECURSIVE HasUnnamed(_, _)
HasUnnamed(T, z) ==
  IF T.k = "s" THEN FALSE
  ELSE IF T.k = "a" THEN HasUnnamed(T.el, z)
  ELSE \E i \in 1..Len(T.ms) : IF T.ms[i].m = "b" THEN ~T.ms[i].nm /\ ((T.ms[i].w = 0) = z) ELSE HasUnnamed(T.ms[i].ty, z)

(* C11 6.7.2.1p8: an aggregate without a named member (directly or through anonymous members) is undefined *)
RECURSIVE HasNamed(_)
HasNamed(ms) == \E i \in 1..Len(ms) : \/ ms[i].m = "f"
                                      \/ ms[i].m = "b" /\ ms[i].nm
                                      \/ ms[i].m = "an" /\ HasNamed(ms[i].ty.ms)

(* ------------------------------------------------------------ classification *)
(* psABI 3.2.3 as gcc's classify_argument applies it to the vocabulary: merges happen in member order,    *)
(* the post-merger clean-up at every aggregate level.  Result: [mem, c] with c a function from absolute   *)
(* eightbyte numbers to classes.                                                                          *)
Merge(a, b) ==
  IF a = b THEN a
  ELSE IF a = "NO_CLASS" THEN b
  ELSE IF b = "NO_CLASS" THEN a
  ELSE IF a = "MEMORY" \/ b = "MEMORY" THEN "MEMORY"
  ELSE IF a = "INTEGER" \/ b = "INTEGER" THEN "INTEGER"
  ELSE IF {a, b} \cap {"X87", "X87UP"} # {} THEN "MEMORY"
  ELSE "SSE"

At(f, j) == IF j \in DOMAIN f THEN f[j] ELSE "NO_CLASS"
MergeF(f, g) == [j \in (DOMAIN f) \cup (DOMAIN g) |-> Merge(At(g, j), At(f, j))]
MemRes == [mem |-> TRUE, c |-> <<>>]
ModeSize(w) == IF w <= 8 THEN 1 ELSE IF w <= 16 THEN 2 ELSE IF w <= 32 THEN 4 ELSE 8

(* Deviation "nc" (attribution only, see L): a member of aggregate or array type is classified as if it  *)
(* started at an eightbyte boundary; its classes are then moved to the member's first eightbyte and, when *)
(* the member straddles one more eightbyte than it has classes, each class is also merged into the next   *)
(* eightbyte; array elements are classified once and the classes repeated.                                *)
(* Deviation "zc": a zero-width bit-field of a struct counts as an INTEGER field (gcc >= 12.1 ignores it). *)
RECURSIVE Cls(_, _, _), ClsMs(_, _, _, _, _, _), ClsArr(_, _, _, _)

(* gcc classifies the element type once, at the array's own offset, and repeats its classes over the   *)
(* eightbytes of the array (no element is looked at on its own address)                                  *)
ClsArr(T, off, esz, v) ==
  LET e == Cls(T.el, off, v)
      first == off \div 8
      num == ((esz + (off % 8)) + 7) \div 8
      words == (((esz * T.n) + (off % 8)) + 7) \div 8
  IN IF e.mem THEN MemRes
     ELSE [mem |-> FALSE, c |-> [j \in first..(first + words - 1) |-> At(e.c, first + ((j - first) % num))]]

(* "nc": classes s (relative to eightbyte 0) of a member at byte offset o of size sz, merged into acc *)
Smear(acc, s, o, sz) ==
  LET start == o \div 8
      span == (((o + sz) - 1) \div 8) - start + 1
      nel == (sz + 7) \div 8
      step(a, i) == LET a1 == MergeF(a, ((i + start) :> At(s, i)))
                    IN IF span > nel THEN MergeF(a1, ((i + start + 1) :> At(s, i))) ELSE a1
  IN IF nel = 1 THEN step(acc, 0) ELSE step(step(acc, 0), 1)

ClsMs(T, lay, off, i, acc, v) ==
  IF i > Len(T.ms) THEN [mem |-> FALSE, c |-> acc]
  ELSE
    LET m == T.ms[i]
    IN IF m.m = "b"
       THEN IF T.k = "un"
            (* gcc classifies every bit-field of a union, whatever its width (zero included, gcc >= 12.1) and  *)
            (* named or not, as an integer object of the narrowest mode that holds the width, at the union's    *)
            (* address; if the union is not aligned for that mode (possible for unnamed bit-fields only) the    *)
            (* whole argument is MEMORY                                                                         *)
            THEN IF off % ModeSize(m.w) # 0 THEN MemRes
                 ELSE ClsMs(T, lay, off, i + 1, MergeF(acc, ((off \div 8) :> "INTEGER")), v)
            ELSE IF m.w = 0
            THEN IF "zc" \in v       \* deviation: INTEGER for the eightbyte of the storage unit that absorbs it
                 THEN LET b == (8 * off) + lay.pl[i].bit
                      IN ClsMs(T, lay, off, i + 1, MergeF(acc, ((IF lay.pl[i].bit > 0 THEN (b - 1) \div 64 ELSE b \div 64) :> "INTEGER")), v)
                 ELSE ClsMs(T, lay, off, i + 1, acc, v)     \* in a struct zero-width bit-fields are not fields
            ELSE LET b == (8 * off) + lay.pl[i].bit
                     g == [j \in (b \div 64)..((b + m.w - 1) \div 64) |-> "INTEGER"]
                 IN ClsMs(T, lay, off, i + 1, MergeF(acc, g), v)
       ELSE IF "nc" \in v /\ m.ty.k # "s"
            THEN LET s == Cls(m.ty, 0, v)
                 IN IF s.mem THEN MemRes
                    ELSE ClsMs(T, lay, off, i + 1, Smear(acc, s.c, off + lay.pl[i].off, L(m.ty, {}).sz), v)
            ELSE LET s == Cls(m.ty, off + lay.pl[i].off, v)
                 IN IF s.mem THEN MemRes ELSE ClsMs(T, lay, off, i + 1, MergeF(acc, s.c), v)

CleanUp(r, first) ==
  IF r.mem THEN r
  ELSE IF \E j \in DOMAIN r.c : r.c[j] = "MEMORY" THEN MemRes
  ELSE IF \E j \in DOMAIN r.c : r.c[j] = "X87UP" /\ (j = first \/ At(r.c, j - 1) # "X87") THEN MemRes
  ELSE r

Cls(T, off, v) ==
  IF T.k = "s"
  THEN LET j == off \div 8
       IN CASE T.t \in {"float", "double"} -> [mem |-> FALSE, c |-> (j :> "SSE")]
            [] T.t = "ldouble" -> [mem |-> FALSE, c |-> (j :> "X87") @@ ((j + 1) :> "X87UP")]
            [] OTHER -> [mem |-> FALSE, c |-> (j :> "INTEGER")]
  ELSE IF T.k = "a"
  THEN IF "nc" \in v
       THEN LET e == Cls(T.el, 0, v)
                n == (L(T, {}).sz + 7) \div 8
                nel == (L(T.el, {}).sz + 7) \div 8
            IN IF n > 2 \/ e.mem THEN MemRes ELSE [mem |-> FALSE, c |-> [j \in 0..(n - 1) |-> At(e.c, j % nel)]]
       ELSE ClsArr(T, off, L(T.el, {}).sz, v)
  ELSE LET lay == L(T, {})
       IN IF lay.sz > 16 THEN MemRes      \* no vector types in the vocabulary: more than two eightbytes -> MEMORY
          ELSE CleanUp(ClsMs(T, lay, off, 1, <<>>, v), off \div 8)

(* classes of a complete declaration: <<"MEMORY">> or one class per eightbyte *)
Classes(T, v) ==
  LET r == Cls(T, 0, v)
      n == (L(T, {}).sz + 7) \div 8
  IN IF r.mem THEN <<"MEMORY">> ELSE [j \in 1..n |-> At(r.c, j - 1)]

(* does T contain a struct in which a bit-field of non-zero width directly follows another one *)
RECURSIVE HasBfPair(_)
HasBfPair(T) ==
  IF T.k = "s" THEN FALSE
  ELSE IF T.k = "a" THEN HasBfPair(T.el)
  ELSE \/ T.k = "st" /\ \E i \in 2..Len(T.ms) : T.ms[i].m = "b" /\ T.ms[i].w > 0 /\ T.ms[i - 1].m = "b" /\ T.ms[i - 1].w > 0
       \/ \E i \in 1..Len(T.ms) : T.ms[i].m # "b" /\ HasBfPair(T.ms[i].ty)

(* classification deviations that change the classes of T (each alone, or only both together) *)
ClsDev(T) ==
  LET c == Classes(T, {})
      one == {f \in {"nc", "zc"} : Classes(T, {f}) # c}
  IN IF one # {} THEN one ELSE IF Classes(T, {"nc", "zc"}) # c THEN {"nc", "zc"} ELSE {}

Pred(T, v) == LET lay == L(T, v) IN [sz |-> lay.sz, al |-> lay.al, lv |-> Flat(T, "", 0, "", v)]
(* deviation sets that can matter for T, each with its prediction when it differs from the psABI one *)
Alts(T, main) ==
  LET app == (IF HasUnnamed(T, FALSE) THEN {"ua"} ELSE {}) \cup (IF HasUnnamed(T, TRUE) THEN {"za", "zu"} ELSE {})
             \cup (IF HasBfPair(T) THEN {"bb"} ELSE {})
      cand == {v \in SUBSET app : v # {} /\ Pred(T, v) # main}
  IN {[v |-> v] @@ Pred(T, v) : v \in cand}
Row(T) ==
  LET main == Pred(T, {})
  IN [d |-> T, cls |-> Classes(T, {}), cdev |-> ClsDev(T), dcls |-> Classes(T, ClsDev(T)), alts |-> Alts(T, main)] @@ main

(* ------------------------------------------------------------ vocabularies *)
Sc(t) == [k |-> "s", t |-> t]
F(t) == [m |-> "f", ty |-> Sc(t)]
A(t, n) == [m |-> "f", ty |-> [k |-> "a", n |-> n, el |-> Sc(t)]]
B(t, w) == [m |-> "b", t |-> t, w |-> w, nm |-> TRUE]
U(t, w) == [m |-> "b", t |-> t, w |-> w, nm |-> FALSE]

(* enum members: every ordered list of 1..3 distinct enumerator value kinds that has an integer type *)
En(ev) == [k |-> "s", t |-> "en", ev |-> ev]
EnumLists(n) == {ev \in UNION {[1..k -> EnumVals] : k \in 1..n} :
                   /\ \A i, j \in 1..Len(ev) : i # j => ev[i] # ev[j]
                   /\ EnumValid(ev)}
(* as a plain member, as an array and behind a char inside a nested struct (offset = alignment of the enum) *)
(* a negative enumerator next to LONG_MAX (type long): kept in a family of its own (CLayout_enumx.cfg) *)
EnumNegLmax(ev) == EvHasNeg(ev) /\ (\E i \in 1..Len(ev) : ev[i] = "lmax")
EnumForms(ev) == {[m |-> "f", ty |-> En(ev)],
                  [m |-> "f", ty |-> [k |-> "a", n |-> 2, el |-> En(ev)]],
                  [m |-> "f", ty |-> [k |-> "st", ms |-> <<F("char"), [m |-> "f", ty |-> En(ev)], F("char")>>]]}
AtomsEnumX == UNION {EnumForms(ev) : ev \in {e \in EnumLists(2) : EnumNegLmax(e)}}
EnumAtoms(n) == UNION {{[m |-> "f", ty |-> En(ev)],
                        [m |-> "f", ty |-> [k |-> "a", n |-> 2, el |-> En(ev)]],
                        [m |-> "f", ty |-> [k |-> "st", ms |-> <<F("char"), [m |-> "f", ty |-> En(ev)], F("char")>>]]}
                       : ev \in {e \in EnumLists(n) : ~EnumNegLmax(e)}}
AtomsEnum == EnumAtoms(3)
AtomsEnumSim == {[m |-> "f", ty |-> En(ev)] : ev \in {e \in EnumLists(2) : ~EnumNegLmax(e)}}
AllScalars == {F(t) : t \in ScalarTs}
AllArrays == {A(t, n) : t \in ScalarTs, n \in 1..3}
AllBf == UNION {{B(t, w) : w \in 1..MaxWidth(t)} \cup {U(t, w) : w \in 0..MaxWidth(t)} : t \in IntTs}
AtomsFull == AllScalars \cup AllArrays \cup AllBf

(* boundary widths: around every unit boundary a narrower or wider type can impose *)
BW == {1, 3, 7, 8, 9, 15, 16, 17, 24, 31, 32, 33, 48, 63, 64}
BfBoundary == UNION {{B(t, w) : w \in {x \in BW : x <= MaxWidth(t)}} \cup {U(t, w) : w \in {x \in BW \cup {0} : x <= MaxWidth(t)}}
                     : t \in IntTs}
AtomsWide == AllScalars \cup {A(t, n) : t \in {"char", "short", "int", "long", "float", "double", "ldouble", "ptr"}, n \in 1..3}
             \cup BfBoundary

(* medium: one representative of every size/class, bit-fields of the signed and unsigned types at boundary widths *)
AtomsMedium ==
  {F(t) : t \in {"char", "short", "int", "long", "float", "double", "ldouble", "ptr", "bool", "enum"}}
  \cup {A("char", 3), A("short", 2), A("float", 2), A("int", 3), A("double", 2)}
  \cup {B("int", 1), B("int", 7), B("uint", 9), B("int", 17), B("uint", 31), B("int", 32), B("char", 3), B("uchar", 8),
        B("short", 9), B("ushort", 16), B("long", 33), B("ulong", 63), B("llong", 64), B("bool", 1),
        U("int", 0), U("char", 0), U("long", 0), U("short", 0), U("int", 5), U("long", 40), U("char", 2)}

AtomsSmall ==
  {F(t) : t \in {"char", "short", "int", "long", "float", "double", "ldouble"}}
  \cup {A("char", 3), A("float", 2)}
  \cup {B("int", 3), B("uint", 30), B("char", 6), B("long", 33), B("ushort", 9), B("bool", 1), U("int", 0), U("long", 0), U("int", 5)}

(* long double overlaid with / next to integer and SSE members: in a union of 16 bytes INTEGER wins over X87/X87UP  *)
(* per eightbyte (union {long double; long[2]} is INTEGER,INTEGER), X87UP left alone or X87 merged with SSE is MEMORY *)
AtomsLd == {F("ldouble"), F("long"), F("char"), F("double"), A("long", 2), A("int", 3), A("char", 3), B("long", 40)}

(* bit-fields that end exactly on an eightbyte boundary (bit 63 / bit 127) next to SSE and INTEGER members *)
AtomsEdge == {F("int"), F("double"), F("float"), B("uint", 24), B("uint", 8), B("uint", 32), B("llong", 64)}
AtomsMicro == {F("char"), F("double"), B("int", 5)}

AtomsTiny == {F("char"), F("int"), F("double"), F("float"), F("long"), B("int", 5), B("uchar", 7), U("int", 0)}

(* nested member forms: <<aggregate kind, anonymous?, array length (0 = not an array)>> *)
NestAll == {<<k, an, n>> : k \in {"st", "un"}, an \in BOOLEAN, n \in 0..3} \ {<<k, TRUE, n>> : k \in {"st", "un"}, n \in 1..3}
NestAnon == {<<"st", TRUE, 0>>, <<"un", TRUE, 0>>}
NestPlain == {<<"st", FALSE, 0>>, <<"un", FALSE, 0>>}
NestNoArr == {<<k, an, 0>> : k \in {"st", "un"}, an \in BOOLEAN}

(* ------------------------------------------------------------ enumerator *)
(* stk: stack of open aggregates, stk[1] the outermost; frame = [k, an, n, ms].  cat: category chosen   *)
(* for the next member (simulation only, "" otherwise); done: declaration closed (simulation).          *)
VARIABLES stk, cat, ct, done
vars == <<stk, cat, ct, done>>

Frame(k, an, n) == [k |-> k, an |-> an, n |-> n, ms |-> <<>>]
Top == stk[Len(stk)]
Cap == IF Len(stk) = 1 THEN MaxM ELSE MaxInner
Vocab == IF Len(stk) = 1 THEN Atoms ELSE InnerAtoms
NestedIn(ms) == Cardinality({i \in 1..Len(ms) : ms[i].m = "an" \/ (ms[i].m = "f" /\ ms[i].ty.k \in {"st", "un"})
                                                  \/ (ms[i].m = "f" /\ ms[i].ty.k = "a" /\ ms[i].ty.el.k \in {"st", "un"})})
AsMember(fr) ==
  LET T == [k |-> fr.k, ms |-> fr.ms]
  IN IF fr.an THEN [m |-> "an", ty |-> T]
     ELSE IF fr.n = 0 THEN [m |-> "f", ty |-> T]
     ELSE [m |-> "f", ty |-> [k |-> "a", n |-> fr.n, el |-> T]]

Push(m) == stk' = [stk EXCEPT ![Len(stk)].ms = Append(@, m)]
CanAdd == Len(Top.ms) < Cap
CanOpen == CanAdd /\ Len(stk) <= MaxDepth /\ NestedIn(Top.ms) < MaxNested
(* `= TRUE`: evaluated as a value, otherwise TLC generates one successor per witness of the \E in HasNamed *)
CanClose == Len(stk) > 1 /\ (HasNamed(Top.ms) = TRUE)
DoOpen(nk) == stk' = Append(stk, Frame(nk[1], nk[2], nk[3]))
DoClose == stk' = [SubSeq(stk, 1, Len(stk) - 1) EXCEPT ![Len(stk) - 1].ms = Append(@, AsMember(Top))]

(* exhaustive mode: the first member of the outermost aggregate is restricted to this JVM's share       *)
Part == IF "PART" \in DOMAIN IOEnv THEN atoi(IOEnv.PART) ELSE 0
NParts == IF "NPARTS" \in DOMAIN IOEnv THEN atoi(IOEnv.NPARTS) ELSE 1
(* a deterministic numbering of the vocabulary *)
TSeq == <<"char", "schar", "uchar", "short", "ushort", "int", "uint", "long", "ulong", "llong", "ullong", "bool",
          "float", "double", "ldouble", "ptr", "enum">>
TIdx(t) == CHOOSE i \in 1..Len(TSeq) : TSeq[i] = t
Code(a) == IF a.m = "b" THEN (TIdx(a.t) * 7) + (a.w * 3) + (IF a.nm THEN 1 ELSE 0)
           ELSE IF a.ty.k = "s" THEN (IF a.ty.t = "en" THEN 18 + Len(a.ty.ev) ELSE TIdx(a.ty.t))
           ELSE IF a.ty.k = "a" /\ a.ty.el.k = "s" /\ a.ty.el.t # "en" THEN (TIdx(a.ty.el.t) * 5) + a.ty.n
           ELSE 0
Share(S) == IF NParts = 1 THEN S ELSE {a \in S : Code(a) % NParts = Part}
FirstAtoms == Share(Atoms)
FirstNest == IF Part = 0 THEN NestKinds ELSE {}

Init == /\ stk \in {<<Frame(k, FALSE, 0)>> : k \in {"st", "un"}}
        /\ cat = "" /\ ct = "" /\ done = FALSE

Next ==
  /\ UNCHANGED <<cat, ct, done>>
  /\ \/ CanAdd /\ \E a \in (IF Len(stk) = 1 /\ Top.ms = <<>> THEN FirstAtoms ELSE Vocab) : Push(a)
     \/ CanOpen /\ \E nk \in (IF Len(stk) = 1 /\ Top.ms = <<>> THEN FirstNest ELSE NestKinds) : DoOpen(nk)
     \/ CanClose /\ DoClose

Complete(s) == Len(s) = 1 /\ s[1].ms # <<>> /\ (HasNamed(s[1].ms) = TRUE)
Decl(s) == [k |-> s[1].k, ms |-> s[1].ms]
(* every generated transition that ends in a complete declaration is emitted (each state has one predecessor) *)
Emit == Complete(stk') => EmitJ(Row(Decl(stk')))

(* simulation over the full vocabulary (Atoms/InnerAtoms are not used): the category of the next member   *)
(* is chosen first, then (bit-fields, arrays) the declared type, then the member, so that nested members, *)
(* closing and every type are about equally likely and successor sets stay small; the walk ends with     *)
(* "fin".                                                                                                 *)
Cats == {"sc", "arr", "bf", "ubf", "open", "close", "fin"}
NextSim ==
  /\ ~done
  /\ IF cat = ""
     THEN /\ \E c \in Cats :
               /\ CASE c \in {"sc", "arr", "bf", "ubf"} -> CanAdd
                    [] c = "open" -> CanOpen
                    [] c = "close" -> CanClose
                    [] c = "fin" -> Complete(stk)
               /\ cat' = c
          /\ UNCHANGED <<stk, done, ct>>
     ELSE IF cat \in {"arr", "bf", "ubf"} /\ ct = ""
     THEN /\ \E t \in (IF cat = "arr" THEN ScalarTs ELSE IntTs) : ct' = t
          /\ UNCHANGED <<stk, done, cat>>
     ELSE /\ cat' = "" /\ ct' = ""
          /\ CASE cat = "open" -> (\E nk \in NestKinds : DoOpen(nk)) /\ done' = FALSE
               [] cat = "close" -> DoClose /\ done' = FALSE
               [] cat = "fin" -> done' = TRUE /\ UNCHANGED stk
               [] cat = "sc" -> (\E a \in AllScalars \cup AtomsEnumSim : Push(a)) /\ done' = FALSE
               [] cat = "arr" -> (\E n \in 1..3 : Push(A(ct, n))) /\ done' = FALSE
               [] cat = "bf" -> (\E w \in 1..MaxWidth(ct) : Push(B(ct, w))) /\ done' = FALSE
               [] cat = "ubf" -> (\E w \in 0..MaxWidth(ct) : Push(U(ct, w))) /\ done' = FALSE
EmitSim == (done' /\ ~done) => EmitJ(Row(Decl(stk')))

(* sanity of the rules themselves (checked on every complete declaration) *)
RECURSIVE LeavesOk(_, _, _)
LeavesOk(lv, sz, i) ==
  i > Len(lv) \/ (/\ IF lv[i].p = "" THEN TRUE      \* unnamed bit-fields do not align the aggregate: nothing to say
                     ELSE IF lv[i].bit >= 0 THEN lv[i].bit + lv[i].w <= 8 * sz /\ (lv[i].bit % (8 * lv[i].sz)) + lv[i].w <= 8 * lv[i].sz
                     ELSE lv[i].off + lv[i].sz <= sz /\ lv[i].off % lv[i].sz = 0
                  /\ LeavesOk(lv, sz, i + 1))
SaneRow(r) ==
  /\ r.sz % r.al = 0 /\ r.sz > 0
  /\ LeavesOk(r.lv, r.sz, 1)
  /\ (r.sz > 16 => r.cls = <<"MEMORY">>)
Sane == Complete(stk) => SaneRow(Row(Decl(stk)))
SaneSim == done => SaneRow(Row(Decl(stk)))
=============================================================================
