-------------------------------- MODULE Emit --------------------------------
(* Emission of TLC-generated cases as one JSON document per output line.    *)
(* A bare string is never line-wrapped by TLC's pretty printer (a tuple is). *)
EXTENDS TLC, Json, Sequences
EmitJ(x) == PrintT("OUT" \o ToJson(x))
=============================================================================
