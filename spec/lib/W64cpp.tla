------------------------------ MODULE W64cpp ------------------------------
(* 64-bit words for the #if arithmetic of CPP.tla (intmax_t / uintmax_t).    *)
(* A word is <<l0,l1,l2,l3>>, four 16-bit limbs, least significant first.    *)
(* TLC integers are 32 bit: no intermediate exceeds 2^31 (multiplication is  *)
(* done on 8-bit digits, shifts multiply a 16-bit limb by at most 2^15).     *)
(* Operators ending in Ovf say whether the *signed* operation overflows.     *)
EXTENDS Integers, Sequences

B16 == 65536
Zero == <<0, 0, 0, 0>>
One == <<1, 0, 0, 0>>
AllOnes == <<65535, 65535, 65535, 65535>>
MinS == <<0, 0, 0, 32768>>            \* INT64_MIN = 2^63 as a bit pattern
MaxS == <<65535, 65535, 65535, 32767>>
Small(n) == <<n, 0, 0, 0>>            \* 0 <= n < 65536

IsZero(a) == a = Zero
SignBit(a) == a[4] >= 32768

Add(a, b) ==
  LET s1 == a[1] + b[1]
      s2 == a[2] + b[2] + (s1 \div B16)
      s3 == a[3] + b[3] + (s2 \div B16)
      s4 == a[4] + b[4] + (s3 \div B16)
  IN <<s1 % B16, s2 % B16, s3 % B16, s4 % B16>>
Not(a) == <<65535 - a[1], 65535 - a[2], 65535 - a[3], 65535 - a[4]>>
Neg(a) == Add(Not(a), One)
Sub(a, b) == Add(a, Neg(b))

ULt(a, b) ==
  IF a[4] # b[4] THEN a[4] < b[4]
  ELSE IF a[3] # b[3] THEN a[3] < b[3]
  ELSE IF a[2] # b[2] THEN a[2] < b[2]
  ELSE a[1] < b[1]
SLt(a, b) == IF SignBit(a) # SignBit(b) THEN SignBit(a) ELSE ULt(a, b)
ULe(a, b) == ~ULt(b, a)
SLe(a, b) == ~SLt(b, a)

AddOvf(a, b) == SignBit(a) = SignBit(b) /\ SignBit(Add(a, b)) # SignBit(a)
SubOvf(a, b) == SignBit(a) # SignBit(b) /\ SignBit(Sub(a, b)) # SignBit(a)
NegOvf(a) == a = MinS
Abs(a) == IF SignBit(a) THEN Neg(a) ELSE a     \* magnitude as an unsigned word (|MinS| = 2^63)

(* ------------------------------------------------------------ multiplication *)
Bytes(a) == <<a[1] % 256, a[1] \div 256, a[2] % 256, a[2] \div 256,
              a[3] % 256, a[3] \div 256, a[4] % 256, a[4] \div 256>>
RECURSIVE ColSum(_, _, _, _)
ColSum(x, y, k, i) ==                 \* sum of x[i]*y[k+1-i] over the valid i >= the given one
  IF i > k \/ i > 8 THEN 0
  ELSE (IF k + 1 - i <= 8 THEN x[i] * y[k + 1 - i] ELSE 0) + ColSum(x, y, k, i + 1)
RECURSIVE MulCols(_, _, _, _)
MulCols(x, y, k, carry) ==            \* 16 base-256 digits of the 128-bit product
  IF k > 16 THEN <<>>
  ELSE LET s == carry + ColSum(x, y, k, 1) IN <<s % 256>> \o MulCols(x, y, k + 1, s \div 256)
Wide(a, b) == MulCols(Bytes(a), Bytes(b), 1, 0)
FromBytes(d, o) == <<d[o + 1] + 256 * d[o + 2], d[o + 3] + 256 * d[o + 4],
                     d[o + 5] + 256 * d[o + 6], d[o + 7] + 256 * d[o + 8]>>
Mul(a, b) == FromBytes(Wide(a, b), 0)
UMulHi(a, b) == FromBytes(Wide(a, b), 8)
MulOvf(a, b) ==                       \* signed overflow of a*b
  LET w == Wide(Abs(a), Abs(b))
      lo == FromBytes(w, 0)
      hi == FromBytes(w, 8)
  IN \/ hi # Zero
     \/ IF SignBit(a) = SignBit(b) THEN SignBit(lo) ELSE ULt(MinS, lo)

(* ------------------------------------------------------------------- shifts *)
P2 == <<1, 2, 4, 8, 16, 32, 64, 128, 256, 512, 1024, 2048, 4096, 8192, 16384, 32768, 65536>>
Pow2(k) == P2[k + 1]                  \* 0 <= k <= 16
Limb(a, j) == IF j < 1 \/ j > 4 THEN 0 ELSE a[j]
Shl(a, n) ==                          \* 0 <= n <= 63
  LET ls == n \div 16
      bs == n % 16
      L(j) == ((Limb(a, j - ls) * Pow2(bs)) % B16) + (Limb(a, j - ls - 1) \div Pow2(16 - bs))
  IN <<L(1), L(2), L(3), L(4)>>
LShr(a, n) ==
  LET ls == n \div 16
      bs == n % 16
      L(j) == (Limb(a, j + ls) \div Pow2(bs)) + ((Limb(a, j + ls + 1) % Pow2(bs)) * Pow2(16 - bs))
  IN <<L(1), L(2), L(3), L(4)>>
AShr(a, n) == IF SignBit(a) THEN Not(LShr(Not(a), n)) ELSE LShr(a, n)
ShlOvf(a, n) == SignBit(a) \/ SignBit(Shl(a, n)) \/ LShr(Shl(a, n), n) # a   \* signed a << n not representable

(* ------------------------------------------------------------ bitwise logic *)
RECURSIVE BitOp(_, _, _, _)
BitOp(op, x, y, k) ==
  IF k = 0 THEN 0
  ELSE LET bx == x % 2
           by == y % 2
           r == IF op = "and" THEN bx * by
                ELSE IF op = "or" THEN (IF bx + by > 0 THEN 1 ELSE 0)
                ELSE (bx + by) % 2
       IN r + 2 * BitOp(op, x \div 2, y \div 2, k - 1)
LimbOp(op, a, b) == <<BitOp(op, a[1], b[1], 16), BitOp(op, a[2], b[2], 16),
                      BitOp(op, a[3], b[3], 16), BitOp(op, a[4], b[4], 16)>>
And(a, b) == LimbOp("and", a, b)
Or(a, b) == LimbOp("or", a, b)
Xor(a, b) == LimbOp("xor", a, b)

(* ----------------------------------------------------------------- division *)
Bit(a, i) == (a[(i \div 16) + 1] \div Pow2(i % 16)) % 2
SetBit(a, i) == [a EXCEPT ![(i \div 16) + 1] = @ + Pow2(i % 16)]    \* the bit must be clear
RECURSIVE DivStep(_, _, _, _, _)
DivStep(a, b, i, q, r) ==             \* schoolbook shift-subtract, bit i down to 0
  IF i < 0 THEN <<q, r>>
  ELSE LET top == SignBit(r)          \* bit shifted out of r (r < b <= 2^64-1 so r*2+1 may need 65 bits)
           r1 == Add(Shl(r, 1), Small(Bit(a, i)))
       IN IF top \/ ~ULt(r1, b) THEN DivStep(a, b, i - 1, SetBit(q, i), Sub(r1, b))
          ELSE DivStep(a, b, i - 1, q, r1)
UDivMod(a, b) == DivStep(a, b, 63, Zero, Zero)       \* b # Zero
UDiv(a, b) == UDivMod(a, b)[1]
URem(a, b) == UDivMod(a, b)[2]
SDivOvf(a, b) == a = MinS /\ b = AllOnes
SDiv(a, b) ==                         \* truncation toward zero (C11 6.5.5p6)
  LET q == UDiv(Abs(a), Abs(b)) IN IF SignBit(a) # SignBit(b) THEN Neg(q) ELSE q
SRem(a, b) ==                         \* sign of the dividend
  LET r == URem(Abs(a), Abs(b)) IN IF SignBit(a) THEN Neg(r) ELSE r

(* hex rendering (for emission): 16 hex digits, most significant first *)
HexD == <<"0", "1", "2", "3", "4", "5", "6", "7", "8", "9", "a", "b", "c", "d", "e", "f">>
Hex4(x) == HexD[(x \div 4096) + 1] \o HexD[((x \div 256) % 16) + 1] \o HexD[((x \div 16) % 16) + 1] \o HexD[(x % 16) + 1]
Hex(a) == Hex4(a[4]) \o Hex4(a[3]) \o Hex4(a[2]) \o Hex4(a[1])
=============================================================================
