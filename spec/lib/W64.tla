-------------------------------- MODULE W64 --------------------------------
(* 64-bit machine words for TLC (whose integers are 32-bit): a word is a     *)
(* tuple of four 16-bit limbs, least significant first.  All operators are  *)
(* total functions on words; the callers decide definedness (division by    *)
(* zero, shift counts) before calling.                                      *)
EXTENDS Integers, Sequences, Bitwise

B16 == 65536
Zero64 == <<0, 0, 0, 0>>
One64 == <<1, 0, 0, 0>>
Ones64 == <<65535, 65535, 65535, 65535>>
MinS64 == <<0, 0, 0, 32768>>
MaxS64 == <<65535, 65535, 65535, 32767>>
IsW64(w) == /\ DOMAIN w = 1..4 /\ \A i \in 1..4 : w[i] \in 0..65535

(* small non-negative integer (< 2^31) to word, and back when it fits *)
FromNat(n) == <<(n % B16), ((n \div B16) % B16), 0, 0>>
FitsNat(w) == w[3] = 0 /\ w[4] = 0 /\ w[2] < 32768
ToNat(w) == w[1] + (B16 * w[2])

AddC(a, b, c) ==
  LET s1 == a[1] + b[1] + c
      s2 == a[2] + b[2] + (s1 \div B16)
      s3 == a[3] + b[3] + (s2 \div B16)
      s4 == a[4] + b[4] + (s3 \div B16)
  IN [w |-> <<s1 % B16, s2 % B16, s3 % B16, s4 % B16>>, c |-> s4 \div B16]
Not64(a) == <<65535 - a[1], 65535 - a[2], 65535 - a[3], 65535 - a[4]>>
Add64(a, b) == AddC(a, b, 0).w
Sub64(a, b) == AddC(a, Not64(b), 1).w
Neg64(a) == AddC(Not64(a), Zero64, 1).w
FromInt(n) == IF n >= 0 THEN FromNat(n) ELSE Neg64(FromNat(-n))     \* -2^31 < n < 2^31

And64(a, b) == <<a[1] & b[1], a[2] & b[2], a[3] & b[3], a[4] & b[4]>>
Or64(a, b) == <<a[1] | b[1], a[2] | b[2], a[3] | b[3], a[4] | b[4]>>
Xor64(a, b) == <<a[1] ^^ b[1], a[2] ^^ b[2], a[3] ^^ b[3], a[4] ^^ b[4]>>

IsNeg64(a) == a[4] >= 32768
ULt64(a, b) ==
  IF a[4] # b[4] THEN a[4] < b[4] ELSE IF a[3] # b[3] THEN a[3] < b[3]
  ELSE IF a[2] # b[2] THEN a[2] < b[2] ELSE a[1] < b[1]
ULe64(a, b) == ~ULt64(b, a)
SLt64(a, b) == IF IsNeg64(a) # IsNeg64(b) THEN IsNeg64(a) ELSE ULt64(a, b)
SLe64(a, b) == ~SLt64(b, a)

(* carries: unsigned and signed overflow of a + b and a - b *)
AddUOvf(a, b) == AddC(a, b, 0).c = 1
SubUOvf(a, b) == ULt64(a, b)
AddSOvf(a, b) == LET r == Add64(a, b) IN IsNeg64(a) = IsNeg64(b) /\ IsNeg64(r) # IsNeg64(a)
SubSOvf(a, b) == LET r == Sub64(a, b) IN IsNeg64(a) # IsNeg64(b) /\ IsNeg64(r) # IsNeg64(a)

(* extensions *)
Pow2(k) == CASE k = 0 -> 1 [] k = 1 -> 2 [] k = 2 -> 4 [] k = 3 -> 8 [] k = 4 -> 16 [] k = 5 -> 32 [] k = 6 -> 64
             [] k = 7 -> 128 [] k = 8 -> 256 [] k = 9 -> 512 [] k = 10 -> 1024 [] k = 11 -> 2048 [] k = 12 -> 4096
             [] k = 13 -> 8192 [] k = 14 -> 16384 [] k = 15 -> 32768 [] k = 16 -> 65536
UExt8(a) == <<a[1] % 256, 0, 0, 0>>
UExt16(a) == <<a[1], 0, 0, 0>>
UExt32(a) == <<a[1], a[2], 0, 0>>
Ext8(a) == IF (a[1] % 256) >= 128 THEN <<65280 + (a[1] % 256), 65535, 65535, 65535>> ELSE UExt8(a)
Ext16(a) == IF a[1] >= 32768 THEN <<a[1], 65535, 65535, 65535>> ELSE UExt16(a)
Ext32(a) == IF a[2] >= 32768 THEN <<a[1], a[2], 65535, 65535>> ELSE UExt32(a)

(* shifts, 0 <= n <= 63 *)
Limb(a, i) == IF i >= 1 /\ i <= 4 THEN a[i] ELSE 0
Shl64(a, n) ==
  LET q == n \div 16  k == n % 16
      L(i) == ((Limb(a, i - q) * Pow2(k)) % B16) + (IF k = 0 THEN 0 ELSE Limb(a, i - q - 1) \div Pow2(16 - k))
  IN <<L(1), L(2), L(3), L(4)>>
LShr64(a, n) ==
  LET q == n \div 16  k == n % 16
      L(i) == (Limb(a, i + q) \div Pow2(k)) + (IF k = 0 THEN 0 ELSE (Limb(a, i + q + 1) % Pow2(k)) * Pow2(16 - k))
  IN <<L(1), L(2), L(3), L(4)>>
AShr64(a, n) == IF IsNeg64(a) THEN Not64(LShr64(Not64(a), n)) ELSE LShr64(a, n)

(* multiplication through 8-bit digits: column sums stay below 2^20 *)
Bytes(a) == <<(a[1] % 256), (a[1] \div 256), (a[2] % 256), (a[2] \div 256), (a[3] % 256), (a[3] \div 256), (a[4] % 256), (a[4] \div 256)>>
RECURSIVE ColSum(_, _, _, _)
ColSum(x, y, k, i) ==            \* sum of x[i+1]*y[k-i+1] for i..min(k,7)
  IF i > k \/ i > 7 THEN 0
  ELSE (IF k - i <= 7 THEN x[i + 1] * y[k - i + 1] ELSE 0) + ColSum(x, y, k, i + 1)
RECURSIVE MulDigits(_, _, _, _, _)
MulDigits(x, y, k, carry, acc) ==   \* 16 result bytes
  IF k > 15 THEN acc
  ELSE LET t == ColSum(x, y, k, 0) + carry IN MulDigits(x, y, k + 1, (t \div 256), Append(acc, (t % 256)))
UMulFull(a, b) ==
  LET d == MulDigits(Bytes(a), Bytes(b), 0, 0, <<>>)
      P(i) == d[(2 * i) - 1] + (256 * d[2 * i])
  IN [lo |-> <<P(1), P(2), P(3), P(4)>>, hi |-> <<P(5), P(6), P(7), P(8)>>]
Mul64(a, b) == UMulFull(a, b).lo
Abs64(a) == IF IsNeg64(a) THEN Neg64(a) ELSE a
UMulOvf(a, b) == UMulFull(a, b).hi # Zero64
SMulOvf(a, b) ==
  LET p == UMulFull(Abs64(a), Abs64(b)) IN
  \/ p.hi # Zero64
  \/ IF IsNeg64(a) = IsNeg64(b) THEN IsNeg64(p.lo) ELSE ULt64(MinS64, p.lo)

(* unsigned division: restoring shift-subtract, most significant bit first *)
Bit64(a, i) == (a[(i \div 16) + 1] \div Pow2(i % 16)) % 2
SetBit64(a, i) == [a EXCEPT ![(i \div 16) + 1] = @ + Pow2(i % 16)]
RECURSIVE DivLoop(_, _, _, _, _)
DivLoop(i, n, d, q, r) ==
  IF i < 0 THEN [q |-> q, r |-> r]
  ELSE LET top == IsNeg64(r)
           r2 == LET s == Shl64(r, 1) IN [s EXCEPT ![1] = @ + Bit64(n, i)]
       IN IF top \/ ULe64(d, r2) THEN DivLoop(i - 1, n, d, SetBit64(q, i), Sub64(r2, d))
          ELSE DivLoop(i - 1, n, d, q, r2)
UDivRem(n, d) == DivLoop(63, n, d, Zero64, Zero64)         \* d # 0
UDiv64(n, d) == UDivRem(n, d).q
URem64(n, d) == UDivRem(n, d).r
(* signed division truncates toward zero; remainder has the sign of the dividend *)
SDiv64(n, d) == LET q == UDiv64(Abs64(n), Abs64(d)) IN IF IsNeg64(n) # IsNeg64(d) THEN Neg64(q) ELSE q
SRem64(n, d) == LET r == URem64(Abs64(n), Abs64(d)) IN IF IsNeg64(n) THEN Neg64(r) ELSE r

(* 32-bit views *)
Lo32(a) == <<a[1], a[2], 0, 0>>
Eq32(a, b) == a[1] = b[1] /\ a[2] = b[2]
=============================================================================
