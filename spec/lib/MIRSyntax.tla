----------------------------- MODULE MIRSyntax -----------------------------
(* Constant tables of the MIR abstract syntax shared by MIRModule.tla (the  *)
(* constructor) and MIRBin.tla (the binary token grammar): value encoding,  *)
(* data types in the order of MIR_type_t, instruction names in the order of *)
(* MIR_insn_code_t (mir.h; the position is the code the binary format       *)
(* writes) and the operand classes of every instruction (MIR.md "MIR        *)
(* insns").                                                                 *)
EXTENDS Integers, Sequences, FiniteSets

(* 64-bit quantities: 4 limbs of 16 bits, least significant first *)
W(n) == <<n % 65536, (n \div 65536) % 65536, 0, 0>>          \* n < 2^31
Zero == <<0, 0, 0, 0>>
Ones == <<65535, 65535, 65535, 65535>>

IntTypes == {"i8", "u8", "i16", "u16", "i32", "u32", "i64", "u64", "p"}
FpTypes == {"f", "d", "ld"}
ScalarTypes == IntTypes \cup FpTypes
BlkTypes == {"blk0", "blk1", "blk2", "blk3", "blk4"}
ArgTypes == ScalarTypes \cup BlkTypes \cup {"rblk"}
LocalTypes == {"i64", "f", "d", "ld"}
TClass(t) == IF t \in FpTypes THEN t ELSE "i"              \* the class of values a register / memory of this type holds

(* MIR_type_t order (mir.h): the binary format writes a type as TAG_TI8 + position *)
TypeNames == <<"i8", "u8", "i16", "u16", "i32", "u32", "i64", "u64", "f", "d", "ld", "p", "blk0", "blk1", "blk2", "blk3", "blk4", "rblk">>

(* ------------------------------------------------------------------ instruction table (MIR.md "MIR insns") *)
(* opcode names in the order of MIR_insn_code_t (mir.h): the position is the code the binary format writes *)
OpNames ==
  <<"mov", "fmov", "dmov", "ldmov", "ext8", "ext16", "ext32", "uext8", "uext16", "uext32", "i2f", "i2d", "i2ld", "ui2f", "ui2d", "ui2ld",
    "f2i", "d2i", "ld2i", "f2d", "f2ld", "d2f", "d2ld", "ld2f", "ld2d", "neg", "negs", "fneg", "dneg", "ldneg", "addr", "addr8", "addr16", "addr32",
    "add", "adds", "fadd", "dadd", "ldadd", "sub", "subs", "fsub", "dsub", "ldsub", "mul", "muls", "fmul", "dmul", "ldmul",
    "div", "divs", "udiv", "udivs", "fdiv", "ddiv", "lddiv", "mod", "mods", "umod", "umods", "and", "ands", "or", "ors", "xor", "xors",
    "lsh", "lshs", "rsh", "rshs", "ursh", "urshs", "eq", "eqs", "feq", "deq", "ldeq", "ne", "nes", "fne", "dne", "ldne",
    "lt", "lts", "ult", "ults", "flt", "dlt", "ldlt", "le", "les", "ule", "ules", "fle", "dle", "ldle",
    "gt", "gts", "ugt", "ugts", "fgt", "dgt", "ldgt", "ge", "ges", "uge", "uges", "fge", "dge", "ldge",
    "addo", "addos", "subo", "subos", "mulo", "mulos", "umulo", "umulos", "jmp", "bt", "bts", "bf", "bfs",
    "beq", "beqs", "fbeq", "dbeq", "ldbeq", "bne", "bnes", "fbne", "dbne", "ldbne",
    "blt", "blts", "ublt", "ublts", "fblt", "dblt", "ldblt", "ble", "bles", "uble", "ubles", "fble", "dble", "ldble",
    "bgt", "bgts", "ubgt", "ubgts", "fbgt", "dbgt", "ldbgt", "bge", "bges", "ubge", "ubges", "fbge", "dbge", "ldbge",
    "bo", "ubo", "bno", "ubno", "laddr", "jmpi", "call", "inline", "jcall", "switch", "ret", "jret", "alloca", "bstart", "bend",
    "va_arg", "va_block_arg", "va_start", "va_end", "label", "unspec", "prset", "prbeq", "prbne", "use", "phi", "invalid-insn">>
OpCode(op) == (CHOOSE i \in 1..Len(OpNames) : OpNames[i] = op) - 1

Cl(c, out) == [c |-> c, out |-> out, t |-> "", sz |-> Zero]
O(c) == Cl(c, TRUE)
I(c) == Cl(c, FALSE)
Un(co, ci) == <<O(co), I(ci)>>
Bin(c) == <<O(c), I(c), I(c)>>
Cmp(c) == <<O("i"), I(c), I(c)>>
Br3(c) == <<I("lab"), I(c), I(c)>>

IntUn == {"mov", "ext8", "ext16", "ext32", "uext8", "uext16", "uext32", "neg", "negs"}
IntBin == {"add", "adds", "sub", "subs", "mul", "muls", "div", "divs", "udiv", "udivs", "mod", "mods", "umod", "umods",
           "and", "ands", "or", "ors", "xor", "xors", "lsh", "lshs", "rsh", "rshs", "ursh", "urshs"}
IntCmp == {"eq", "eqs", "ne", "nes", "lt", "lts", "ult", "ults", "le", "les", "ule", "ules", "gt", "gts", "ugt", "ugts", "ge", "ges", "uge", "uges"}
Ovf == {"addo", "addos", "subo", "subos", "mulo", "mulos", "umulo", "umulos"}
FpAr(p) == {p \o "add", p \o "sub", p \o "mul", p \o "div"}
FpCm(p) == {p \o "eq", p \o "ne", p \o "lt", p \o "le", p \o "gt", p \o "ge"}
FpBr(p) == {p \o "beq", p \o "bne", p \o "blt", p \o "ble", p \o "bgt", p \o "bge"}
IntBr3 == {"beq", "beqs", "bne", "bnes", "blt", "blts", "ublt", "ublts", "ble", "bles", "uble", "ubles",
           "bgt", "bgts", "ubgt", "ubgts", "bge", "bges", "ubge", "ubges"}
Conv == {"i2f", "i2d", "i2ld", "ui2f", "ui2d", "ui2ld", "f2i", "d2i", "ld2i", "f2d", "f2ld", "d2f", "d2ld", "ld2f", "ld2d"}
OvfBr == {"bo", "ubo", "bno", "ubno"}

Sig(op) ==
  CASE op \in IntUn \cup {"alloca"} -> Un("i", "i")
    [] op = "fmov" \/ op = "fneg" -> Un("f", "f") [] op = "dmov" \/ op = "dneg" -> Un("d", "d") [] op = "ldmov" \/ op = "ldneg" -> Un("ld", "ld")
    [] op \in IntBin \cup Ovf -> Bin("i")
    [] op \in IntCmp -> Cmp("i")
    [] op \in {"i2f", "ui2f"} -> Un("f", "i") [] op \in {"i2d", "ui2d"} -> Un("d", "i") [] op \in {"i2ld", "ui2ld"} -> Un("ld", "i")
    [] op = "f2i" -> Un("i", "f") [] op = "d2i" -> Un("i", "d") [] op = "ld2i" -> Un("i", "ld")
    [] op = "f2d" -> Un("d", "f") [] op = "f2ld" -> Un("ld", "f") [] op = "d2f" -> Un("f", "d") [] op = "d2ld" -> Un("ld", "d")
    [] op = "ld2f" -> Un("f", "ld") [] op = "ld2d" -> Un("d", "ld")
    [] op \in FpAr("f") -> Bin("f") [] op \in FpAr("d") -> Bin("d") [] op \in FpAr("ld") -> Bin("ld")
    [] op \in FpCm("f") -> Cmp("f") [] op \in FpCm("d") -> Cmp("d") [] op \in FpCm("ld") -> Cmp("ld")
    [] op = "addr" -> <<O("i"), I("anyreg")>>
    [] op \in {"addr8", "addr16", "addr32"} -> <<O("i"), I("ireg")>>
    [] op = "jmp" \/ op \in OvfBr -> <<I("lab")>>
    [] op \in {"bt", "bts", "bf", "bfs"} -> <<I("lab"), I("i")>>
    [] op \in IntBr3 -> Br3("i")
    [] op \in FpBr("f") -> Br3("f") [] op \in FpBr("d") -> Br3("d") [] op \in FpBr("ld") -> Br3("ld")
    [] op = "laddr" -> <<O("i"), I("lab")>>
    [] op \in {"jmpi", "jret", "bend"} -> <<I("i")>>
    [] op = "bstart" -> <<O("i")>>
    [] op \in {"va_start", "va_end"} -> <<I("valist")>>
    [] op = "va_arg" -> <<O("i"), I("valist"), I("vamem")>>
    [] op = "va_block_arg" -> <<I("i"), I("valist"), I("i"), I("const")>>
    [] op = "prset" -> <<I("pvar"), I("const")>>
    [] op \in {"prbeq", "prbne"} -> <<I("lab"), I("pvar"), I("const")>>

=============================================================================
