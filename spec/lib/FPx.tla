-------------------------------- MODULE FPx --------------------------------
(* Exact floating-point domain.  A value is NaN, a signed infinity, a signed  *)
(* zero or a finite dyadic  (-1)^s * m * 2^e  with m odd, 0 < m < 2^30.      *)
(* Arithmetic is exact; when the exact result is not in this domain or not   *)
(* representable in the target format (binary32 "f", binary64 "d", x87      *)
(* extended "ld") the operator answers Inexact and the caller falls back to  *)
(* a host-arithmetic oracle.  Everything an optimiser or instruction        *)
(* selector can get wrong about data movement, comparison, NaN handling and  *)
(* conversion is decided here.                                              *)
EXTENDS Integers, Sequences, W64

NaN == [c |-> "nan"]
Inf(s) == [c |-> "inf", s |-> s]
FZero(s) == [c |-> "zero", s |-> s]
Inexact == [c |-> "inexact"]
MaxM == 1073741824    \* 2^30

RECURSIVE BitLen(_)
BitLen(n) == IF n = 0 THEN 0 ELSE 1 + BitLen(n \div 2)
RECURSIVE P2(_)
P2(k) == IF k = 0 THEN 1 ELSE 2 * P2(k - 1)        \* k <= 30
RECURSIVE Strip(_, _)
Strip(m, e) == IF m % 2 = 0 THEN Strip(m \div 2, e + 1) ELSE <<m, e>>
(* canonical finite value from sign, non-zero magnitude m < 2^31 and exponent *)
Fin(s, m, e) == LET t == Strip(m, e) IN [c |-> "fin", s |-> s, m |-> t[1], e |-> t[2]]

Prec(fmt) == CASE fmt = "f" -> 24 [] fmt = "d" -> 53 [] fmt = "ld" -> 64
EMin(fmt) == CASE fmt = "f" -> -149 [] fmt = "d" -> -1074 [] fmt = "ld" -> -16445
EMax(fmt) == CASE fmt = "f" -> 128 [] fmt = "d" -> 1024 [] fmt = "ld" -> 16384
Representable(x, fmt) ==
  x.c # "fin" \/ (BitLen(x.m) <= Prec(fmt) /\ x.e >= EMin(fmt) /\ x.e + BitLen(x.m) <= EMax(fmt))
Round(x, fmt) == IF x.c = "inexact" \/ Representable(x, fmt) THEN x ELSE Inexact
InFmt(x, fmt) == x.c # "inexact" /\ Representable(x, fmt)

FNeg(x) == CASE x.c = "nan" -> x [] x.c = "inexact" -> x [] OTHER -> [x EXCEPT !.s = 1 - @]
Sx(a, b) == IF a = b THEN 0 ELSE 1

(* signed integer m1*2^(e1-e) +/- m2*2^(e2-e) when it fits; sign s, magnitude *)
FAddFin(x, y) ==
  LET e == IF x.e < y.e THEN x.e ELSE y.e
      dx == x.e - e   dy == y.e - e
  IN IF dx + BitLen(x.m) > 29 \/ dy + BitLen(y.m) > 29 THEN Inexact
     ELSE LET a == (IF x.s = 1 THEN -1 ELSE 1) * x.m * P2(dx)
              b == (IF y.s = 1 THEN -1 ELSE 1) * y.m * P2(dy)
              r == a + b
          IN IF r = 0 THEN FZero(0) ELSE IF r < 0 THEN Fin(1, -r, e) ELSE Fin(0, r, e)
FAdd(x, y, fmt) ==
  CASE x.c = "inexact" \/ y.c = "inexact" -> Inexact
    [] x.c = "nan" \/ y.c = "nan" -> NaN
    [] x.c = "inf" /\ y.c = "inf" -> IF x.s = y.s THEN x ELSE NaN
    [] x.c = "inf" -> x
    [] y.c = "inf" -> y
    [] x.c = "zero" /\ y.c = "zero" -> IF x.s = 1 /\ y.s = 1 THEN FZero(1) ELSE FZero(0)
    [] x.c = "zero" -> y
    [] y.c = "zero" -> x
    [] OTHER -> Round(FAddFin(x, y), fmt)
FSub(x, y, fmt) == FAdd(x, FNeg(y), fmt)
FMul(x, y, fmt) ==
  CASE x.c = "inexact" \/ y.c = "inexact" -> Inexact
    [] x.c = "nan" \/ y.c = "nan" -> NaN
    [] (x.c = "inf" /\ y.c = "zero") \/ (x.c = "zero" /\ y.c = "inf") -> NaN
    [] x.c = "inf" \/ y.c = "inf" -> Inf(Sx(x.s, y.s))
    [] x.c = "zero" \/ y.c = "zero" -> FZero(Sx(x.s, y.s))
    [] OTHER -> IF BitLen(x.m) + BitLen(y.m) > 30 THEN Inexact
                ELSE Round(Fin(Sx(x.s, y.s), x.m * y.m, x.e + y.e), fmt)
FDiv(x, y, fmt) ==
  CASE x.c = "inexact" \/ y.c = "inexact" -> Inexact
    [] x.c = "nan" \/ y.c = "nan" -> NaN
    [] x.c = "inf" /\ y.c = "inf" -> NaN
    [] x.c = "zero" /\ y.c = "zero" -> NaN
    [] x.c = "inf" -> Inf(Sx(x.s, y.s))
    [] y.c = "inf" -> FZero(Sx(x.s, y.s))
    [] x.c = "zero" -> FZero(Sx(x.s, y.s))
    [] y.c = "zero" -> Inf(Sx(x.s, y.s))
    [] OTHER -> IF x.m % y.m = 0 THEN Round(Fin(Sx(x.s, y.s), x.m \div y.m, x.e - y.e), fmt) ELSE Inexact

(* comparisons: C semantics, any comparison with a NaN is false except != *)
FLtFin(x, y) ==     \* x < y for finite non-zero values of the same sign class handled by caller
  LET e == IF x.e < y.e THEN x.e ELSE y.e
      lx == x.e + BitLen(x.m)  ly == y.e + BitLen(y.m)     \* magnitudes: 2^(l-1) <= |v| < 2^l
  IN IF lx # ly THEN lx < ly
     ELSE \* same binade: align; the difference of exponents is < 30 here because bit lengths are <= 30
          x.m * P2(x.e - e) < y.m * P2(y.e - e)
Mag(x) == CASE x.c = "zero" -> 0 [] x.c = "inf" -> 2 [] OTHER -> 1
FLt(x, y) ==        \* assumes no NaN / inexact
  IF x.c = "zero" /\ y.c = "zero" THEN FALSE
  ELSE LET sx == IF x.c = "zero" THEN 0 ELSE x.s   sy == IF y.c = "zero" THEN 0 ELSE y.s
       IN IF x.c = "zero" THEN sy = 0
          ELSE IF y.c = "zero" THEN sx = 1
          ELSE IF sx # sy THEN sx = 1
          ELSE LET lt == IF Mag(x) # Mag(y) THEN Mag(x) < Mag(y)
                         ELSE IF x.c = "inf" THEN FALSE ELSE FLtFin(x, y)
                   gt == IF Mag(x) # Mag(y) THEN Mag(x) > Mag(y)
                         ELSE IF x.c = "inf" THEN FALSE ELSE FLtFin(y, x)
               IN IF sx = 0 THEN lt ELSE gt
FEq(x, y) == (x.c = "zero" /\ y.c = "zero") \/ x = y
Unordered(x, y) == x.c = "nan" \/ y.c = "nan"
FCmp(op, x, y) ==   \* op in eq ne lt le gt ge ; result BOOLEAN
  IF Unordered(x, y) THEN op = "ne"
  ELSE CASE op = "eq" -> FEq(x, y) [] op = "ne" -> ~FEq(x, y)
         [] op = "lt" -> FLt(x, y) [] op = "le" -> FLt(x, y) \/ FEq(x, y)
         [] op = "gt" -> FLt(y, x) [] op = "ge" -> FLt(y, x) \/ FEq(x, y)

(* integer -> fp : unsigned magnitude of a word as (m, e) when it has <= 30 significant bits *)
RECURSIVE TrailZ(_, _)
TrailZ(w, n) == IF n >= 64 \/ Bit64(w, n) = 1 THEN n ELSE TrailZ(w, n + 1)
MagToFp(s, w, fmt) ==
  IF w = Zero64 THEN FZero(0)
  ELSE LET tz == TrailZ(w, 0)  r == LShr64(w, tz)
       IN IF FitsNat(r) /\ ToNat(r) < MaxM THEN Round(Fin(s, ToNat(r), tz), fmt) ELSE Inexact
I2Fp(w, fmt) == IF IsNeg64(w) THEN MagToFp(1, Neg64(w), fmt) ELSE MagToFp(0, w, fmt)
UI2Fp(w, fmt) == MagToFp(0, w, fmt)

(* fp -> signed 64-bit integer, truncation toward zero; undefined outside the range (as in C) *)
Fp2I(x) ==
  CASE x.c = "zero" -> [ok |-> TRUE, v |-> Zero64]
    [] x.c = "fin" ->
         IF x.e >= 0
         THEN IF x.e + BitLen(x.m) <= 63
              THEN LET w == Shl64(FromNat(x.m), x.e) IN [ok |-> TRUE, v |-> IF x.s = 1 THEN Neg64(w) ELSE w]
              ELSE IF x.s = 1 /\ x.m = 1 /\ x.e = 63 THEN [ok |-> TRUE, v |-> MinS64] ELSE [ok |-> FALSE, v |-> Zero64]
         ELSE LET q == IF -x.e >= 30 THEN 0 ELSE x.m \div P2(-x.e)
              IN [ok |-> TRUE, v |-> IF x.s = 1 THEN Neg64(FromNat(q)) ELSE FromNat(q)]
    [] OTHER -> [ok |-> FALSE, v |-> Zero64]      \* NaN, infinities, inexact: undefined / not decided
FpConv(x, fmt) == Round(x, fmt)      \* f2d d2f ... : exact or Inexact; NaN/Inf/zero pass
=============================================================================
