CONSTANTS
  MaxItems = 2
INIT Init
NEXT Next
INVARIANT EmitInv
