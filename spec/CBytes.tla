------------------------------- MODULE CBytes -------------------------------
(* Object representation and access through character lvalues (C11 6.2.6.1, *)
(* 6.5p7) on x86-64 LP64: a scalar object of size n is n bytes, least        *)
(* significant first; an lvalue of type char, signed char or unsigned char   *)
(* may access any byte of any object (no effective-type restriction), so a   *)
(* store through it changes exactly that byte of the object and a read       *)
(* through it yields that byte (sign-extended for the signed types; plain    *)
(* char is signed).  A compiler that orders or forwards such accesses as if  *)
(* they could not alias the object breaks these programs.                    *)
(*                                                                           *)
(* A case: object type T, character pointer type P, byte offset k, a         *)
(* placement of the object (how the harness declares it) and one of three    *)
(* statement sequences over X (the object) and P[k]:                         *)
(*   patch   X = V; P[k] = B; y = X;              observe y                  *)
(*   reread  X = V; b0 = P[k]; X = W; b1 = P[k];  observe b0, b1             *)
(*   restore X = V; P[k] = B; X = W; r = P[k]; y = X;   observe r, y         *)
(* Function table: every combination is a state; nothing is sampled.         *)
EXTENDS Integers, Sequences, FiniteSets, TLC, Json, Emit, IOUtils

CONSTANTS Places      \* subset of {"loc", "glob", "par", "mem"}
VARIABLES lvl, ty, pt, k, form, place, bsel
vars == <<lvl, ty, pt, k, form, place, bsel>>

Part == IF "PART" \in DOMAIN IOEnv THEN atoi(IOEnv.PART) ELSE 0
NParts == IF "NPARTS" \in DOMAIN IOEnv THEN atoi(IOEnv.NPARTS) ELSE 1

ObjTypes == <<"c", "sc", "uc", "s", "us", "i", "u", "l", "ul", "ll", "ull", "f", "d">>
SizeOf(t) == CASE t \in {"c", "sc", "uc"} -> 1 [] t \in {"s", "us"} -> 2 [] t \in {"i", "u", "f"} -> 4 [] OTHER -> 8
SignedT(t) == t \in {"c", "sc", "s", "i", "l", "ll"}
PtrTypes == {"c", "sc", "uc"}
Forms == {"patch", "reread", "restore"}

HexDig == <<"0", "1", "2", "3", "4", "5", "6", "7", "8", "9", "a", "b", "c", "d", "e", "f">>
Hex2(b) == HexDig[(b \div 16) + 1] \o HexDig[(b % 16) + 1]
RECURSIVE HexLE(_, _)
HexLE(bs, i) == IF i = 0 THEN "" ELSE Hex2(bs[i]) \o HexLE(bs, i - 1)        \* most significant byte first
Hex(bs) == HexLE(bs, Len(bs))

(* the two values stored into the object, as bytes (least significant first) and as a C constant of its type.      *)
(* Integer types: byte j of V is 0x01 + 0x10 j; byte j of W is 0x0f + 0x0f j (signed types, stays positive) or      *)
(* 0x8f + 0x0f j (unsigned types, so that reads through signed character types see negative bytes).  Floating types:*)
(* values whose decimal spelling is exact.                                                                          *)
ValV(t) == CASE t = "f" -> [b |-> <<0, 128, 200, 66>>, c |-> "100.25f"]                              \* 0x42c88000
             [] t = "d" -> [b |-> <<0, 0, 0, 0, 0, 16, 89, 64>>, c |-> "100.25"]                      \* 0x4059100000000000
             [] OTHER -> LET bs == [j \in 1..SizeOf(t) |-> 1 + (16 * (j - 1))] IN [b |-> bs, c |-> "0x" \o Hex(bs)]
ValW(t) == CASE t = "f" -> [b |-> <<0, 0, 32, 192>>, c |-> "-2.5f"]                                  \* 0xc0200000
             [] t = "d" -> [b |-> <<0, 0, 0, 0, 0, 0, 4, 192>>, c |-> "-2.5"]                         \* 0xc004000000000000
             [] OTHER -> LET bs == [j \in 1..SizeOf(t) |-> (IF SignedT(t) THEN 15 ELSE 143) + (15 * (j - 1))] IN [b |-> bs, c |-> "0x" \o Hex(bs)]
Suffix(t) == CASE t = "u" -> "U" [] t = "l" -> "L" [] t = "ul" -> "UL" [] t = "ll" -> "LL" [] t = "ull" -> "ULL" [] OTHER -> ""
Lit(t, v) == IF t \in {"f", "d"} THEN v.c ELSE v.c \o Suffix(t)
(* the byte stored through the character pointer: 0x85 or 0x07; its value as the pointer's type sees it *)
PatchByte == <<133, 7>>
AsChar(p, b) == IF p = "uc" \/ b < 128 THEN b ELSE b - 256
NS(n) == IF n < 0 THEN "-" \o ToString(-n) ELSE ToString(n)

Patch(bs, i, b) == [bs EXCEPT ![i] = b]
Row ==
  LET V == ValV(ty)  W == ValW(ty)  B == PatchByte[bsel]  i == k + 1
      sB == NS(AsChar(pt, B))
      st == CASE form = "patch" -> <<"X = " \o Lit(ty, V) \o ";", "P[" \o NS(k) \o "] = " \o sB \o ";", "y = X;">>
              [] form = "reread" -> <<"X = " \o Lit(ty, V) \o ";", "b0 = P[" \o NS(k) \o "];", "X = " \o Lit(ty, W) \o ";", "b1 = P[" \o NS(k) \o "];", "y = X;">>
              [] form = "restore" -> <<"X = " \o Lit(ty, V) \o ";", "P[" \o NS(k) \o "] = " \o sB \o ";", "X = " \o Lit(ty, W) \o ";",
                                       "b1 = P[" \o NS(k) \o "];", "y = X;">>
      y == CASE form = "patch" -> Patch(V.b, i, B) [] OTHER -> W.b
      b0 == IF form = "reread" THEN AsChar(pt, V.b[i]) ELSE 0
      b1 == IF form = "patch" THEN 0 ELSE AsChar(pt, W.b[i])
  IN [ty |-> ty, pt |-> pt, k |-> k, form |-> form, place |-> place, st |-> st, y |-> Hex(y), b0 |-> b0, b1 |-> b1,
      sig |-> form \o ":" \o place \o ":" \o pt \o ":" \o ty]

Init == lvl = 0 /\ ty = "" /\ pt = "" /\ k = 0 /\ form = "" /\ place = "" /\ bsel = 1
Next ==
  \/ lvl = 0 /\ lvl' = 1 /\ (\E j \in 1..Len(ObjTypes) : (j % NParts) = Part /\ ty' = ObjTypes[j]) /\ pt' \in PtrTypes
       /\ UNCHANGED <<k, form, place, bsel>>
  \/ lvl = 1 /\ lvl' = 2 /\ k' \in 0..(SizeOf(ty) - 1) /\ form' \in Forms /\ place' \in Places /\ bsel' \in 1..2
       /\ UNCHANGED <<ty, pt>>
EmitInv == lvl = 2 => EmitJ(Row)
=============================================================================
