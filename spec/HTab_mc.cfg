CONSTANTS
  NK = 3
  NV = 2
  HashVals = {0, 5, 6, 2053}
  MinSize = 1
  MaxSize = 8
  Depth = 5
INIT Init
NEXT Next
VIEW View
CONSTRAINT Bound
ACTION_CONSTRAINT Emit
INVARIANTS Refines Reachable Shape
