------------------------------- MODULE CCopy -------------------------------
(* Simple assignment of structure and union objects (C11 6.5.16.1p2, 6.2.6.1): *)
(* the value of the right operand replaces the value of the left one, i.e. on  *)
(* this target the n bytes of the source object are copied to the n bytes of   *)
(* the destination object and nothing else changes.  Objects: A[3], B[3] and   *)
(* S of a structure / union type of n bytes (1..8, no padding), every byte of  *)
(* every object different (A[e][k] = 16(e+1)+k, B[e][k] = 80+16e+k,           *)
(* S[k] = 160+k), designated through array subscripts, pointer subscripts,     *)
(* pointer arithmetic or directly, with constant or variable indexes.          *)
(* Observed: all bytes of A, B and S after the assignment.                     *)
EXTENDS Integers, Sequences, FiniteSets, TLC, Json, Emit, IOUtils
VARIABLES lvl, n, kd, form, i, j, md
vars == <<lvl, n, kd, form, i, j, md>>
Part == IF "PART" \in DOMAIN IOEnv THEN atoi(IOEnv.PART) ELSE 0
NParts == IF "NPARTS" \in DOMAIN IOEnv THEN atoi(IOEnv.NPARTS) ELSE 1

Sizes == {1, 2, 3, 4, 5, 6, 8}
(* kinds of type: s struct of a byte array; u union of a byte array and a byte; m struct of several scalar members (no padding) *)
KindsOf(sz) == {"s", "u"} \cup (IF sz \in {2, 3, 4, 6, 8} THEN {"m"} ELSE {})
NS(x) == ToString(x)
TypeDecl(sz, k) ==
  CASE k = "s" -> "struct T@ { unsigned char c[" \o NS(sz) \o "]; };"
    [] k = "u" -> "union T@ { unsigned char c[" \o NS(sz) \o "]; unsigned char d; };"
    [] k = "m" -> CASE sz = 2 -> "struct T@ { short a; };" [] sz = 3 -> "struct T@ { unsigned char r, g, b; };"
                    [] sz = 4 -> "struct T@ { short lo, hi; };" [] sz = 6 -> "struct T@ { short a, b, c; };" [] sz = 8 -> "struct T@ { int a, b; };"
TypeName(k) == IF k = "u" THEN "union T@" ELSE "struct T@"
(* forms: destination and source designators; P points to A[0], Q to B[0] *)
Forms == {"aa", "as", "sa", "pa", "ap", "self", "dp", "pp"}
Ix(x, v) == IF md = "c" THEN NS(x) ELSE v
Stmt ==
  CASE form = "aa" -> "A@[" \o Ix(i, "vi") \o "] = B@[" \o Ix(j, "vj") \o "];"
    [] form = "as" -> "A@[" \o Ix(i, "vi") \o "] = S@;"
    [] form = "sa" -> "S@ = B@[" \o Ix(j, "vj") \o "];"
    [] form = "pa" -> "P[" \o Ix(i, "vi") \o "] = B@[" \o Ix(j, "vj") \o "];"
    [] form = "ap" -> "A@[" \o Ix(i, "vi") \o "] = Q[" \o Ix(j, "vj") \o "];"
    [] form = "self" -> "A@[" \o Ix(i, "vi") \o "] = A@[" \o Ix(j, "vj") \o "];"
    [] form = "dp" -> "*(P + " \o Ix(i, "vi") \o ") = *(Q + " \o Ix(j, "vj") \o ");"
    [] form = "pp" -> "P[" \o Ix(i, "vi") \o "] = Q[" \o Ix(j, "vj") \o "];"
(* ---- memory: three objects as byte sequences *)
A0 == [e \in 1..3 |-> [k \in 1..n |-> (16 * e) + (k - 1)]]
B0 == [e \in 1..3 |-> [k \in 1..n |-> 80 + (16 * (e - 1)) + (k - 1)]]
S0 == [k \in 1..n |-> 160 + (k - 1)]
After ==
  CASE form \in {"aa", "pa", "ap", "dp", "pp"} -> [A |-> [A0 EXCEPT ![i + 1] = B0[j + 1]], B |-> B0, S |-> S0]
    [] form = "as" -> [A |-> [A0 EXCEPT ![i + 1] = S0], B |-> B0, S |-> S0]
    [] form = "sa" -> [A |-> A0, B |-> B0, S |-> B0[j + 1]]
    [] form = "self" -> [A |-> [A0 EXCEPT ![i + 1] = A0[j + 1]], B |-> B0, S |-> S0]
HexDig == <<"0", "1", "2", "3", "4", "5", "6", "7", "8", "9", "a", "b", "c", "d", "e", "f">>
Hex2(x) == HexDig[(x \div 16) + 1] \o HexDig[(x % 16) + 1]
RECURSIVE HexSeq(_, _)
HexSeq(bs, k) == IF k > Len(bs) THEN "" ELSE Hex2(bs[k]) \o HexSeq(bs, k + 1)
HexArr(arr) == HexSeq(arr[1], 1) \o HexSeq(arr[2], 1) \o HexSeq(arr[3], 1)
Row ==
  LET tn == TypeName(kd)  r == After  N == NS(n) IN
  [fam |-> "copy",
   glob |-> <<TypeDecl(n, kd), "static " \o tn \o " A@[3], B@[3], S@;", "static volatile int wi@ = " \o NS(i) \o ", wj@ = " \o NS(j) \o ";",
              "static void dump@(const void *p, int len) { const unsigned char *b = p; int k; printf(\" \"); for (k = 0; k < len; k++) printf(\"%02x\", b[k]); }">>,
   body |-> <<"int k, vi = wi@, vj = wj@; " \o tn \o " *P = A@, *Q = B@;",
              "for (k = 0; k < 3 * " \o N \o "; k++) { ((unsigned char *)A@)[k] = 16 * (k / " \o N \o " + 1) + k % " \o N
                \o "; ((unsigned char *)B@)[k] = 80 + 16 * (k / " \o N \o ") + k % " \o N \o "; }",
              "for (k = 0; k < " \o N \o "; k++) ((unsigned char *)&S@)[k] = 160 + k;",
              Stmt,
              "dump@(A@, 3 * " \o N \o "); dump@(B@, 3 * " \o N \o "); dump@(&S@, " \o N \o "); (void)vi; (void)vj; (void)P; (void)Q;">>,
   pr |-> << <<" %d", "(int)sizeof (" \o tn \o ")">> >>,
   exp |-> <<HexArr(r.A), HexArr(r.B), HexSeq(r.S, 1), N>>,
   desc |-> TypeDecl(n, kd) \o " " \o tn \o " A[3], B[3], S, *P = A, *Q = B; (every byte distinct) " \o Stmt \o " with vi = " \o NS(i) \o ", vj = " \o NS(j),
   sig |-> form \o ":" \o kd \o N \o ":" \o md, d |-> 1]
Init == lvl = 0 /\ n = 1 /\ kd = "s" /\ form = "aa" /\ i = 0 /\ j = 0 /\ md = "c"
Next == lvl = 0 /\ lvl' = 1 /\ n' \in {x \in Sizes : (x % NParts) = Part \/ NParts = 1} /\ kd' \in KindsOf(n') /\ form' \in Forms
        /\ i' \in 0..2 /\ j' \in 0..2 /\ md' \in {"c", "v"}
EmitInv == lvl = 1 => EmitJ(Row)
=============================================================================
