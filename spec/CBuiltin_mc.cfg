CONSTANTS
  OpTypes = {"sc", "uc", "us", "i", "u", "l", "ull"}
  ResTypes = {"i", "u", "l", "ul", "ll", "ull"}
  GridSel = "g2"
  MaxVa = 2
  Variants = {"cv", "ri"}
INIT Init
NEXT Next
INVARIANT EmitInv
