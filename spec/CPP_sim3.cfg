CONSTANTS
  Fam = "mac"
  NM = 3
  KindSet = {"obj", "f0", "f1", "f2"}
  MaxBody = 4
  MaxInv = 6
  BodyAlpha = {"x", "y", "##", "f", "g", "fg", "a", "(", ")", ","}
  InvAlpha = {"f", "g", "fg", "a", "(", ")", ","}
  VarWs = FALSE
  InvHead = TRUE
  InvBal = FALSE
  NameScheme = 1
  MaxLines = 1
  MaxNest = 1
  CondSet = {"0"}
  LineSet = {"endif"}
  MaxD = 0
  AtomSet = {"0"}
  GapSet = {"sp"}
  OpSet = {"+"}
INIT Init
NEXT Next
INVARIANT EmitInv
