CONSTANTS
  MaxM = 2
  MaxInner = 2
  MaxDepth = 1
  MaxNested = 1
  Atoms <- AtomsTiny
  InnerAtoms <- AtomsTiny
  NestKinds <- NestNoArr
INIT Init
NEXT Next
ACTION_CONSTRAINT Emit
INVARIANT Sane
