CONSTANTS
  LeafTypes = {"B", "c", "sc", "uc", "s", "us", "i", "u", "l", "ul", "ll", "ull"}
  GridSel = "full"
  UnOps = {"+", "-", "~", "!"}
  CastTypes = {"B", "c", "sc", "uc", "s", "us", "i", "u", "l", "ul", "ll", "ull"}
  BinOps = {}
  UseCond = FALSE
  LvTypes = {}
  AsgOps = {}
  IncOps = {}
  UseEnum = TRUE
  UseLit = FALSE
  BfWidths = {}
  MaxDepth = 1
  MaxLeaves = 1
  MaxStack = 1
  MinParen = FALSE
  TwoPhase = FALSE
  Rnd = FALSE
  PtrLv = FALSE
INIT Init
NEXT Next
INVARIANT EmitInv
