CONSTANTS
  MaxMods = 1
  MaxItems = 1
  MaxInsns = 0
  MinItems = 1
  MinInsns = 0
  Grid = "tiny"
  Preamble = TRUE
  Header = "none"
  OneFree = FALSE
  NonFinite = FALSE
INIT BigInit
NEXT BigNext
ACTION_CONSTRAINT EmitModule

