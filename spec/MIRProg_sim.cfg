CONSTANTS
  NSlots = 12
  Abs = TRUE
  Lean = FALSE
  Vocab = "all"
INIT Init
NEXT Next
ACTION_CONSTRAINT EmitCase
INVARIANTS TypeOK RegsTyped
