CONSTANTS
  NSlots = 12
  Vocab = "all"
INIT Init
NEXT Next
ACTION_CONSTRAINT EmitCase
INVARIANTS TypeOK RegsTyped
