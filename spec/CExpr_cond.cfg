CONSTANTS
  LeafTypes = {"B", "sc", "us", "i", "u", "l", "ul", "ll", "ull"}
  GridSel = "g2"
  UnOps = {}
  CastTypes = {}
  BinOps = {}
  UseCond = TRUE
  LvTypes = {}
  AsgOps = {}
  IncOps = {}
  UseEnum = FALSE
  UseLit = FALSE
  BfWidths = {}
  MaxDepth = 1
  MaxLeaves = 3
  MaxStack = 3
  MinParen = FALSE
  TwoPhase = FALSE
  Rnd = FALSE
  PtrLv = FALSE
INIT Init
NEXT Next
INVARIANT EmitInv
