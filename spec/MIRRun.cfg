CONSTANTS
  NSlots = 12
  Glob = "calls"
  Abs = TRUE
  Lean = FALSE
  Vocab = "all"
INIT RInit
NEXT RNext
ACTION_CONSTRAINT REmit
INVARIANTS TypeOK RegsTyped
CHECK_DEADLOCK FALSE
