CONSTANTS
  BufLen = 8
  StartLen = 4
  MaxSymLen = 5
  Fixed = TRUE
  Mode = "file"
  MaxCost = 0
  NE = 0
  TagSymF = {0}
  TagRefF = {0}
  DataBytes = {97}
  UintLead = {128}
  UintCont = {0}
  ElemSet <- ElemsTiny
  SubstVals = {0}
INIT Init
NEXT Next
ACTION_CONSTRAINT EmitFile
