------------------------------- MODULE DList -------------------------------
(* mir-dlist.h: implementation-shaped doubly linked list (head, tail, prev,  *)
(* next pointers, 0 = NULL) with the sequence it must represent.            *)
EXTENDS Integers, Sequences, FiniteSets, TLC, Json, Emit
CONSTANTS NE, Depth
VARIABLES head, tail, prev, next, seq, h
E == 1..NE
vars == <<head, tail, prev, next, seq, h>>
View == <<head, tail, prev, next, seq>>
InList(e) == \E i \in 1..Len(seq) : seq[i] = e
Free == {e \in E : ~InList(e)}

Init == head = 0 /\ tail = 0 /\ prev = [e \in E |-> 0] /\ next = [e \in E |-> 0] /\ seq = <<>> /\ h = <<>>

RECURSIVE Walk(_, _, _)
Walk(p, f, n) == IF p = 0 \/ n = 0 THEN <<>> ELSE <<p>> \o Walk(f[p], f, n - 1)
Rev(s) == [i \in 1..Len(s) |-> s[Len(s) + 1 - i]]
IndexOf(e) == CHOOSE i \in 1..Len(seq) : seq[i] = e
InsertAt(s, i, e) == SubSeq(s, 1, i - 1) \o <<e>> \o SubSeq(s, i, Len(s))   \* e becomes s'[i]
RemoveAt(s, i) == SubSeq(s, 1, i - 1) \o SubSeq(s, i + 1, Len(s))

(* DLIST_EL(n): n >= 0 from head, n < 0 from tail (-1 = tail); 0 when out of range *)
ElAt(n) == IF n >= 0 THEN (IF n + 1 <= Len(seq) THEN seq[n + 1] ELSE 0)
           ELSE (IF -n <= Len(seq) THEN seq[Len(seq) + 1 + n] ELSE 0)

Log(op, a, b) == h' = Append(h, [op |-> op, a |-> a, b |-> b, seq |-> seq'])

Prepend(e) ==
  /\ IF head = 0 THEN tail' = e /\ prev' = [prev EXCEPT ![e] = 0]
     ELSE tail' = tail /\ prev' = [prev EXCEPT ![head] = e, ![e] = 0]
  /\ next' = [next EXCEPT ![e] = head] /\ head' = e
  /\ seq' = <<e>> \o seq /\ Log("prepend", e, 0)
Append_(e) ==
  /\ IF tail = 0 THEN head' = e /\ next' = [next EXCEPT ![e] = 0]
     ELSE head' = head /\ next' = [next EXCEPT ![tail] = e, ![e] = 0]
  /\ prev' = [prev EXCEPT ![e] = tail] /\ tail' = e
  /\ seq' = seq \o <<e>> /\ Log("append", e, 0)
InsertBefore(b, e) ==
  /\ IF prev[b] = 0
     THEN /\ prev' = [prev EXCEPT ![b] = e, ![e] = 0] /\ next' = [next EXCEPT ![e] = b] /\ head' = e
     ELSE /\ next' = [next EXCEPT ![prev[b]] = e, ![e] = b] /\ prev' = [prev EXCEPT ![e] = prev[b], ![b] = e] /\ head' = head
  /\ tail' = tail /\ seq' = InsertAt(seq, IndexOf(b), e) /\ Log("insert_before", b, e)
InsertAfter(a, e) ==
  /\ IF next[a] = 0
     THEN /\ next' = [next EXCEPT ![a] = e, ![e] = 0] /\ prev' = [prev EXCEPT ![e] = a] /\ tail' = e
     ELSE /\ prev' = [prev EXCEPT ![next[a]] = e, ![e] = a] /\ next' = [next EXCEPT ![e] = next[a], ![a] = e] /\ tail' = tail
  /\ head' = head /\ seq' = InsertAt(seq, IndexOf(a) + 1, e) /\ Log("insert_after", a, e)
Remove(e) ==
  /\ IF prev[e] # 0 THEN head' = head ELSE head' = next[e]
  /\ IF next[e] # 0 THEN tail' = tail ELSE tail' = prev[e]
  /\ next' = [x \in E |-> IF x = e THEN 0 ELSE IF x = prev[e] THEN next[e] ELSE next[x]]
  /\ prev' = [x \in E |-> IF x = e THEN 0 ELSE IF x = next[e] THEN prev[e] ELSE prev[x]]
  /\ seq' = RemoveAt(seq, IndexOf(e)) /\ Log("remove", e, 0)
Query(n) == UNCHANGED <<head, tail, prev, next, seq>> /\ h' = Append(h, [op |-> "el", a |-> n, b |-> ElAt(n), seq |-> seq])

Next == \/ \E e \in Free : Prepend(e) \/ Append_(e)
        \/ \E b \in E \ Free, e \in Free : InsertBefore(b, e) \/ InsertAfter(b, e)
        \/ \E e \in E \ Free : Remove(e)
        \/ \E n \in -NE - 1..NE : Query(n)
Spec == Init /\ [][Next]_vars

Refines == /\ Walk(head, next, NE + 1) = seq
           /\ Walk(tail, prev, NE + 1) = Rev(seq)
           /\ \A e \in Free : prev[e] = 0 /\ next[e] = 0
Bound == Len(h) <= Depth
EmitH == EmitJ([ne |-> NE, h |-> h'])
=============================================================================
