------------------------------- MODULE CDecl -------------------------------
(* File-scope declarations of one object identifier (C11 6.9.2 external     *)
(* object definitions, 6.2.2 linkage, 6.2.7 composite type, 6.7.9p21/p22):  *)
(* a translation unit may declare the same object several times (extern     *)
(* declarations, tentative definitions, at most one definition with an      *)
(* initialiser); all of them denote ONE object whose type is the composite  *)
(* of the declared types (an array of unknown size completed by a later or  *)
(* earlier sized declaration or by an initialiser; by 6.9.2p2/p5 one        *)
(* element if it stays unknown to the end of the unit), which is            *)
(* zero-initialised unless one declaration has an initialiser.              *)
(*                                                                           *)
(* A case: the kind of object (int, array of int, struct P {int a; long b})  *)
(* and a sequence of 1..MaxDecls declarations                                *)
(*     [extern | static | ] T o [size] [= initialiser] ;                     *)
(* plus the position of the function that uses the object (after the k-th   *)
(* declaration: later declarations follow the use).  Only sequences that are *)
(* strictly conforming are emitted:                                          *)
(*   - `extern' declarations carry no initialiser (it would be a definition  *)
(*     gcc warns about); at least one declaration is a (tentative)           *)
(*     definition, so the unit is self-contained;                            *)
(*   - at most one initialiser;                                              *)
(*   - linkage is consistent (6.2.2p7): internal linkage only if the FIRST   *)
(*     declaration is `static' and every later one is `static' or `extern';  *)
(*     no `static' after an external-linkage declaration;                    *)
(*   - a `static' tentative definition has a complete type (6.9.2p3);        *)
(*   - all declared or initialiser-implied array sizes agree.                *)
(* Expected observations: sizeof at the point of use (only if the type is    *)
(* complete there), first and last element / members before and after a      *)
(* store to the last element, and - from the compiler's output - that the    *)
(* unit defines exactly one object of that name with the composite size.     *)
EXTENDS Integers, Sequences, FiniteSets, TLC, Json, Emit, IOUtils

CONSTANTS MaxDecls
VARIABLES kind, ds, use, fin
vars == <<kind, ds, use, fin>>

Part == IF "PART" \in DOMAIN IOEnv THEN atoi(IOEnv.PART) ELSE 0
NParts == IF "NPARTS" \in DOMAIN IOEnv THEN atoi(IOEnv.NPARTS) ELSE 1

Kinds == {"int", "arr", "st"}
(* declaration: st storage class ("" | "extern" | "static"), sz declared array size (0 = `[]', arrays only),   *)
(* ini initialiser (0 none, 1 full, 2 partial)                                                               *)
D(st, sz, ini) == [st |-> st, sz |-> sz, ini |-> ini]
DeclForms(k) == {D(st, sz, ini) : st \in {"", "extern", "static"}, sz \in (IF k = "arr" THEN {0, 3} ELSE {0}), ini \in 0..2}
(* number of elements an array declaration determines, 0 if none *)
ImpliedSize(d) == IF d.sz # 0 THEN d.sz ELSE IF d.ini = 1 THEN 3 ELSE IF d.ini = 2 THEN 1 ELSE 0
IsDef(d) == d.st # "extern"                         \* tentative or actual definition
WellFormedDecl(k, d) ==
  /\ (d.st = "extern" => d.ini = 0)
  /\ (k # "arr" => d.ini # 2 \/ k = "st")           \* int: one initialiser form; struct: full {1, 2} or partial {1}
  /\ (k = "arr" /\ d.st = "static" /\ d.ini = 0 => d.sz # 0)                    \* 6.9.2p3
Sizes(s) == {ImpliedSize(s[i]) : i \in 1..Len(s)} \ {0}
Valid(k, s) ==
  /\ \A i \in 1..Len(s) : WellFormedDecl(k, s[i])
  /\ \E i \in 1..Len(s) : IsDef(s[i])
  /\ Cardinality({i \in 1..Len(s) : s[i].ini # 0}) <= 1
  /\ (s[1].st = "static" => \A i \in 1..Len(s) : s[i].st \in {"static", "extern"})
  /\ (s[1].st # "static" => \A i \in 1..Len(s) : s[i].st # "static")
  /\ (k = "arr" => Cardinality(Sizes(s)) <= 1)

(* ---- meaning *)
Elems(k, s) == IF k # "arr" THEN 0 ELSE IF Sizes(s) = {} THEN 1 ELSE CHOOSE n \in Sizes(s) : TRUE
(* the type is complete after the first j declarations? *)
CompleteAt(k, s, j) == k # "arr" \/ Sizes(SubSeq(s, 1, j)) # {}
IniOf(s) == IF \E i \in 1..Len(s) : s[i].ini # 0 THEN (CHOOSE i \in 1..Len(s) : s[i].ini # 0) ELSE 0
(* initial value of the scalars of the object: int <<v>>, array <<first, last>>, struct <<a, b>> *)
InitVals(k, s) ==
  LET i == IniOf(s)  n == Elems(k, s) IN
  IF i = 0 THEN (IF k = "int" THEN <<0>> ELSE <<0, 0>>)
  ELSE CASE k = "int" -> <<5>>
         [] k = "st" -> IF s[i].ini = 1 THEN <<1, 2>> ELSE <<1, 0>>
         [] k = "arr" -> IF s[i].ini = 1 THEN <<1, 3>> ELSE (IF n = 1 THEN <<4, 4>> ELSE <<4, 0>>)
ByteSize(k, s) == CASE k = "int" -> 4 [] k = "st" -> 16 [] k = "arr" -> 4 * Elems(k, s)
Internal(s) == s[1].st = "static"
(* attribution of a mismatch: the first (tentative) definition is an array of unknown size, no declaration has an initialiser *)
(* and the size comes from another declaration                                                                              *)
FirstDef(s) == CHOOSE i \in 1..Len(s) : IsDef(s[i]) /\ \A j \in 1..(i - 1) : ~IsDef(s[j])
TentativeUnsized(k, s) == k = "arr" /\ IniOf(s) = 0 /\ s[FirstDef(s)].sz = 0 /\ Sizes(s) # {}

(* ---- spelling: @ stands for the identifier *)
IniText(k, d) == CASE d.ini = 0 -> ""
                   [] k = "int" -> " = 5"
                   [] k = "st" -> IF d.ini = 1 THEN " = {1, 2}" ELSE " = {1}"
                   [] k = "arr" -> IF d.ini = 1 THEN " = {1, 2, 3}" ELSE " = {4}"
DeclText(k, d) ==
  (IF d.st = "" THEN "" ELSE d.st \o " ")
  \o (CASE k = "int" -> "int @" [] k = "st" -> "struct P @" [] k = "arr" -> "int @[" \o (IF d.sz = 0 THEN "" ELSE ToString(d.sz)) \o "]")
  \o IniText(k, d) \o ";"
RECURSIVE SigOf(_, _, _)
SigOf(k, s, i) == IF i > Len(s) THEN "" ELSE (IF i > 1 THEN "|" ELSE "") \o (IF s[i].st = "" THEN "plain" ELSE s[i].st)
                    \o (IF k = "arr" THEN (IF s[i].sz = 0 THEN "[]" ELSE "[3]") ELSE "") \o (IF s[i].ini = 0 THEN "" ELSE "=" \o ToString(s[i].ini))
                    \o SigOf(k, s, i + 1)

Init == kind = "" /\ ds = <<>> /\ use = 0 /\ fin = FALSE
Next ==
  /\ ~fin
  /\ \/ kind = "" /\ kind' \in {k \in Kinds : TRUE} /\ UNCHANGED <<ds, use, fin>>
     \/ kind # "" /\ Len(ds) < MaxDecls /\ (\E d \in DeclForms(kind) : WellFormedDecl(kind, d) /\ ds' = Append(ds, d)) /\ UNCHANGED <<kind, use, fin>>
     \/ kind # "" /\ ds # <<>> /\ Valid(kind, ds) /\ use' \in 1..Len(ds) /\ fin' = TRUE /\ UNCHANGED <<kind, ds>>
Row == [kind |-> kind, decls |-> [i \in 1..Len(ds) |-> DeclText(kind, ds[i])], use |-> use, n |-> Elems(kind, ds),
        szok |-> CompleteAt(kind, ds, use), size |-> ByteSize(kind, ds), vals |-> InitVals(kind, ds), internal |-> Internal(ds), tu |-> TentativeUnsized(kind, ds),
        sig |-> kind \o ":" \o SigOf(kind, ds, 1) \o ":use" \o ToString(use), d |-> Len(ds)]
EmitInv == fin => EmitJ(Row)
=============================================================================
