INIT Init
NEXT Next
