CONSTANTS
  LeafTypes = {"B", "c", "sc", "uc", "s", "us", "i", "u", "l", "ul", "ll", "ull"}
  GridSel = "g5"
  UnOps = {}
  CastTypes = {}
  BinOps = {}
  UseCond = FALSE
  LvTypes = {"B", "c", "sc", "uc", "s", "us", "i", "u", "l", "ul", "ll", "ull"}
  AsgOps = {"=", "+=", "-=", "*=", "/=", "%=", "<<=", ">>=", "&=", "|=", "^="}
  IncOps = {"++p", "p++", "--p", "p--"}
  UseEnum = TRUE
  UseLit = FALSE
  BfWidths = {}
  MaxDepth = 1
  MaxLeaves = 2
  MaxStack = 1
  MinParen = FALSE
  TwoPhase = FALSE
  Rnd = FALSE
  PtrLv = TRUE
INIT Init
NEXT Next
INVARIANT EmitInv
