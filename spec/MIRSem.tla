------------------------------- MODULE MIRSem -------------------------------
(* Small-step abstract machine for MIR programs, transcribed from MIR.md.    *)
(*                                                                          *)
(* A program is a sequence of functions; a function has typed registers and *)
(* a sequence of instruction records; labels are instruction indices.       *)
(* Integer values are 64-bit words, pointers are (block, offset) pairs that  *)
(* are never observable as numbers, FP values live in the exact FPx domain. *)
(* Memory is a sequence of blocks of tagged cells.  Any situation MIR.md     *)
(* leaves undefined - or that would make the observable behaviour depend on *)
(* something the specification does not fix (address values, rounding of an *)
(* inexact FP result, type punning between FP and integer bytes) - moves    *)
(* the machine to status "undef": such programs are discarded, never        *)
(* replayed.  One action (Step) per executed instruction.                   *)
EXTENDS Integers, Sequences, FiniteSets, TLC, MIRInsn

(* ---------------- values ------------------------------------------------ *)
(* h = TRUE: the upper 32 bits are undefined (result of a 32-bit "S" insn, MIR.md: "the higher part of 32-bit   *)
(* insn result is undefined"); w then holds the zero-extended low half and only 32-bit consumers may use the value *)
IntV(w) == [t |-> "i", w |-> w, h |-> FALSE]
IntV32(w) == [t |-> "i", w |-> Lo32(w), h |-> TRUE]
PtrV(b, o) == [t |-> "p", b |-> b, o |-> o]
FpV(x) == [t |-> "f", x |-> x]
LabV(f, l) == [t |-> "l", f |-> f, l |-> l]
LDiffV(f, a, b, d) == [t |-> "ld", f |-> f, a |-> a, b |-> b, d |-> d]   \* address of label a - address of label b + d (two-label lref item)
(* value of an integer variable after a 1- or 2-byte store through its address: only the low n bytes are defined.  MIR.md calls it a    *)
(* "variable treated as 8-bit (16-bit) value"; the engines disagree on the other bytes (the interpreter and -O0/-O1 code keep the old  *)
(* ones, -O2 code assigns the extension of the stored value), so they are undefined here; after a 4-byte store the h flag says the same *)
NarrowV(w, n) == [t |-> "nv", w |-> w, n |-> n]
(* A global variable tied to a hard register (`global i64:gv:r15`) is one object shared by all functions that declare it.  It is kept in  *)
(* memory block GlobBlk; before the program writes it, it holds whatever the native caller left in the register: an opaque value that  *)
(* may only be copied (a function saves it on entry and puts it back before it returns).                                               *)
GlobBlk == 6
OpaqueV == [t |-> "op"]
OpaqueCells == [j \in 1..8 |-> [k |-> "op", i |-> j]]
StackMarkV(fid, n) == [t |-> "sm", fid |-> fid, n |-> n]      \* what bstart saves: the activation and the number of memory blocks at that time
RegAddrV(fid, r, n) == [t |-> "ra", fid |-> fid, r |-> r, n |-> n]   \* address of variable r of the activation fid (addr insns); n bytes may be accessed
FnV(f) == [t |-> "fn", f |-> f]                 \* address of function f (a reference operand); never observable as a number
UndefV == [t |-> "u"]
Bad(why) == [t |-> "x", why |-> why]
IsBad(v) == v.t = "x"

(* ---------------- memory ------------------------------------------------ *)
ByteC(n) == [k |-> "b", v |-> n]
UndefC == [k |-> "u"]
FpC(fmt, i, x) == [k |-> "f", fmt |-> fmt, i |-> i, x |-> x]
TySize(ty) == CASE ty \in {"i8", "u8"} -> 1 [] ty \in {"i16", "u16"} -> 2 [] ty \in {"i32", "u32", "f"} -> 4
                [] ty \in {"i64", "u64", "p", "d"} -> 8 [] ty = "ld" -> 10
IsFpTy(ty) == ty \in {"f", "d", "ld"}
WordBytes(w) == Bytes(w)        \* 8 bytes, little endian
BytesWord(bs) ==                \* 1..8 byte values -> zero-extended word
  LET B(i) == IF i <= Len(bs) THEN bs[i] ELSE 0
  IN <<B(1) + (256 * B(2)), B(3) + (256 * B(4)), B(5) + (256 * B(6)), B(7) + (256 * B(8))>>
ExtTy(ty, w) == CASE ty = "i8" -> Ext8(w) [] ty = "u8" -> UExt8(w) [] ty = "i16" -> Ext16(w) [] ty = "u16" -> UExt16(w)
                  [] ty = "i32" -> Ext32(w) [] ty = "u32" -> UExt32(w) [] OTHER -> w

InBlock(mem, b, o, n) == b >= 1 /\ b <= Len(mem) /\ mem[b].live /\ o >= 0 /\ o + n <= mem[b].sz
LoadMem(mem, ty, b, o) ==
  LET n == TySize(ty) IN
  IF ~InBlock(mem, b, o, n) THEN Bad("load out of bounds or dead block")
  ELSE LET cs == SubSeq(mem[b].cells, o + 1, o + n) IN
       IF IsFpTy(ty)
       THEN IF \A i \in 1..n : cs[i].k = "f" /\ cs[i].fmt = ty /\ cs[i].i = i /\ cs[i].x = cs[1].x
            THEN FpV(cs[1].x) ELSE Bad("fp load of bytes not written as this fp type")
       ELSE IF \A i \in 1..n : cs[i].k = "b"
            THEN IntV(ExtTy(ty, BytesWord([i \in 1..n |-> cs[i].v])))
            ELSE IF ty \in {"i64", "u64", "p"} /\ \A i \in 1..n : cs[i].k = "p" /\ cs[i].i = i /\ cs[i].b = cs[1].b /\ cs[i].o = cs[1].o
                 THEN PtrV(cs[1].b, cs[1].o)
                 ELSE IF ty = "i64" /\ \A i \in 1..n : cs[i].k = "op" /\ cs[i].i = i THEN OpaqueV
                 ELSE IF ty \in {"i64", "u64", "p"} /\ \A i \in 1..n : cs[i].k = "fnc" /\ cs[i].i = i /\ cs[i].f = cs[1].f
                 THEN FnV(cs[1].f)                                    \* ref data item naming a function
                 ELSE IF ty \in {"i64", "u64", "p"} /\ \A i \in 1..n : cs[i].k = "l" /\ cs[i].i = i /\ cs[i].f = cs[1].f /\ cs[i].l = cs[1].l
                 THEN LabV(cs[1].f, cs[1].l)                          \* one-label lref item
                 ELSE IF ty \in {"i64", "u64"} /\ \A i \in 1..n : cs[i].k = "ld" /\ cs[i].i = i /\ cs[i].f = cs[1].f /\ cs[i].a = cs[1].a /\ cs[i].b = cs[1].b /\ cs[i].d = cs[1].d
                 THEN LDiffV(cs[1].f, cs[1].a, cs[1].b, cs[1].d)               \* two-label lref item
                 ELSE Bad("integer load of undefined, fp or partial pointer bytes")
StoreMem(mem, ty, b, o, v) ==       \* returns [ok, m, why]
  LET n == TySize(ty) IN
  IF ~InBlock(mem, b, o, n) THEN [ok |-> FALSE, m |-> mem, why |-> "store out of bounds or dead block"]
  ELSE IF v.t = "p" /\ n # 8 THEN [ok |-> FALSE, m |-> mem, why |-> "narrow store of a pointer"]
  ELSE IF v.t = "op" THEN (IF b = GlobBlk /\ n = 8 THEN [ok |-> TRUE, why |-> "", m |-> [mem EXCEPT ![b].cells = OpaqueCells]]
                           ELSE [ok |-> FALSE, m |-> mem, why |-> "opaque register contents stored to memory"])
  ELSE IF v.t = "l" /\ n = 8        \* a label address kept in memory or in a global variable (a return address for jret)
       THEN [ok |-> TRUE, why |-> "",
             m |-> [mem EXCEPT ![b].cells = [j \in 1..mem[b].sz |-> IF j > o /\ j <= o + 8 THEN [k |-> "l", i |-> j - o, f |-> v.f, l |-> v.l] ELSE @[j]]]]
  ELSE IF v.t \in {"l", "fn", "ld", "ra", "sm"} THEN [ok |-> FALSE, m |-> mem, why |-> "label, function or variable address stored to memory"]
  ELSE LET new == IF IsFpTy(ty) THEN [i \in 1..n |-> FpC(ty, i, v.x)]
                  ELSE IF v.t = "p" THEN [i \in 1..n |-> [k |-> "p", i |-> i, b |-> v.b, o |-> v.o]]
                  ELSE [i \in 1..n |-> IF v.h /\ i > 4 THEN UndefC ELSE ByteC(WordBytes(v.w)[i])]
       IN [ok |-> TRUE, why |-> "",
           m |-> [mem EXCEPT ![b].cells = [j \in 1..mem[b].sz |-> IF j > o /\ j <= o + n THEN new[j - o] ELSE @[j]]]]

(* ---------------- machine state ----------------------------------------- *)
(* frame: [f, id (unique per activation), pc, regs, base (number of memory blocks when the frame was entered), ovf]     *)
(* status: "run" | "done" | "undef"                                                                                 *)
VARIABLES prog, frames, mem, log, status, why, result, steps
mvars == <<prog, frames, mem, log, status, why, result, steps>>

(* ---------------- variables whose address was taken (addr, addr8, addr16, addr32) ---------------------------------- *)
(* The variable is then memory of its activation: little-endian bytes of its 64-bit value (or its FP value in the     *)
(* variable's own format).  An access through the address is defined only at the address itself, with at most the     *)
(* width the address insn named (so the program means the same on a big-endian target), while the activation exists.                                                *)
FrameOf(fid) == LET S == {i \in 1..Len(frames) : frames[i].id = fid} IN IF S = {} THEN 0 ELSE CHOOSE i \in S : TRUE
LoadReg(a, ty) ==
  LET fi == FrameOf(a.fid) IN
  IF fi = 0 THEN Bad("address of a variable of a finished activation used")
  ELSE LET v == frames[fi].regs[a.r]  rty == prog.funcs[frames[fi].f].regty[a.r] IN
       IF v.t = "u" THEN Bad("read of an unset variable through its address")
       ELSE IF IsFpTy(ty) \/ rty # "i" THEN (IF ty = rty /\ v.t = "f" THEN v ELSE Bad("variable accessed in another format through its address"))
       ELSE IF TySize(ty) # a.n THEN Bad("access of another width than the address insn names")
       ELSE IF TySize(ty) = 8 THEN (IF v.t \in {"i", "p"} THEN v ELSE Bad("undefined bytes, label or function address read through a variable address"))
       ELSE IF v.t = "nv" THEN (IF TySize(ty) <= v.n THEN IntV(ExtTy(ty, v.w)) ELSE Bad("undefined bytes of a narrow variable read"))
       ELSE IF v.t # "i" THEN Bad("narrow read of a non-integer variable through its address")
       ELSE IntV(ExtTy(ty, v.w))
StoreReg(a, ty, v) ==      \* [ok, fi, v (new value of the variable), why]
  LET fi == FrameOf(a.fid) IN
  IF fi = 0 THEN [ok |-> FALSE, why |-> "address of a variable of a finished activation used"]
  ELSE LET old == frames[fi].regs[a.r]  rty == prog.funcs[frames[fi].f].regty[a.r] IN
       IF IsFpTy(ty) \/ rty # "i"
       THEN (IF ty = rty /\ v.t = "f" THEN [ok |-> TRUE, fi |-> fi, v |-> v, why |-> ""]
             ELSE [ok |-> FALSE, why |-> "variable accessed in another format through its address"])
       ELSE IF TySize(ty) # a.n THEN [ok |-> FALSE, why |-> "access of another width than the address insn names"]
       ELSE IF TySize(ty) = 8
       THEN (IF v.t \in {"i", "p"} THEN [ok |-> TRUE, fi |-> fi, v |-> v, why |-> ""]
             ELSE [ok |-> FALSE, why |-> "label, function or variable address stored to a variable through its address"])
       ELSE IF v.t # "i" THEN [ok |-> FALSE, why |-> "narrow store of a non-integer through a variable address"]
       ELSE LET n == TySize(ty)
                nb == WordBytes(v.w)
                w2 == BytesWord([i \in 1..8 |-> IF i <= n THEN nb[i] ELSE 0])
            IN [ok |-> TRUE, fi |-> fi, v |-> IF n = 4 THEN IntV32(w2) ELSE NarrowV(w2, n), why |-> ""]

(* ---------------- operands ---------------------------------------------- *)
(* [k |-> "reg", r] | [k |-> "imm", w] | [k |-> "fimm", x] | [k |-> "mem", ty, disp, base, idx, scale] | [k |-> "lab", l] *)
RegVal(regs, r) == IF regs[r].t = "u" THEN Bad("read of an unset register")
                   ELSE IF regs[r].t = "nv" THEN Bad("undefined bytes of a narrow variable read") ELSE regs[r]
(* Memory block 1 (the buffer the program is called on) has a known address: operands without a base register address it *)
(* with numbers, disp + index * scale.  No other pointer is a number.                                                    *)
AbsBaseNat == 268435456        \* 0x10000000
AbsAddr(regs, op) ==
  LET iv == IF op.idx = 0 THEN IntV(Zero64) ELSE RegVal(regs, op.idx) IN
  IF IsBad(iv) THEN iv
  ELSE IF iv.t # "i" \/ iv.h THEN Bad("memory index is not a fully defined integer")
  ELSE IF ~(FitsNat(iv.w) /\ ToNat(iv.w) <= (1073741823 \div op.scale) /\ op.disp <= 1073741823) THEN Bad("absolute address out of modelled range")
  ELSE LET n == op.disp + (ToNat(iv.w) * op.scale) IN
       IF n >= AbsBaseNat /\ n < AbsBaseNat + 4096 THEN PtrV(1, n - AbsBaseNat) ELSE Bad("absolute address outside the known block")
Addr(regs, op) ==      \* pointer value of a memory operand or Bad
  IF op.base = 0 THEN AbsAddr(regs, op) ELSE
  LET bv == RegVal(regs, op.base) IN
  IF IsBad(bv) THEN bv
  ELSE IF bv.t = "ra" THEN (IF op.idx = 0 /\ op.disp = 0 THEN bv ELSE Bad("arithmetic on the address of a variable"))
  ELSE IF bv.t # "p" THEN Bad("memory base is not a pointer")
  ELSE IF op.idx = 0 THEN PtrV(bv.b, bv.o + op.disp)
  ELSE LET iv == RegVal(regs, op.idx) IN
       IF IsBad(iv) THEN iv
       ELSE IF iv.t # "i" THEN Bad("memory index is not an integer")
       ELSE IF ~(FitsNat(iv.w) /\ ToNat(iv.w) < 4096) THEN Bad("index out of modelled range")
       ELSE PtrV(bv.b, bv.o + op.disp + (ToNat(iv.w) * op.scale))
Eval(regs, mm, op) ==
  CASE op.k = "reg" -> RegVal(regs, op.r)
    [] op.k = "imm" -> IntV(op.w)
    [] op.k = "fimm" -> FpV(op.x)
    [] op.k = "ref" -> FnV(op.f)
    [] op.k = "dref" -> PtrV(op.b, 0)                   \* address of a module-level data/bss item (a fixed memory block)
    [] op.k = "blk" -> RegVal(regs, op.r)               \* block argument: the register holds the block's address
    [] op.k = "greg" -> LoadMem(mm, "i64", GlobBlk, 0)  \* the global variable tied to a hard register
    [] op.k = "mem" -> LET a == Addr(regs, op) IN IF IsBad(a) THEN a ELSE IF a.t = "ra" THEN LoadReg(a, op.ty) ELSE LoadMem(mm, op.ty, a.b, a.o)

(* integer value expected: pointers are not numbers; AsInt needs all 64 bits, AsInt32 only the low half *)
(* what a sign/zero extension insn sees of its operand: a narrow variable may be read up to its defined width *)
EvalLow(regs, mm, opnd, nbytes) ==
  IF opnd.k = "reg" /\ regs[opnd.r].t = "nv"
  THEN (IF nbytes <= regs[opnd.r].n THEN IntV32(regs[opnd.r].w) ELSE Bad("undefined bytes of a narrow variable read"))
  ELSE Eval(regs, mm, opnd)
ExtBytes(o) == CASE o \in {"ext8", "uext8"} -> 1 [] o \in {"ext16", "uext16"} -> 2 [] OTHER -> 4
AsInt32(v) == IF IsBad(v) THEN v ELSE IF v.t = "i" THEN v ELSE Bad("pointer or non-integer used as a number")
AsInt(v) == IF IsBad(v) THEN v ELSE IF v.t # "i" THEN Bad("pointer or non-integer used as a number")
            ELSE IF v.h THEN Bad("undefined upper half of a 32-bit result used") ELSE v
Ops32 == {"negs", "adds", "subs", "muls", "divs", "udivs", "mods", "umods", "ands", "ors", "xors", "lshs", "rshs", "urshs",
          "eqs", "nes", "lts", "ults", "les", "ules", "gts", "ugts", "ges", "uges", "addos", "subos", "mulos", "umulos"}
LowOnly1 == {"ext8", "ext16", "ext32", "uext8", "uext16", "uext32", "negs"}
Br32 == {"bts", "bfs", "beqs", "bnes", "blts", "ublts", "bles", "ubles", "bgts", "ubgts", "bges", "ubges"}
ResV(op, w) == IF op \in Ops32 THEN IntV32(w) ELSE IntV(w)
HiZero(v) == v.t = "i" /\ ~v.h /\ v.w[3] = 0 /\ v.w[4] = 0


Top == frames[Len(frames)]
Fn(fr) == prog.funcs[fr.f]
CurInsn == Fn(Top).insns[Top.pc]

SetTop(fr) == [frames EXCEPT ![Len(frames)] = fr]
GoUndef(reason) ==
  /\ status' = "undef" /\ why' = reason
  /\ UNCHANGED <<prog, frames, mem, log, result>>

(* write a value to a destination operand (reg or mem) in the top frame; jump to pc2 *)
WriteDst(dst, v, pc2, ovf2) ==
  IF dst.k = "reg"
  THEN /\ frames' = SetTop([Top EXCEPT !.regs[dst.r] = v, !.pc = pc2, !.ovf = ovf2])
       /\ UNCHANGED <<prog, mem, log, status, why, result>>
  ELSE IF dst.k = "greg"
  THEN LET m2 == StoreMem(mem, "i64", GlobBlk, 0, v) IN
       IF ~m2.ok THEN GoUndef(m2.why)
       ELSE /\ mem' = m2.m
            /\ frames' = SetTop([Top EXCEPT !.pc = pc2, !.ovf = ovf2])
            /\ UNCHANGED <<prog, log, status, why, result>>
  ELSE LET a == Addr(Top.regs, dst) IN
       IF IsBad(a) THEN GoUndef(a.why)
       ELSE IF a.t = "ra"
       THEN LET r2 == StoreReg(a, dst.ty, v) IN
            IF ~r2.ok THEN GoUndef(r2.why)
            ELSE /\ frames' = [SetTop([Top EXCEPT !.pc = pc2, !.ovf = ovf2]) EXCEPT ![r2.fi].regs[a.r] = r2.v]
                 /\ UNCHANGED <<prog, mem, log, status, why, result>>
       ELSE LET m2 == StoreMem(mem, dst.ty, a.b, a.o, v) IN
            IF ~m2.ok THEN GoUndef(m2.why)
            ELSE /\ mem' = m2.m
                 /\ frames' = SetTop([Top EXCEPT !.pc = pc2, !.ovf = ovf2])
                 /\ UNCHANGED <<prog, log, status, why, result>>

Jump(pc2) == /\ frames' = SetTop([Top EXCEPT !.pc = pc2, !.ovf = [def |-> FALSE]])
             /\ UNCHANGED <<prog, mem, log, status, why, result>>

NoOvf == [def |-> FALSE]
FmtOf(op) == IF SubSeq(op, 1, 2) = "ld" THEN "ld" ELSE SubSeq(op, 1, 1)
Strip1(op) == IF SubSeq(op, 1, 2) = "ld" THEN SubSeq(op, 3, Len(op)) ELSE SubSeq(op, 2, Len(op))

IntMoves == IntUnary
FpMoves == {"fmov", "dmov", "ldmov"}
FpBin == {"fadd", "fsub", "fmul", "fdiv", "dadd", "dsub", "dmul", "ddiv", "ldadd", "ldsub", "ldmul", "lddiv"}
FpCmpI == {"feq", "fne", "flt", "fle", "fgt", "fge", "deq", "dne", "dlt", "dle", "dgt", "dge",
           "ldeq", "ldne", "ldlt", "ldle", "ldgt", "ldge"}
FpBr == {"fbeq", "fbne", "fblt", "fble", "fbgt", "fbge", "dbeq", "dbne", "dblt", "dble", "dbgt", "dbge",
         "ldbeq", "ldbne", "ldblt", "ldble", "ldbgt", "ldbge"}
FpNegs == {"fneg", "dneg", "ldneg"}
I2F == {"i2f", "i2d", "i2ld", "ui2f", "ui2d", "ui2ld"}
F2I == {"f2i", "d2i", "ld2i"}
F2F == {"f2d", "f2ld", "d2f", "d2ld", "ld2f", "ld2d"}
Br1 == {"bt", "bf", "bts", "bfs"}
OvfBr == {"bo", "bno", "ubo", "ubno"}
DstFmtOf(o) == IF SubSeq(o, Len(o) - 1, Len(o)) = "ld" THEN "ld" ELSE SubSeq(o, Len(o), Len(o))

(* narrowing of an integer argument / result per its declared type, as the callee / caller sees it *)
Narrow(ty, v) == IF v.t = "i" /\ ty \in {"i8", "u8", "i16", "u16", "i32", "u32"} THEN IntV(ExtTy(ty, v.w)) ELSE v

ExtResult(id, v) == IntV(Add64(v.w, id.w))          \* what harness ext_i(id, v) returns

IsVararg(f) == "vararg" \in DOMAIN f /\ f.vararg
(* the variable tail of a call of a `...` function: values with the type they are passed as (from the operand) *)
ArgTy(opnd) == CASE opnd.k = "reg" -> (LET ty == Fn(Top).regty[opnd.r] IN IF ty = "i" THEN "i64" ELSE ty)
                 [] opnd.k = "mem" -> (IF IsFpTy(opnd.ty) THEN opnd.ty ELSE "i64")
                 [] opnd.k = "fimm" -> opnd.fmt
                 [] OTHER -> "i64"
VaTail(I, g, args) == [i \in 1..(Len(args) - Len(g.params)) |-> [v |-> args[Len(g.params) + i], ty |-> ArgTy(I.args[Len(g.params) + i])]]
VaCells(fid, pos) == [j \in 1..24 |-> [k |-> "va", i |-> j, fid |-> fid, pos |-> pos]]
VaState(a) ==    \* the va_list object at pointer a: [ok, pos] ; it must have been started by this activation
  IF a.t # "p" \/ ~InBlock(mem, a.b, a.o, 24) THEN [ok |-> FALSE]
  ELSE LET cs == SubSeq(mem[a.b].cells, a.o + 1, a.o + 24) IN
       IF \A j \in 1..24 : cs[j].k = "va" /\ cs[j].i = j /\ cs[j].fid = Top.id /\ cs[j].pos = cs[1].pos
       THEN [ok |-> TRUE, pos |-> cs[1].pos] ELSE [ok |-> FALSE]
SetCells(m, b, o, new) == [m EXCEPT ![b].cells = [j \in 1..m[b].sz |-> IF j > o /\ j <= o + Len(new) THEN new[j - o] ELSE @[j]]]

\* block parameter types: by value (blk, blk1 = INTEGER-class block in registers) of several sizes, and return blocks
ByValTys == {"blk16", "blk1_16", "blk12", "blk20", "blk4", "blk1_8"}
BlkSz(ty) == CASE ty \in {"blk16", "blk1_16", "rblk16"} -> 16 [] ty = "blk12" -> 12 [] ty = "blk20" -> 20 [] ty = "blk4" -> 4 [] ty = "blk1_8" -> 8 [] OTHER -> 0

Step ==
  /\ status = "run"
  /\ steps' = steps + 1
  /\ prog' = prog
  /\ LET I == CurInsn  op == I.op  R == Top.regs  nxt == Top.pc + 1 IN
     CASE op = "mov" ->     \* 64-bit move: integers and pointers
            LET v == Eval(R, mem, I.s[1]) IN
            IF IsBad(v) THEN GoUndef(v.why) ELSE WriteDst(I.d, v, nxt, NoOvf)
       [] op \in IntUnary \ {"mov"} ->
            LET v == IF op \in LowOnly1 \ {"negs"} THEN AsInt32(EvalLow(R, mem, I.s[1], ExtBytes(op)))
                     ELSE IF op \in LowOnly1 THEN AsInt32(Eval(R, mem, I.s[1])) ELSE AsInt(Eval(R, mem, I.s[1])) IN
            IF IsBad(v) THEN GoUndef(v.why) ELSE WriteDst(I.d, ResV(op, Sem1(op, v.w).v), nxt, NoOvf)
       [] op \in IntBinary ->
            LET a == Eval(R, mem, I.s[1])  b == Eval(R, mem, I.s[2]) IN
            IF IsBad(a) THEN GoUndef(a.why) ELSE IF IsBad(b) THEN GoUndef(b.why)
            ELSE IF op \in {"add", "sub"} /\ a.t = "p" /\ b.t = "i"      \* pointer arithmetic stays inside the model
                 THEN IF FitsNat(b.w) /\ ToNat(b.w) < 70000
                      THEN WriteDst(I.d, PtrV(a.b, IF op = "add" THEN a.o + ToNat(b.w) ELSE a.o - ToNat(b.w)), nxt, NoOvf)
                      ELSE GoUndef("pointer arithmetic out of modelled range")
            ELSE IF op = "add" /\ a.t = "l" /\ b.t = "ld" /\ a.f = b.f /\ a.l = b.b /\ b.d = 0     \* label + (label2 - label) = label2
                 THEN WriteDst(I.d, LabV(a.f, b.a), nxt, NoOvf)
            ELSE IF op = "add" /\ b.t = "l" /\ a.t = "ld" /\ a.f = b.f /\ b.l = a.b /\ a.d = 0
                 THEN WriteDst(I.d, LabV(b.f, a.a), nxt, NoOvf)
            ELSE IF op \in {"add", "sub"} /\ a.t = "ld" /\ b.t = "i" /\ ~b.h /\ FitsNat(b.w) /\ ToNat(b.w) < 4096   \* a biased label distance
                 THEN WriteDst(I.d, LDiffV(a.f, a.a, a.b, IF op = "add" THEN a.d + ToNat(b.w) ELSE a.d - ToNat(b.w)), nxt, NoOvf)
            ELSE IF a.t # "i" \/ b.t # "i" THEN GoUndef("pointer used as a number")
            ELSE IF op = "and" /\ (a.h \/ b.h) /\ (HiZero(a) \/ HiZero(b))      \* the mask clears the undefined half
                 THEN WriteDst(I.d, IntV(And64(a.w, b.w)), nxt, NoOvf)
            ELSE IF op \notin Ops32 /\ (a.h \/ b.h) THEN GoUndef("undefined upper half of a 32-bit result used")
            ELSE LET r == Sem2(op, a.w, b.w) IN
                 IF ~r.ok THEN GoUndef("undefined integer operation " \o op)
                 ELSE WriteDst(I.d, ResV(op, r.v), nxt,
                               IF op \in IntOvf THEN [def |-> TRUE, op |-> op, fl |-> OvfFlags(op, a.w, b.w)] ELSE NoOvf)
       [] op \in FpMoves ->
            LET v == Eval(R, mem, I.s[1]) IN
            IF IsBad(v) THEN GoUndef(v.why) ELSE WriteDst(I.d, v, nxt, NoOvf)
       [] op \in FpNegs ->
            LET v == Eval(R, mem, I.s[1]) IN
            IF IsBad(v) THEN GoUndef(v.why) ELSE WriteDst(I.d, FpV(FNeg(v.x)), nxt, NoOvf)
       [] op \in FpBin ->
            LET a == Eval(R, mem, I.s[1])  b == Eval(R, mem, I.s[2]) IN
            IF IsBad(a) THEN GoUndef(a.why) ELSE IF IsBad(b) THEN GoUndef(b.why)
            ELSE LET r == FSem2(FmtOf(op), Strip1(op), a.x, b.x) IN
                 IF r.c = "inexact" THEN GoUndef("inexact fp result (not decided by the exact domain)")
                 ELSE WriteDst(I.d, FpV(r), nxt, NoOvf)
       [] op \in FpCmpI ->
            LET a == Eval(R, mem, I.s[1])  b == Eval(R, mem, I.s[2]) IN
            IF IsBad(a) THEN GoUndef(a.why) ELSE IF IsBad(b) THEN GoUndef(b.why)
            ELSE WriteDst(I.d, IntV(FCmp64(Strip1(op), a.x, b.x)), nxt, NoOvf)
       [] op \in I2F ->
            LET a == AsInt(Eval(R, mem, I.s[1])) IN
            IF IsBad(a) THEN GoUndef(a.why)
            ELSE LET r == IF SubSeq(op, 1, 1) = "u" THEN UI2Fp(a.w, DstFmtOf(op)) ELSE I2Fp(a.w, DstFmtOf(op)) IN
                 IF r.c = "inexact" THEN GoUndef("inexact int->fp") ELSE WriteDst(I.d, FpV(r), nxt, NoOvf)
       [] op \in F2I ->
            LET a == Eval(R, mem, I.s[1]) IN
            IF IsBad(a) THEN GoUndef(a.why)
            ELSE LET r == Fp2I(a.x) IN IF ~r.ok THEN GoUndef("fp->int out of range") ELSE WriteDst(I.d, IntV(r.v), nxt, NoOvf)
       [] op \in F2F ->
            LET a == Eval(R, mem, I.s[1]) IN
            IF IsBad(a) THEN GoUndef(a.why)
            ELSE LET r == FpConv(a.x, DstFmtOf(op)) IN
                 IF r.c = "inexact" THEN GoUndef("inexact fp conversion") ELSE WriteDst(I.d, FpV(r), nxt, NoOvf)
       [] op = "jmp" -> Jump(I.l)
       \* property insns: no machine code of their own; a property is a compile-time tag of a variable that only lazy basic block
       \* versioning tracks -- everywhere else (and here) every property is 0, so `prbeq L, x, c` jumps iff c = 0.  Programs using
       \* them are meaningful only if both ways lead to the same observations (the families of families.py are built that way).
       [] op = "prset" -> Jump(nxt)
       [] op \in {"prbeq", "prbne"} -> Jump(IF (op = "prbeq") = (I.s[2].w = Zero64) THEN I.l ELSE nxt)
       [] op \in Br1 ->
            LET a == IF op \in Br32 THEN AsInt32(Eval(R, mem, I.s[1])) ELSE AsInt(Eval(R, mem, I.s[1])) IN
            IF IsBad(a) THEN GoUndef(a.why) ELSE Jump(IF Taken1(op, a.w) THEN I.l ELSE nxt)
       [] op \in IntBranch ->
            LET a == IF op \in Br32 THEN AsInt32(Eval(R, mem, I.s[1])) ELSE AsInt(Eval(R, mem, I.s[1]))
                b == IF op \in Br32 THEN AsInt32(Eval(R, mem, I.s[2])) ELSE AsInt(Eval(R, mem, I.s[2])) IN
            IF IsBad(a) THEN GoUndef(a.why) ELSE IF IsBad(b) THEN GoUndef(b.why)
            ELSE Jump(IF Taken2(op, a.w, b.w) THEN I.l ELSE nxt)
       [] op \in FpBr ->
            LET a == Eval(R, mem, I.s[1])  b == Eval(R, mem, I.s[2]) IN
            IF IsBad(a) THEN GoUndef(a.why) ELSE IF IsBad(b) THEN GoUndef(b.why)
            ELSE Jump(IF FCmp(SubSeq(Strip1(op), 2, 3), a.x, b.x) THEN I.l ELSE nxt)
       [] op \in OvfBr ->
            IF ~Top.ovf.def THEN GoUndef("overflow branch not directly after an overflow insn")
            ELSE IF ~FlagDefined(Top.ovf.op, op) THEN GoUndef("flag not defined by the producer")
            ELSE Jump(IF OvfTaken(op, Top.ovf.fl) THEN I.l ELSE nxt)
       [] op = "switch" ->
            LET a == AsInt(Eval(R, mem, I.s[1])) IN
            IF IsBad(a) THEN GoUndef(a.why)
            ELSE IF ~(FitsNat(a.w) /\ ToNat(a.w) < Len(I.ls)) THEN GoUndef("switch index out of range")
            ELSE Jump(I.ls[ToNat(a.w) + 1])
       [] op = "laddr" -> WriteDst(I.d, LabV(Top.f, I.l), nxt, NoOvf)
       [] op \in {"addr", "addr8", "addr16", "addr32"} ->
            LET rty == Fn(Top).regty[I.s[1].r]
                n == CASE op = "addr8" -> 1 [] op = "addr16" -> 2 [] op = "addr32" -> 4 [] OTHER -> 8 IN
            IF op # "addr" /\ rty # "i" THEN GoUndef("narrow address insn on a floating point variable")
            ELSE WriteDst(I.d, RegAddrV(Top.id, I.s[1].r, n), nxt, NoOvf)
       [] op = "jmpi" ->
            LET a == Eval(R, mem, I.s[1]) IN
            IF IsBad(a) THEN GoUndef(a.why)
            ELSE IF a.t # "l" \/ a.f # Top.f THEN GoUndef("jmpi to something that is not a label of this function")
            ELSE Jump(a.l)
       [] op = "bstart" -> WriteDst(I.d, StackMarkV(Top.id, Len(mem)), nxt, NoOvf)
       [] op = "bend" ->      \* memory obtained by alloca since the matching bstart is released
            LET v == RegVal(R, I.s[1].r) IN
            IF IsBad(v) THEN GoUndef(v.why)
            ELSE IF v.t # "sm" \/ v.fid # Top.id THEN GoUndef("bend of something that bstart of this activation did not save")
            ELSE /\ mem' = [b \in 1..Len(mem) |-> IF b > v.n THEN [mem[b] EXCEPT !.live = FALSE, !.cells = <<>>] ELSE mem[b]]   \* dead: never read again
                 /\ frames' = SetTop([Top EXCEPT !.pc = nxt, !.ovf = NoOvf])
                 /\ UNCHANGED <<prog, log, status, why, result>>
       [] op = "va_start" ->
            LET a == RegVal(R, I.s[1].r) IN
            IF IsBad(a) THEN GoUndef(a.why)
            ELSE IF ~IsVararg(Fn(Top)) THEN GoUndef("va_start in a function without ...")
            ELSE IF a.t # "p" \/ ~InBlock(mem, a.b, a.o, 24) THEN GoUndef("va_list is not the address of 24 live bytes")
            ELSE /\ mem' = SetCells(mem, a.b, a.o, VaCells(Top.id, 0))
                 /\ frames' = SetTop([Top EXCEPT !.pc = nxt, !.ovf = NoOvf])
                 /\ UNCHANGED <<prog, log, status, why, result>>
       [] op = "va_arg" ->    \* the address of (a copy of) the next variable argument, which must have been passed with this type
            LET a == RegVal(R, I.s[1].r) IN
            IF IsBad(a) THEN GoUndef(a.why)
            ELSE LET st == VaState(a) IN
                 IF ~st.ok THEN GoUndef("va_arg on something va_start of this activation did not set up")
                 ELSE IF st.pos >= Len(Top.va) THEN GoUndef("va_arg past the last argument")
                 ELSE LET e == Top.va[st.pos + 1]  n == IF I.ty = "ld" THEN 16 ELSE 8 IN
                      IF e.ty # I.ty THEN GoUndef("va_arg with another type than the argument was passed with")
                      ELSE LET m1 == Append(SetCells(mem, a.b, a.o, VaCells(Top.id, st.pos + 1)),
                                            [sz |-> n, live |-> TRUE, cells |-> [j \in 1..n |-> UndefC]])
                               m2 == StoreMem(m1, I.ty, Len(mem) + 1, 0, e.v) IN
                           IF ~m2.ok THEN GoUndef(m2.why)
                           ELSE /\ mem' = m2.m
                                /\ frames' = SetTop([Top EXCEPT !.regs[I.d.r] = PtrV(Len(mem) + 1, 0), !.pc = nxt, !.ovf = NoOvf])
                                /\ UNCHANGED <<prog, log, status, why, result>>
       [] op = "va_end" ->
            LET a == RegVal(R, I.s[1].r) IN
            IF IsBad(a) THEN GoUndef(a.why)
            ELSE IF ~VaState(a).ok THEN GoUndef("va_end on something va_start of this activation did not set up")
            ELSE Jump(nxt)
       [] op = "alloca" ->
            LET a == AsInt(Eval(R, mem, I.s[1])) IN
            IF IsBad(a) THEN GoUndef(a.why)
            ELSE IF ~(FitsNat(a.w) /\ ToNat(a.w) <= 70000) THEN GoUndef("alloca size out of modelled range")
            ELSE /\ mem' = Append(mem, [sz |-> ToNat(a.w), live |-> TRUE, cells |-> [i \in 1..ToNat(a.w) |-> UndefC]])
                 /\ frames' = SetTop([Top EXCEPT !.regs[I.d.r] = PtrV(Len(mem) + 1, 0), !.pc = nxt, !.ovf = NoOvf])
                 /\ UNCHANGED <<log, status, why, result>>
       [] op = "call" ->
            LET args == [i \in 1..Len(I.args) |-> Eval(R, mem, I.args[i])]
                badarg == {i \in 1..Len(args) : IsBad(args[i])} IN
            IF badarg # {} THEN GoUndef(args[CHOOSE i \in badarg : TRUE].why)
            ELSE IF I.callee.k = "reg" /\ RegVal(R, I.callee.r).t # "fn" THEN GoUndef("indirect call through something that is not a function address")
            ELSE IF I.callee.k = "cb"
            THEN \* external C function ext_cb (id, f, v): logs (id, v) and calls the MIR function f (v); its result is the call's result
                 IF args[1].t # "i" \/ args[1].h \/ args[2].t # "fn" \/ args[3].t # "i" \/ args[3].h THEN GoUndef("bad callback arguments")
                 ELSE IF Len(frames) >= 12 THEN GoUndef("call depth bound")
                 ELSE LET g == prog.funcs[args[2].f] IN
                      /\ log' = Append(log, <<args[1].w, args[3].w>>)
                      /\ frames' = Append(SetTop([Top EXCEPT !.ovf = NoOvf]),
                                          [f |-> args[2].f, id |-> steps + 1, va |-> <<>>, pc |-> 1,
                                           regs |-> [r \in 1..Len(g.regty) |-> IF r = 1 THEN Narrow(g.params[1], args[3]) ELSE UndefV],
                                           base |-> Len(mem), ovf |-> NoOvf])
                      /\ UNCHANGED <<mem, status, why, result>>
            ELSE IF I.callee.k = "ext"
            THEN \* external C function ext_i(id, v): logged; result v + id.  Pointers must not escape.
                 IF \E i \in 1..Len(args) : args[i].t # "i" \/ args[i].h THEN GoUndef("non-integer or half-defined value passed to an external")
                 ELSE /\ log' = Append(log, <<args[1].w, args[2].w>>)
                      /\ IF Len(I.res) = 0
                         THEN /\ frames' = SetTop([Top EXCEPT !.pc = nxt, !.ovf = NoOvf])
                              /\ UNCHANGED <<mem, status, why, result>>
                         ELSE /\ frames' = SetTop([Top EXCEPT !.regs[I.res[1].r] = ExtResult(args[1], args[2]), !.pc = nxt, !.ovf = NoOvf])
                              /\ UNCHANGED <<mem, status, why, result>>
            ELSE LET cf == IF I.callee.k = "reg" THEN RegVal(R, I.callee.r).f ELSE I.callee.f
                     g == prog.funcs[cf]
                     byval == {r \in 1..Len(g.params) : g.params[r] \in ByValTys}          \* blocks passed by value (at most one here)
                     byref == {r \in 1..Len(g.params) : g.params[r] = "rblk16"}
                     blkbad == \E r \in byval \cup byref : args[r].t # "p" \/ ~InBlock(mem, args[r].b, args[r].o, BlkSz(g.params[r]))
                     bv == IF byval = {} THEN 0 ELSE CHOOSE r \in byval : TRUE
                     bn == IF bv = 0 THEN 0 ELSE BlkSz(g.params[bv]) IN
                 IF Len(frames) >= 12 THEN GoUndef("call depth bound")
                 ELSE IF blkbad THEN GoUndef("block argument is not the address of a live block of the parameter's size")
                 ELSE /\ frames' = Append(SetTop([Top EXCEPT !.ovf = NoOvf]),
                                          [f |-> cf, id |-> steps + 1, va |-> VaTail(I, g, args), pc |-> 1,
                                           regs |-> [r \in 1..Len(g.regty) |->
                                                       IF r = bv THEN PtrV(Len(mem) + 1, 0)     \* the callee sees its own copy
                                                       ELSE IF r <= Len(g.params) THEN Narrow(g.params[r], args[r]) ELSE UndefV],
                                           base |-> Len(mem), ovf |-> NoOvf])
                      /\ mem' = IF bv = 0 THEN mem
                                ELSE Append(mem, [sz |-> bn, live |-> TRUE,      \* exactly the parameter's size is the callee's
                                                  cells |-> SubSeq(mem[args[bv].b].cells, args[bv].o + 1, args[bv].o + bn)])
                      /\ UNCHANGED <<log, status, why, result>>
       \* jcall / jret: a call without a return address; the callee (no arguments, no results) leaves by `jret a` where a is the
       \* address of a label of the function that executed the jcall (it got there through memory or a global variable)
       [] op = "jcall" ->
            LET cf == IF I.callee.k = "reg" THEN RegVal(R, I.callee.r).f ELSE I.callee.f
                g == prog.funcs[cf] IN
            IF I.callee.k = "reg" /\ RegVal(R, I.callee.r).t # "fn" THEN GoUndef("jcall through something that is not a function address")
            ELSE IF Len(g.params) # 0 \/ Len(g.res) # 0 THEN GoUndef("jcall of a function with arguments or results")
            ELSE IF Len(frames) >= 12 THEN GoUndef("call depth bound")
            ELSE /\ frames' = Append(SetTop([Top EXCEPT !.ovf = NoOvf]),
                                     [f |-> cf, id |-> steps + 1, va |-> <<>>, pc |-> 1, regs |-> [r \in 1..Len(g.regty) |-> UndefV],
                                      base |-> Len(mem), ovf |-> NoOvf, jc |-> TRUE])
                 /\ UNCHANGED <<mem, log, status, why, result>>
       [] op = "jret" ->
            LET a == Eval(R, mem, I.s[1])
                mem2 == [b \in 1..Len(mem) |-> IF b > Top.base THEN [mem[b] EXCEPT !.live = FALSE, !.cells = <<>>] ELSE mem[b]] IN
            IF IsBad(a) THEN GoUndef(a.why)
            ELSE IF "jc" \notin DOMAIN Top \/ Len(frames) < 2 THEN GoUndef("jret in a function that was not entered by jcall")
            ELSE IF a.t # "l" \/ a.f # frames[Len(frames) - 1].f THEN GoUndef("jret to something that is not a label of the function that did the jcall")
            ELSE /\ frames' = [SubSeq(frames, 1, Len(frames) - 1) EXCEPT ![Len(frames) - 1] = [frames[Len(frames) - 1] EXCEPT !.pc = a.l]]
                 /\ mem' = mem2
                 /\ UNCHANGED <<log, status, why, result>>
       [] op = "ret" ->
            LET vals == [i \in 1..Len(I.s) |-> Eval(R, mem, I.s[i])]
                badv == {i \in 1..Len(vals) : IsBad(vals[i])}
                rts == Fn(Top).res
                outv == [i \in 1..Len(vals) |-> Narrow(rts[i], vals[i])]
                \* allocas of the returning frame die
                mem2 == [b \in 1..Len(mem) |-> IF b > Top.base THEN [mem[b] EXCEPT !.live = FALSE, !.cells = <<>>] ELSE mem[b]] IN
            IF "jc" \in DOMAIN Top THEN GoUndef("ret in a function entered by jcall")
            ELSE IF badv # {} THEN GoUndef(vals[CHOOSE i \in badv : TRUE].why)
            ELSE IF Len(frames) = 1
            THEN /\ status' = "done" /\ result' = outv /\ mem' = mem2
                 /\ UNCHANGED <<frames, log, why>>
            ELSE LET caller == frames[Len(frames) - 1]
                     CI == prog.funcs[caller.f].insns[caller.pc]
                     regs2 == [r \in 1..Len(caller.regs) |->
                                 IF \E i \in 1..Len(CI.res) : CI.res[i].r = r
                                 THEN outv[CHOOSE i \in 1..Len(CI.res) : CI.res[i].r = r] ELSE caller.regs[r]] IN
                 /\ frames' = [SubSeq(frames, 1, Len(frames) - 1) EXCEPT ![Len(frames) - 1] = [caller EXCEPT !.regs = regs2, !.pc = caller.pc + 1]]
                 /\ mem' = mem2
                 /\ UNCHANGED <<log, status, why, result>>

(* falling off the end of a function or exceeding the step bound are not behaviours we replay *)
StepBound == IF "bound" \in DOMAIN prog THEN prog.bound ELSE 400      \* long-running family programs bring their own bound
Guarded ==
  IF status = "run" /\ (steps >= StepBound \/ Top.pc > Len(Fn(Top).insns))
  THEN /\ status' = "undef" /\ why' = "step bound or fell off the end" /\ steps' = steps
       /\ UNCHANGED <<prog, frames, mem, log, result>>
  ELSE Step
=============================================================================
