CONSTANTS
  OpTypes = {"sc", "uc", "s", "us", "i", "u", "l", "ul", "ll", "ull"}
  ResTypes = {"i", "u", "l", "ul", "ll", "ull"}
  GridSel = "g3"
  MaxVa = 3
  Variants = {"cv", "ci", "rv", "ri"}
INIT Init
NEXT Next
INVARIANT EmitInv
