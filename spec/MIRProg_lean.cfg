CONSTANTS
  NSlots = 12
  Glob = "calls"
  Abs = TRUE
  Lean = TRUE
  Vocab = "all"
INIT Init
NEXT Next
ACTION_CONSTRAINT EmitCase
INVARIANTS TypeOK RegsTyped
