/* Reproducer for C17 findings c2mir:raw_free:* : c2mir releases blocks it obtained from the user's
   MIR_alloc_t with libc free().  The allocator below hands out memory from a static arena (never from
   malloc), which CUSTOM-ALLOCATORS.md explicitly allows ("memory cannot / should not directly be managed
   by calls to malloc, free").  c2mir_init + c2mir_finish is enough: c2mir_finish calls free (c2m_ctx) on an
   arena pointer -> glibc aborts with "free(): invalid pointer" (or corrupts the heap).
   build: gcc -I/repo repro.c /repo/mir.c /repo/mir-gen.c /repo/c2mir/c2mir.c -lm -ldl -lpthread */
#include <stdio.h>
#include <string.h>
#include "mir.h"
#include "c2mir/c2mir.h"

static _Alignas (16) char arena[64 << 20];
static size_t used;
static void *a_malloc (size_t n, void *u) {
  void *p = arena + used;
  used += (n + 15) & ~(size_t) 15;
  return used <= sizeof (arena) ? p : NULL;
}
static void *a_calloc (size_t a, size_t b, void *u) {
  void *p = a_malloc (a * b, u);
  if (p) memset (p, 0, a * b);
  return p;
}
static void *a_realloc (void *p, size_t old, size_t n, void *u) {
  void *q = a_malloc (n, u);
  if (q && p) memcpy (q, p, old < n ? old : n);
  return q;
}
static void a_free (void *p, void *u) {}
static struct MIR_alloc arena_alloc = {a_malloc, a_calloc, a_realloc, a_free, NULL};

int main (void) {
  MIR_context_t ctx = MIR_init2 (&arena_alloc, NULL);
  c2mir_init (ctx);
  fprintf (stderr, "c2mir_init done, calling c2mir_finish\n");
  c2mir_finish (ctx); /* free (c2m_ctx) on an arena pointer */
  MIR_finish (ctx);
  fprintf (stderr, "finished without a crash\n");
  return 0;
}
