#include <stdio.h>
struct P { long x, y; };
struct L { long double ld; };
struct M { long double ld; long z; };
struct D { double v; };
long f1(double d1,double d2,double d3,double d4,double d5,double d6,double d7,double d8,double d9, long a, struct P p) { return p.x * 1000 + p.y + a; }
long f2(long i1,long i2,long i3,long i4,long i5,long i6,long i7, struct D s) { return (long) s.v; }
long f3(double d1,double d2,double d3,double d4,double d5,double d6,double d7,double d8,double d9, struct L l) { return (long) l.ld; }
long f4(long i1,long i2,long i3,long i4,long i5,long i6,long i7, struct M m) { return (long) m.ld + m.z; }
