#include <stdio.h>
struct P { long x, y; };
struct L { long double ld; };
struct M { long double ld; long z; };
struct D { double v; };
extern long f1(double d1,double d2,double d3,double d4,double d5,double d6,double d7,double d8,double d9, long a, struct P p);
extern long f2(long i1,long i2,long i3,long i4,long i5,long i6,long i7, struct D s);
extern long f3(double d1,double d2,double d3,double d4,double d5,double d6,double d7,double d8,double d9, struct L l);
extern long f4(long i1,long i2,long i3,long i4,long i5,long i6,long i7, struct M m);
int main(void) { struct P p = {7, 9}; struct D d = {42.0}; struct L l = {77.0L}; struct M m = {55.0L, 3};
  printf("%ld %ld %ld %ld\n", f1(1,2,3,4,5,6,7,8,9, 100, p), f2(1,2,3,4,5,6,7, d), f3(1,2,3,4,5,6,7,8,9, l), f4(1,2,3,4,5,6,7, m)); return 0; }
