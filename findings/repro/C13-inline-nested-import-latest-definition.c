#include <stdio.h>
#include "mir.h"
#include "mir-gen.h"
static char m1[8192];
static long ext_h (void) { return 1; }
static const char *mb = "mb: module\n import h\n export g\nph: proto i64\ng: func i64\n local i64:r\n call ph, h, r\n add r, r, 10\n ret r\n endfunc\n endmodule\n";
static const char *m2 = "m2: module\n export h\nh: func i64\n ret 2\n endfunc\n endmodule\n";
static const char *mc = "mc: module\n import g\n export k, kc\npg: proto i64\nk: func i64\n local i64:r\n inline pg, g, r\n ret r\n endfunc\nkc: func i64\n local i64:r\n call pg, g, r\n ret r\n endfunc\n endmodule\n";
static MIR_item_t find (MIR_context_t ctx, const char *mod, const char *name) {
  for (MIR_module_t m = DLIST_HEAD (MIR_module_t, *MIR_get_module_list (ctx)); m != NULL; m = DLIST_NEXT (MIR_module_t, m))
    if (strcmp (m->name, mod) == 0)
      for (MIR_item_t it = DLIST_HEAD (MIR_item_t, m->items); it != NULL; it = DLIST_NEXT (MIR_item_t, it))
        if (it->item_type == MIR_func_item && strcmp (it->u.func->name, name) == 0) return it;
  return NULL;
}
static void load (MIR_context_t ctx, const char *src) {
  MIR_scan_string (ctx, src);
  MIR_load_module (ctx, DLIST_TAIL (MIR_module_t, *MIR_get_module_list (ctx)));
}
int main (int argc, char **argv) {
  int gen = argc > 1 && argv[1][0] == 'g';
  MIR_context_t ctx = MIR_init ();
  MIR_val_t r;
  void (*iface) (MIR_context_t, MIR_item_t) = gen ? MIR_set_gen_interface : MIR_set_interp_interface;
  if (gen) MIR_gen_init (ctx);
  if (argc > 2) MIR_load_external (ctx, "h", ext_h); /* variant: first h is a C function */
  else {
    strcpy (m1, "m1: module\n export h\nh: func i64\n local i64:r\n mov r, 1\n");
    for (int i = 0; i < 60; i++) strcat (m1, " add r, r, 1\n");   /* too big for inlining of a plain call */
    strcat (m1, " sub r, r, 60\n ret r\n endfunc\n endmodule\n");
    load (ctx, m1);
  }
  load (ctx, mb);
  MIR_link (ctx, iface, NULL);                       /* step 1: mb.h is bound to m1.h */
  MIR_set_func_redef_permission (ctx, 1);
  load (ctx, m2); load (ctx, mc);
  MIR_link (ctx, iface, NULL);                       /* step 2: mc.g is bound to mb.g */
#define RUN(mod, f) (gen ? ((long (*) (void)) find (ctx, mod, f)->addr) () : (MIR_interp (ctx, find (ctx, mod, f), &r, 0), (long) r.i))
  printf ("%s: g() = %ld, kc() [call g] = %ld, k() [inline g] = %ld   (g was linked against h returning 1: expected 11 11 11)\n",
          gen ? "gen" : "interp", RUN ("mb", "g"), RUN ("mc", "kc"), RUN ("mc", "k"));
  return 0;
}
